package c11

// Implementation-only ops that close the gaps found by the coverage report and the operator-mutation sweep
// (notes/C11-mutation-sweep.md):
//
//   @serev (o RICH DEDUP LOCALREF) <rval>   the real serializer drives the real JSON streamer through a tee that
//                                           answers the capability queries as the streamer does and records the
//                                           events; the bytes must be valid JSON and JsonToData must deliver the
//                                           recorded events; with rich_data the deserializer must rebuild the value
//   @serjson <rval>                         = @serev (o t 2 t)
//   @serpb <rval> / @serpbo (o …) <rval>    the same through the protobuf consumer and ConsumePBData
//   @jsonx <ev>                             event trees with NaN / ±Inf floats: refused, or valid JSON — never silently
//                                           something else
//   @d2j <rval>                             DataToJson: valid JSON, read back to the value
//   @coll <ev>                              types.BasicCollector (the frame the deserializer is built on) against
//                                           the harness's own reading of an event tree with back-references
//
// rval = dval plus (x xHEX) Binary, non-string keys and the rich leaves (df) (rx xSRC) (tsp N) (ty xSRC) (sn rval)

import (
	"bytes"
	"context"
	"encoding/json"
	"fmt"
	"math/rand"
	"strings"
	"time"

	"verif/harness/core"
	"verif/harness/sx"

	"github.com/lyraproj/issue/issue"
	"github.com/lyraproj/pcore/pcore"
	"github.com/lyraproj/pcore/proto"
	"github.com/lyraproj/pcore/px"
	"github.com/lyraproj/pcore/serialization"
	"github.com/lyraproj/pcore/types"
)

const longStr = "😀 long enough to be de-duplicated by a serializer"

// fail: a predicate failure of an implementation-only op; the detail is kept on one line (the line protocol) and short
func fail(class, detail string) core.Result {
	detail = strings.Replace(strings.Replace(detail, "\n", "\\n", -1), "\r", "\\r", -1)
	if len(detail) > 1200 {
		detail = detail[:1200] + "…"
	}
	return core.Fail("-", class, detail)
}

type nullLogger struct{}

func (nullLogger) Log(level px.LogLevel, args ...px.Value)                    {}
func (nullLogger) Logf(level px.LogLevel, format string, args ...interface{}) {}
func (nullLogger) LogIssue(i issue.Reported)                                  {}

// quietly runs f in a context whose logger drops the serializer's warnings (rich_data=false converts rich values
// to strings and says so once per value)
func quietly(c px.Context, f func(ctx px.Context)) {
	q := pcore.WithParent(context.Background(), px.NewParentedLoader(c.Loader()), nullLogger{}, c.ImplementationRegistry())
	px.DoWithContext(q, f)
}

// tee hands every event on to the wrapped consumer and records it; the capability queries are the wrapped
// consumer's own (embedded), so the serializer emits exactly what it would emit for that consumer.
type tee struct {
	px.ValueConsumer
	rec *recorder
}

func (t *tee) Add(v px.Value) { t.rec.Add(v); t.ValueConsumer.Add(v) }
func (t *tee) AddRef(ref int) { t.rec.AddRef(ref); t.ValueConsumer.AddRef(ref) }
func (t *tee) AddArray(n int, doer px.Doer) {
	t.rec.nest("a", func() { t.ValueConsumer.AddArray(n, doer) })
}
func (t *tee) AddHash(n int, doer px.Doer) {
	t.rec.nest("h", func() { t.ValueConsumer.AddHash(n, doer) })
}

type serOpts struct {
	rich     bool
	dedup    int64
	localRef bool
}

func parseSerOpts(e sx.Sexp) serOpts {
	a := e.Args()
	if e.Tag() != "o" || len(a) != 3 {
		panic(fmt.Errorf("bad options %s", e))
	}
	return serOpts{rich: a[0].MustBool(), dedup: a[1].MustInt(), localRef: a[2].MustBool()}
}

func (o serOpts) hash() px.OrderedMap {
	return types.WrapHash([]*types.HashEntry{
		types.WrapHashEntry2("rich_data", types.WrapBoolean(o.rich)),
		types.WrapHashEntry2("dedup_level", types.WrapInteger(o.dedup)),
		types.WrapHashEntry2("local_reference", types.WrapBoolean(o.localRef))})
}

// rich leaves (values outside Data that the serializer turns into __ptype hashes)
func richLeaf(c px.Context, e sx.Sexp) (px.Value, bool) {
	a := e.Args()
	switch e.Tag() {
	case "df":
		return types.WrapDefault(), true
	case "rx":
		return types.WrapRegexp(a[0].MustStr()), true
	case "tsp":
		return types.WrapTimespan(time.Duration(a[0].MustInt())), true
	case "ty":
		return c.ParseType(a[0].MustStr()), true
	case "sn":
		return types.WrapSensitive(rvalOf(c, a[0])), true
	}
	return nil, false
}

func rvalOf(c px.Context, e sx.Sexp) px.Value {
	switch e.Tag() {
	case "a":
		vs := []px.Value{}
		for _, k := range e.Args() {
			vs = append(vs, rvalOf(c, k))
		}
		return types.WrapValues(vs)
	case "h":
		es := []*types.HashEntry{}
		for _, kv := range e.Args() {
			es = append(es, types.WrapHashEntry(rvalOf(c, kv.List[0]), rvalOf(c, kv.List[1])))
		}
		return types.WrapHash(es)
	}
	if v, ok := richLeaf(c, e); ok {
		return v
	}
	return evOf(e).scalar()
}

func hasTag(e sx.Sexp, tags string) bool {
	if e.IsList {
		if t := e.Tag(); t != "" && strings.Contains(tags, " "+t+" ") && !(t == "a" || t == "h") {
			return true
		}
		for _, k := range e.List {
			if hasTag(k, tags) {
				return true
			}
		}
	}
	return false
}

func hasRich(e sx.Sexp) bool      { return hasTag(e, " df rx tsp ty sn ") }
func hasSensitive(e sx.Sexp) bool { return hasTag(e, " sn ") }

// the values of one @serev line: the value itself and the same value object at later positions (back-references to
// containers), a long string twice (back-reference to a string), and the long string as a KEY of two hashes (a
// consumer that cannot do complex keys must never be handed a back-reference in key position)
func serWrap(v px.Value) px.Value {
	long := types.WrapString(longStr)
	return types.WrapValues([]px.Value{v, v, long, v, long,
		types.WrapHash([]*types.HashEntry{types.WrapHashEntry(long, v)}),
		types.WrapHash([]*types.HashEntry{types.WrapHashEntry(long, long)})})
}

func serev(c px.Context, o serOpts, arg sx.Sexp, wrap bool) core.Result {
	v := rvalOf(c, arg)
	w := v
	if wrap {
		w = serWrap(v)
	}
	var buf bytes.Buffer
	rec := newRecorder()
	if err := safely(func() {
		serialization.NewSerializer(c, o.hash()).Convert(w, &tee{serialization.NewJsonStreamer(&buf), rec})
	}); err != nil {
		return fail("serjson-write-panic", fmt.Sprint(err))
	}
	tags := []string{fmt.Sprintf("serev:rich=%v,dedup=%d,lref=%v", o.rich, o.dedup, o.localRef)}
	// 1. syntactically valid JSON, whatever the value and the options
	if !json.Valid(buf.Bytes()) {
		return fail("serjson-invalid-json", buf.String())
	}
	// 2. reading it back delivers the events the serializer sent
	if len(rec.events()) != 1 {
		return fail("serjson-events", fmt.Sprintf("%d top-level events sent", len(rec.events())))
	}
	sent := rec.events()[0]
	back := newRecorder()
	rd := "err"
	if err := safely(func() { serialization.JsonToData("t", bytes.NewReader(buf.Bytes()), back) }); err != nil {
		rd = "err " + fmt.Sprint(err)
	} else if len(back.events()) == 1 {
		rd = back.events()[0].sexp().String()
	}
	if rd != sent.sexp().String() {
		if sent.prefFirst() {
			return fail("pref-key", "events differ after read-back (reserved key __pref first in a hash): "+rd)
		}
		return fail("serjson-events-differ", buf.String()+" sent "+sent.sexp().String()+" read back as "+rd)
	}
	// 3. end to end through the real deserializer: rich data comes back as the value; without rich data only
	//    Data values with string keys are carried as they are
	if hasSensitive(arg) || (!o.rich && (hasRich(arg) || hasBin(arg) || hasNonStringKey(arg))) {
		return core.Result{Out: "-", Pred: "ok", NonTrivial: true, Tags: tags}
	}
	var got px.Value
	if err := safely(func() {
		fc := serialization.NewDeserializer(c, px.EmptyMap)
		serialization.JsonToData("t", bytes.NewReader(buf.Bytes()), fc)
		got = fc.Value()
	}); err != nil {
		if containsReserved(arg) {
			return fail("pref-key", "reserved key in user hash: "+fmt.Sprint(err))
		}
		return fail("serjson-read-panic", buf.String()+": "+fmt.Sprint(err))
	}
	if got == nil || !got.Equals(w, nil) || !w.Equals(got, nil) || rvalStr(got) != rvalStr(w) {
		if containsReserved(arg) {
			return fail("pref-key", "reserved key in user hash changes the value on the way back")
		}
		return fail("serjson-differs", buf.String())
	}
	return core.Result{Out: "-", Pred: "ok", NonTrivial: true, Tags: tags}
}

// the same through protobuf: serializer → protoConsumer (through the tee) → ConsumePBData
func serpb(c px.Context, o serOpts, arg sx.Sexp) core.Result {
	v := rvalOf(c, arg)
	w := serWrap(v)
	rec := newRecorder()
	back := newRecorder()
	var got px.Value
	if err := safely(func() {
		pc := proto.NewProtoConsumer()
		serialization.NewSerializer(c, o.hash()).Convert(w, &tee{pc, rec})
		proto.ConsumePBData(pc.Value(), back)
		fc := serialization.NewDeserializer(c, px.EmptyMap)
		proto.ConsumePBData(pc.Value(), fc)
		if len(rec.events()) == 1 && len(back.events()) == 1 && rec.events()[0].sexp().String() != back.events()[0].sexp().String() {
			return // reported below, before the value is asked for
		}
		got = fc.Value()
	}); err != nil {
		if containsReserved(arg) {
			return fail("pref-key", "reserved key in user hash: "+fmt.Sprint(err))
		}
		return fail("serpb-panic", fmt.Sprint(err))
	}
	tags := []string{fmt.Sprintf("serpb:rich=%v,dedup=%d,lref=%v", o.rich, o.dedup, o.localRef)}
	if len(rec.events()) != 1 || len(back.events()) != 1 {
		return fail("serpb-events", fmt.Sprintf("%d top-level events sent, %d delivered", len(rec.events()), len(back.events())))
	}
	if sent, rd := rec.events()[0].sexp().String(), back.events()[0].sexp().String(); sent != rd {
		return fail("serpb-events-differ", "sent "+sent+" delivered "+rd)
	}
	// a Sensitive is equal to nothing, itself included; without rich data only Data is promised to arrive as it was:
	// what the serializer does with the rest depends on what the consumer says it can do (a consumer that declines
	// Binary or complex keys gets their text), which is the serializer's contract, not the transport's
	if hasSensitive(arg) || (!o.rich && (hasRich(arg) || hasBin(arg) || hasNonStringKey(arg))) {
		return core.Result{Out: "-", Pred: "ok", NonTrivial: true, Tags: tags}
	}
	if got == nil || !got.Equals(w, nil) || !w.Equals(got, nil) || rvalStr(got) != rvalStr(w) {
		if containsReserved(arg) {
			return fail("pref-key", "reserved key in user hash changes the value on the way back")
		}
		g := "nil"
		if got != nil {
			g = rvalStr(got)
		}
		return fail("serpb-differs", g)
	}
	return core.Result{Out: "-", Pred: "ok", NonTrivial: true, Tags: tags}
}

// jsonx: event trees holding floats that JSON cannot carry (NaN, ±Inf).  The streamer may refuse them (it does: a
// reported failure); what it must never do is return normally having written something that is not JSON.
func jsonx(arg sx.Sexp) core.Result {
	e := evOf(arg)
	var buf bytes.Buffer
	if err := safely(func() { e.feed(serialization.NewJsonStreamer(&buf)) }); err != nil {
		return core.Result{Out: "-", Pred: "ok", Tags: []string{"jsonx:refused"}}
	}
	if !e.wf() {
		return core.Result{Out: "-", Pred: "n/a"}
	}
	if !json.Valid(buf.Bytes()) {
		return fail("invalid-json", buf.String())
	}
	return core.Result{Out: "-", Pred: "ok", NonTrivial: e.hasContainer(), Tags: []string{"jsonx:written"}}
}

// rvalStr: valStr extended with the rich leaves (printed by their own String)
func rvalStr(v px.Value) string {
	switch v := v.(type) {
	case *types.Array:
		xs := []string{}
		v.Each(func(e px.Value) { xs = append(xs, " "+rvalStr(e)) })
		return "(a" + strings.Join(xs, "") + ")"
	case *types.Hash:
		xs := []string{}
		v.EachPair(func(k, e px.Value) { xs = append(xs, " ("+rvalStr(k)+" "+rvalStr(e)+")") })
		return "(h" + strings.Join(xs, "") + ")"
	case px.Integer, px.Float, px.StringValue, px.Boolean, *types.Binary, *types.UndefValue:
		return valStr(v)
	}
	return "(rich " + sx.Str(fmt.Sprintf("%T %s", v, v.String())).Atom + ")"
}

// DataToJson (deprecated front of the same streamer, rich_data=false): valid JSON (the newline it appends is
// white space), read back to the value when the value is Data
func d2j(c px.Context, arg sx.Sexp) core.Result {
	// DataToJson serializes under a root context of its own making (and makes it the goroutine's current context):
	// what is not Data would be converted to strings with a warning on the process's standard logger — the
	// serializer's business (C10), kept out of this op
	if hasRich(arg) || hasBin(arg) || hasNonStringKey(arg) {
		return core.Result{Out: "-", Pred: "n/a"}
	}
	v := rvalOf(c, arg)
	var buf bytes.Buffer
	if err := safely(func() { serialization.DataToJson(v, &buf) }); err != nil {
		return fail("d2j-write-panic", fmt.Sprint(err))
	}
	b := buf.Bytes()
	if !json.Valid(b) {
		return fail("d2j-invalid-json", buf.String())
	}
	var got px.Value
	if err := safely(func() {
		fc := serialization.NewDeserializer(c, px.EmptyMap)
		serialization.JsonToData("t", bytes.NewReader(b), fc)
		got = fc.Value()
	}); err != nil {
		if containsReserved(arg) {
			return fail("pref-key", "reserved key in user hash: "+fmt.Sprint(err))
		}
		return fail("d2j-read-panic", buf.String()+": "+fmt.Sprint(err))
	}
	if got == nil || !got.Equals(v, nil) || valStr(got) != valStr(v) {
		if containsReserved(arg) {
			return fail("pref-key", "reserved key in user hash changes the value on the way back")
		}
		return fail("d2j-differs", buf.String())
	}
	return core.Result{Out: "-", Pred: "ok", NonTrivial: true, Tags: []string{"d2j:data"}}
}

// ---- BasicCollector ---------------------------------------------------------------------------------------------

// collRef is the harness's own reading of an event stream with back-references: every Add, AddArray and AddHash
// takes the next index (a container before its members, a hash key like any other value), AddRef takes none and
// stands for the value at the index it names.  ok=false: a reference to something not yet complete (forward, or
// an enclosing container) — such a stream is outside the quantifier.
type collRef struct {
	vals []*string // printed form of the value at each index; nil while the container is open
}

func (cr *collRef) str(e *ev) (string, bool) {
	switch e.kind {
	case "r":
		if e.i < 0 || e.i >= int64(len(cr.vals)) || cr.vals[e.i] == nil {
			return "", false
		}
		return *cr.vals[e.i], true
	case "a", "h":
		if e.kind == "h" && len(e.kids)%2 != 0 {
			return "", false
		}
		idx := len(cr.vals)
		cr.vals = append(cr.vals, nil)
		xs := make([]string, len(e.kids))
		for i, k := range e.kids {
			s, ok := cr.str(k)
			if !ok {
				return "", false
			}
			xs[i] = s
		}
		var s string
		if e.kind == "a" {
			s = "(a"
			for _, x := range xs {
				s += " " + x
			}
		} else {
			// keys: scalars whose equality is their printed form, no key twice (what a hash does with a repeated key
			// is the hash's business, not the collector's)
			seen := map[string]bool{}
			s = "(h"
			for i := 0; i < len(xs); i += 2 {
				k := xs[i]
				if !(strings.HasPrefix(k, "(s ") || strings.HasPrefix(k, "(i ") || strings.HasPrefix(k, "(b ") || k == "(u)") || seen[k] {
					return "", false
				}
				seen[k] = true
				s += " (" + k + " " + xs[i+1] + ")"
			}
		}
		s += ")"
		cr.vals[idx] = &s
		return s, true
	}
	s := e.sexp().String()
	cr.vals = append(cr.vals, &s)
	return s, true
}

func coll(arg sx.Sexp) core.Result {
	e := evOf(arg)
	want, ok := (&collRef{}).str(e)
	if !ok {
		return core.Result{Out: "-", Pred: "n/a"}
	}
	col := types.NewCollector()
	var got px.Value
	if err := safely(func() { e.feed(col); got = col.Value() }); err != nil {
		return fail("collector-panic", fmt.Sprint(err))
	}
	if got == nil || valStr(got) != want {
		return fail("collector-differs", "collected "+valStr(got)+" expected "+want)
	}
	return core.Result{Out: "-", Pred: "ok", NonTrivial: e.hasContainer(), Tags: []string{"coll"}}
}

// ---- generators -------------------------------------------------------------------------------------------------

var richLeaves = []string{"(df)", "(rx x5e612e2a24)", "(tsp 1500000000)", "(ty x496e74656765725b312c325d)", "(ty x41727261795b537472696e675d)", "(sn (s x73656372657420737472696e67))", "(sn (a (i 1) (x x00ff)))"}

func rscalar(r *rand.Rand) sx.Sexp {
	switch r.Intn(8) {
	case 0:
		return sx.T("x", sx.Str([]string{"", "\x00", "\x01\x02", "\xff\xfe binary long enough to be de-duplicated"}[r.Intn(4)]))
	case 1:
		xs, err := sx.Parse(richLeaves[r.Intn(len(richLeaves))])
		if err != nil {
			panic(err)
		}
		return xs[0]
	case 2:
		return sx.T("s", sx.Str(longStr))
	}
	return scalarEv(r).sexp()
}

func rkey(r *rand.Rand) sx.Sexp {
	switch r.Intn(8) {
	case 0:
		return sx.T("i", sx.Int(int64(r.Intn(3))))
	case 1:
		return sx.T("s", sx.Str(longStr))
	case 2:
		switch r.Intn(4) {
		case 0:
			return sx.T("a", sx.T("i", sx.Int(1)), sx.T("s", sx.Str("k")))
		case 1:
			return sx.T("x", sx.Str("\x01\x02"))
		case 2:
			return sx.T("u")
		}
		return sx.T("b", sx.Bool(r.Intn(2) == 0))
	}
	return sx.T("s", sx.Str(strs[r.Intn(len(strs))]))
}

// randRVal: arrays and hashes over the scalars, Binary, rich leaves; string keys mostly, now and then another key
func randRVal(r *rand.Rand, depth int) sx.Sexp {
	if depth <= 0 || r.Intn(3) == 0 {
		return rscalar(r)
	}
	n := r.Intn(4)
	xs := []sx.Sexp{}
	if r.Intn(2) == 0 {
		for i := 0; i < n; i++ {
			xs = append(xs, randRVal(r, depth-1))
		}
		return sx.T("a", xs...)
	}
	seen := map[string]bool{}
	for i := 0; i < n; i++ {
		k := rkey(r)
		if seen[k.String()] {
			continue
		}
		seen[k.String()] = true
		xs = append(xs, sx.L(k, randRVal(r, depth-1)))
	}
	return sx.T("h", xs...)
}

// every value with at most n nodes over a small alphabet that has one member of each class the streamer's
// capabilities speak about: a short and a long string, a Binary, an integer key
func enumRVal(n int) []sx.Sexp {
	if n <= 0 {
		return nil
	}
	out := []sx.Sexp{sx.T("i", sx.Int(1)), sx.T("s", sx.Str("a")), sx.T("s", sx.Str(longStr)), sx.T("x", sx.Str("\x01")), sx.T("f", sx.A("4607182418800017408"))}
	if n == 1 {
		return out
	}
	keys := []sx.Sexp{sx.T("s", sx.Str("a")), sx.T("s", sx.Str(longStr)), sx.T("i", sx.Int(1))}
	for _, kids := range enumRLists(n - 1) {
		out = append(out, sx.T("a", kids...))
	}
	// hashes: a key costs one node; keys in the order of the alphabet, distinct
	var hashes func(budget, from int, acc []sx.Sexp)
	hashes = func(budget, from int, acc []sx.Sexp) {
		out = append(out, sx.T("h", append([]sx.Sexp{}, acc...)...))
		for ki := from; ki < len(keys); ki++ {
			for _, v := range enumRVal(budget - 1) {
				hashes(budget-1-rsize(v), ki+1, append(append([]sx.Sexp{}, acc...), sx.L(keys[ki], v)))
			}
		}
	}
	hashes(n-1, 0, nil)
	return out
}

func rsize(e sx.Sexp) int {
	switch e.Tag() {
	case "a":
		n := 1
		for _, k := range e.Args() {
			n += rsize(k)
		}
		return n
	case "h":
		n := 1
		for _, kv := range e.Args() {
			n += 1 + rsize(kv.List[1])
		}
		return n
	}
	return 1
}

func enumRLists(n int) [][]sx.Sexp {
	out := [][]sx.Sexp{{}}
	if n <= 0 {
		return out
	}
	for _, first := range enumRVal(n) {
		for _, rest := range enumRLists(n - rsize(first)) {
			out = append(out, append([]sx.Sexp{first}, rest...))
		}
	}
	return out
}

var allSerOpts = func() []string {
	xs := []string{}
	for _, rich := range []string{"t", "f"} {
		for _, dd := range []string{"0", "1", "2"} {
			for _, lr := range []string{"t", "f"} {
				xs = append(xs, "(o "+rich+" "+dd+" "+lr+")")
			}
		}
	}
	return xs
}()

// event trees for @coll: valid back-references on purpose (to a scalar, to a closed container, to a key), at every
// position (array member, hash key, hash value), a few dangling ones
func randCollEv(r *rand.Rand, depth int, count *int) *ev {
	ref := func() *ev {
		if *count == 0 || r.Intn(10) == 0 {
			return &ev{kind: "r", i: int64(*count + r.Intn(2))}
		}
		return &ev{kind: "r", i: int64(r.Intn(*count))}
	}
	if depth <= 0 || r.Intn(3) == 0 {
		if r.Intn(3) == 0 {
			return ref()
		}
		*count++
		if r.Intn(6) == 0 {
			return &ev{kind: "x", s: "\x01\x02"}
		}
		return scalarEv(r)
	}
	n := r.Intn(4)
	*count++
	if r.Intn(2) == 0 {
		e := &ev{kind: "a"}
		for i := 0; i < n; i++ {
			e.kids = append(e.kids, randCollEv(r, depth-1, count))
		}
		return e
	}
	e := &ev{kind: "h"}
	for i := 0; i < n; i++ {
		var k *ev
		switch r.Intn(6) {
		case 0:
			k = ref()
		case 1:
			*count++
			k = &ev{kind: "i", i: int64(r.Intn(3))}
		default:
			*count++
			k = &ev{kind: "s", s: strs[r.Intn(len(strs))]}
		}
		e.kids = append(e.kids, k, randCollEv(r, depth-1, count))
	}
	return e
}

// withBin replaces some scalar leaves (never a hash key) by Binary events: the protobuf stream carries them
func withBin(r *rand.Rand, e *ev, key bool) *ev {
	switch e.kind {
	case "a":
		for i, k := range e.kids {
			e.kids[i] = withBin(r, k, false)
		}
	case "h":
		for i, k := range e.kids {
			e.kids[i] = withBin(r, k, i%2 == 0)
		}
	case "r":
	default:
		if !key && r.Intn(3) == 0 {
			return &ev{kind: "x", s: []string{"", "\x00", "\x01\x02", "\xff\xfe\xfd"}[r.Intn(4)]}
		}
	}
	return e
}

// NaN (quiet, signalling payload, negative), +Inf, -Inf as IEEE bit patterns
var nonFinite = []string{"9221120237041090560", "9218868437227405313", "18444492273895866368", "9218868437227405312", "18442240474082181120"}

func withNonFinite(r *rand.Rand, e *ev, key bool, n *int) *ev {
	switch e.kind {
	case "a":
		for i, k := range e.kids {
			e.kids[i] = withNonFinite(r, k, false, n)
		}
	case "h":
		for i, k := range e.kids {
			e.kids[i] = withNonFinite(r, k, i%2 == 0, n)
		}
	case "r":
	default:
		if !key && (r.Intn(4) == 0 || *n == 0) {
			*n++
			return evOf(sx.T("f", sx.A(nonFinite[r.Intn(len(nonFinite))])))
		}
	}
	return e
}

// randStr: up to 6 code points: the ones JSON or encoding/json treat specially (quote, backslash, controls, DEL,
// the HTML three, U+2028/9), the ends of the UTF-8 length classes, U+FFFD itself, or any scalar value at all
var runePool = []rune{'"', '\\', '/', 0, 1, 8, 9, 10, 12, 13, 0x1f, ' ', 0x7f, '<', '>', '&', 'a', 0x80, 0x7ff, 0x800, 0x2028, 0x2029, 0xd7ff, 0xe000, 0xfffd, 0xfffe, 0xffff, 0x10000, 0x1f600, 0x10ffff, 0x301}

func randStr(r *rand.Rand) string {
	n := r.Intn(7)
	rs := make([]rune, n)
	for i := range rs {
		if r.Intn(3) == 0 {
			c := rune(r.Intn(0x110000))
			if c >= 0xd800 && c < 0xe000 {
				c = 0xfffd
			}
			rs[i] = c
		} else {
			rs[i] = runePool[r.Intn(len(runePool))]
		}
	}
	return string(rs)
}

func genSer(g *core.G) {
	// strings: every code point of the pool alone (value and key), then random strings as value, key and array member
	for _, c := range runePool {
		s := &ev{kind: "s", s: string(c)}
		g.Emit("json " + s.sexp().String())
		g.Emit("json " + (&ev{kind: "h", kids: []*ev{s, s}}).sexp().String())
	}
	for i := 0; i < 300*g.Scale; i++ {
		k, v, m := &ev{kind: "s", s: randStr(g.Rng)}, &ev{kind: "s", s: randStr(g.Rng)}, &ev{kind: "s", s: randStr(g.Rng)}
		if k.s == "__pref" {
			continue
		}
		e := &ev{kind: "a", kids: []*ev{m, {kind: "h", kids: []*ev{k, v}}}}
		g.Emit("json " + e.sexp().String())
		if i%3 == 0 {
			g.Emit("pbev " + e.sexp().String())
			g.Emit("pb " + chainVal(e).String())
		}
	}
	// Binary in the protobuf event stream: alone, as every member of the small containers, then at random places
	for _, l := range []string{"(x x)", "(x x00)", "(a (x x01))", "(a (i 1) (x x01) (i 2))", "(h (s x61) (x x01))", "(h (x x01) (x x02))", "(a (a (x x01)) (h (s x61) (a (x xff))))"} {
		g.Emit("pbev " + l)
	}
	for i := 0; i < 300*g.Scale; i++ {
		g.Emit("pbev " + withBin(g.Rng, randEv(g.Rng, 1+g.Rng.Intn(4)), false).sexp().String())
	}
	// exhaustive: every value with ≤ 3 (quick) / ≤ 4 (thorough) nodes, under every combination of the options
	n := 3
	if g.Thorough() {
		n = 4
	}
	for _, v := range enumRVal(n) {
		for _, o := range allSerOpts {
			g.Emit("@serev " + o + " " + v.String())
			g.Emit("@serpbo " + o + " " + v.String())
		}
		g.Emit("@d2j " + v.String())
	}
	for i := 0; i < 1200*g.Scale; i++ {
		v := randRVal(g.Rng, 1+g.Rng.Intn(4)).String()
		g.Emit("@serev " + allSerOpts[g.Rng.Intn(len(allSerOpts))] + " " + v)
		g.Emit("@serpbo " + allSerOpts[g.Rng.Intn(len(allSerOpts))] + " " + v)
		if i%4 == 0 {
			g.Emit("@d2j " + v)
		}
	}
	// floats that JSON cannot carry, alone and at every position of the small containers, then inside random trees
	for _, bits := range nonFinite {
		f := "(f " + bits + ")"
		for _, l := range []string{f, "(a " + f + ")", "(a (i 1) " + f + " (i 2))", "(h (s x61) " + f + ")", "(h (s x61) (i 1) (s x62) " + f + " (s x63) (a))", "(a (a) " + f + " (h))"} {
			g.Emit("@jsonx " + l)
		}
	}
	for i := 0; i < 200*g.Scale; i++ {
		e := randEv(g.Rng, 1+g.Rng.Intn(3))
		nf := 0
		e = withNonFinite(g.Rng, e, false, &nf)
		g.Emit("@jsonx " + e.sexp().String())
	}
	// the collector: every tree of the small universe (its (r 0) leaves are dangling or point at the root: n/a, or
	// at a first scalar member), then random trees with valid references
	for _, e := range enumEv(n + 1) {
		g.Emit("@coll " + e.sexp().String())
	}
	for i := 0; i < 1500*g.Scale; i++ {
		count := 0
		g.Emit("@coll " + randCollEv(g.Rng, 1+g.Rng.Intn(4), &count).sexp().String())
	}
}
