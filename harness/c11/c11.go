// Package c11: JSON and protobuf transports (property C11).
//
// ops (model + implementation):
//   json <ev>    drive NewJsonStreamer with the event tree, re-tokenize the bytes, read them back with JsonToData
//   pb <dval>    FromPBData(ToPBData(v)) and the same through ConsumePBData → NewProtoConsumer
//   pbev <ev>    event tree → NewProtoConsumer → ConsumePBData → events
// event / value syntax: (i N) (f BITS) (s xHEX) (b t|f) (u) (r N) (x xHEX) (a e*) (h e*)   [values: (h (k v)*)]
package c11

import (
	"bytes"
	"encoding/json"
	"fmt"
	"math"
	"math/rand"
	"strconv"
	"strings"

	"verif/harness/core"
	"verif/harness/sx"

	"github.com/lyraproj/pcore/proto"
	"github.com/lyraproj/pcore/px"
	"github.com/lyraproj/pcore/serialization"
	"github.com/lyraproj/pcore/types"
)

func init() {
	core.Register(&core.Prop{
		ID:   "C11",
		Rule: "distinct op lines; non-trivial = the tree holds at least one container (json/pbev) or the value is not a bare scalar (pb)",
		Gen:  gen,
		Exec: exec,
	})
}

// ---- event trees -------------------------------------------------------------------------------------

type ev struct {
	kind string // i f s b u r x a h
	i    int64
	f    uint64
	s    string
	b    bool
	kids []*ev
}

func evOf(e sx.Sexp) *ev {
	tag := e.Tag()
	a := e.Args()
	switch tag {
	case "i":
		return &ev{kind: "i", i: a[0].MustInt()}
	case "f":
		u, err := strconv.ParseUint(a[0].Atom, 10, 64)
		if err != nil {
			panic(err)
		}
		return &ev{kind: "f", f: u}
	case "s":
		return &ev{kind: "s", s: a[0].MustStr()}
	case "x":
		return &ev{kind: "x", s: a[0].MustStr()}
	case "b":
		return &ev{kind: "b", b: a[0].MustBool()}
	case "u":
		return &ev{kind: "u"}
	case "r":
		return &ev{kind: "r", i: a[0].MustInt()}
	case "a", "h":
		r := &ev{kind: tag}
		for _, k := range a {
			r.kids = append(r.kids, evOf(k))
		}
		return r
	}
	panic(fmt.Errorf("bad event %s", e))
}

func (e *ev) sexp() sx.Sexp {
	switch e.kind {
	case "i":
		return sx.T("i", sx.Int(e.i))
	case "f":
		return sx.T("f", sx.A(strconv.FormatUint(e.f, 10)))
	case "s":
		return sx.T("s", sx.Str(e.s))
	case "x":
		return sx.T("x", sx.Str(e.s))
	case "b":
		return sx.T("b", sx.Bool(e.b))
	case "u":
		return sx.T("u")
	case "r":
		return sx.T("r", sx.Int(e.i))
	}
	ks := make([]sx.Sexp, len(e.kids))
	for i, k := range e.kids {
		ks[i] = k.sexp()
	}
	return sx.T(e.kind, ks...)
}

func (e *ev) scalar() px.Value {
	switch e.kind {
	case "i":
		return types.WrapInteger(e.i)
	case "f":
		return types.WrapFloat(math.Float64frombits(e.f))
	case "s":
		return types.WrapString(e.s)
	case "x":
		return types.WrapBinary([]byte(e.s))
	case "b":
		return types.WrapBoolean(e.b)
	}
	return px.Undef
}

func (e *ev) feed(c px.ValueConsumer) {
	switch e.kind {
	case "r":
		c.AddRef(int(e.i))
	case "a":
		c.AddArray(len(e.kids), func() {
			for _, k := range e.kids {
				k.feed(c)
			}
		})
	case "h":
		c.AddHash(len(e.kids)/2, func() {
			for _, k := range e.kids {
				k.feed(c)
			}
		})
	default:
		c.Add(e.scalar())
	}
}

func (e *ev) wf() bool {
	switch e.kind {
	case "a":
		for _, k := range e.kids {
			if !k.wf() {
				return false
			}
		}
	case "h":
		if len(e.kids)%2 != 0 {
			return false
		}
		for i, k := range e.kids {
			if i%2 == 0 && k.kind != "s" {
				return false
			}
			if !k.wf() {
				return false
			}
		}
	}
	return true
}

func (e *ev) prefFirst() bool {
	if e.kind == "h" && len(e.kids) > 0 && e.kids[0].kind == "s" && e.kids[0].s == "__pref" {
		return true
	}
	for _, k := range e.kids {
		if k.prefFirst() {
			return true
		}
	}
	return false
}

func (e *ev) hasContainer() bool { return e.kind == "a" || e.kind == "h" }

// recorder is a px.ValueConsumer that rebuilds the event tree.
type recorder struct{ stack [][]*ev }

func newRecorder() *recorder                  { return &recorder{stack: [][]*ev{nil}} }
func (r *recorder) CanDoBinary() bool         { return true }
func (r *recorder) CanDoComplexKeys() bool    { return true }
func (r *recorder) StringDedupThreshold() int { return 0 }
func (r *recorder) add(e *ev)                 { t := len(r.stack) - 1; r.stack[t] = append(r.stack[t], e) }
func (r *recorder) AddRef(ref int)            { r.add(&ev{kind: "r", i: int64(ref)}) }
func (r *recorder) nest(kind string, doer px.Doer) {
	r.stack = append(r.stack, nil)
	doer()
	t := len(r.stack) - 1
	kids := r.stack[t]
	r.stack = r.stack[:t]
	r.add(&ev{kind: kind, kids: kids})
}
func (r *recorder) AddArray(n int, doer px.Doer) { r.nest("a", doer) }
func (r *recorder) AddHash(n int, doer px.Doer)  { r.nest("h", doer) }
func (r *recorder) Add(v px.Value) {
	switch v := v.(type) {
	case px.Integer:
		r.add(&ev{kind: "i", i: v.Int()})
	case px.Float:
		r.add(&ev{kind: "f", f: math.Float64bits(v.Float())})
	case px.StringValue:
		r.add(&ev{kind: "s", s: v.String()})
	case px.Boolean:
		r.add(&ev{kind: "b", b: v.Bool()})
	case *types.Binary:
		r.add(&ev{kind: "x", s: string(v.Bytes())})
	default:
		if v == px.Undef {
			r.add(&ev{kind: "u"})
		} else {
			r.add(&ev{kind: "s", s: "?" + v.String()})
		}
	}
}
func (r *recorder) events() []*ev { return r.stack[0] }

// tokenize re-reads the emitted bytes at token level (the Go twin of the model's `Tok`).  A number literal is an
// integer token iff strconv.ParseInt accepts it — the rule jsontodata.go's addValue applies.
func tokenize(b []byte) string {
	var out []string
	i := 0
	for i < len(b) {
		c := b[i]
		switch {
		case c == ' ' || c == '\n' || c == '\t' || c == '\r':
			i++
		case strings.IndexByte("[]{},:", c) >= 0:
			out = append(out, string(c))
			i++
		case c == '"':
			j := i + 1
			for j < len(b) && b[j] != '"' {
				if b[j] == '\\' {
					j++
				}
				j++
			}
			if j >= len(b) {
				return strings.Join(append(out, "?"), " ")
			}
			var s string
			if err := json.Unmarshal(b[i:j+1], &s); err != nil {
				out = append(out, "?")
			} else {
				out = append(out, "s"+sx.Str(s).Atom)
			}
			i = j + 1
		case c == 't' && bytes.HasPrefix(b[i:], []byte("true")):
			out = append(out, "bt")
			i += 4
		case c == 'f' && bytes.HasPrefix(b[i:], []byte("false")):
			out = append(out, "bf")
			i += 5
		case c == 'n' && bytes.HasPrefix(b[i:], []byte("null")):
			out = append(out, "u")
			i += 4
		case c == '-' || (c >= '0' && c <= '9'):
			j := i + 1
			for j < len(b) && strings.IndexByte("0123456789+-.eE", b[j]) >= 0 {
				j++
			}
			lit := string(b[i:j])
			if n, err := strconv.ParseInt(lit, 10, 64); err == nil {
				out = append(out, "i"+strconv.FormatInt(n, 10))
			} else if f, err := strconv.ParseFloat(lit, 64); err == nil {
				out = append(out, "f"+strconv.FormatUint(math.Float64bits(f), 10))
			} else {
				out = append(out, "?")
			}
			i = j
		default:
			out = append(out, "?")
			i++
		}
	}
	return strings.Join(out, " ")
}

func safely(f func()) (err interface{}) {
	defer func() { err = recover() }()
	f()
	return nil
}

func exec(c px.Context, op string, args []sx.Sexp) core.Result {
	switch op {
	case "json":
		e := evOf(args[0])
		var buf bytes.Buffer
		if err := safely(func() { e.feed(serialization.NewJsonStreamer(&buf)) }); err != nil {
			return core.Fail("write-panic", "write-panic", fmt.Sprint(err))
		}
		toks := tokenize(buf.Bytes())
		rec := newRecorder()
		rd := "err"
		if err := safely(func() { serialization.JsonToData("t", bytes.NewReader(buf.Bytes()), rec) }); err == nil && len(rec.events()) == 1 {
			rd = rec.events()[0].sexp().String()
		}
		out := toks + " | " + rd
		if !e.wf() {
			return core.Result{Out: out, Pred: "n/a", NonTrivial: e.hasContainer()}
		}
		// the property, directly on the implementation: valid JSON, same events back
		if !json.Valid(buf.Bytes()) {
			return core.Fail(out, "invalid-json", string(buf.Bytes()))
		}
		if rd != e.sexp().String() {
			if e.prefFirst() {
				return core.Fail(out, "pref-key", "events differ after read-back (reserved key __pref first in a hash): "+rd)
			}
			return core.Fail(out, "events-differ", string(buf.Bytes())+" read back as "+rd)
		}
		return core.Result{Out: out, Pred: "ok", NonTrivial: e.hasContainer()}
	case "pb":
		v := valOf(args[0])
		p := proto.ToPBData(v)
		back := proto.FromPBData(p)
		pc := proto.NewProtoConsumer()
		via := "fault"
		var back2 px.Value
		if err := safely(func() { proto.ConsumePBData(p, pc); back2 = proto.FromPBData(pc.Value()) }); err == nil {
			via = valStr(back2)
		}
		out := valStr(back) + " | " + via
		nt := args[0].Tag() == "a" || args[0].Tag() == "h"
		if hasBin(args[0]) {
			return core.Result{Out: out, Pred: "n/a", NonTrivial: nt}
		}
		if !back.Equals(v, nil) || valStr(back) != args[0].String() {
			return core.Fail(out, "pb-value", "FromPBData(ToPBData(v)) differs")
		}
		if back2 == nil || !back2.Equals(v, nil) || via != args[0].String() {
			return core.Fail(out, "pb-stream", "value through ConsumePBData/protoConsumer differs")
		}
		return core.Result{Out: out, Pred: "ok", NonTrivial: nt}
	case "serjson":
		// end to end (implementation only): the real serializer streaming a value into the JSON streamer, read back
		// through JsonToData into a recorder and into the real deserializer (ser.go)
		return serev(c, serOpts{rich: true, dedup: 2, localRef: true}, args[0], true)
	case "serev":
		o := parseSerOpts(args[0])
		res := core.Result{}
		if o.rich {
			return serev(c, o, args[1], true)
		}
		quietly(c, func(ctx px.Context) { res = serev(ctx, o, args[1], true) })
		return res
	case "d2j":
		res := core.Result{}
		quietly(c, func(ctx px.Context) { res = d2j(ctx, args[0]) })
		return res
	case "coll":
		return coll(args[0])
	case "serpb":
		// end to end (implementation only): the real serializer into the protobuf consumer, then ConsumePBData into a
		// recorder and into the real deserializer (ser.go)
		return serpb(c, serOpts{rich: true, dedup: 2, localRef: true}, args[0])
	case "serpbo":
		res := core.Result{}
		quietly(c, func(ctx px.Context) { res = serpb(ctx, parseSerOpts(args[0]), args[1]) })
		return res
	case "jsonx":
		return jsonx(args[0])
	case "pbev":
		e := evOf(args[0])
		pc := proto.NewProtoConsumer()
		rec := newRecorder()
		if err := safely(func() { e.feed(pc); proto.ConsumePBData(pc.Value(), rec) }); err != nil {
			if !e.wfPairs() {
				return core.Result{Out: "fault", Pred: "n/a", NonTrivial: true}
			}
			return core.Fail("fault", "pb-events-fault", fmt.Sprint(err))
		}
		out := "none"
		if len(rec.events()) == 1 {
			out = rec.events()[0].sexp().String()
		}
		if out != e.sexp().String() {
			return core.Fail(out, "pb-events", "event stream differs after protobuf")
		}
		return core.Result{Out: out, Pred: "ok", NonTrivial: e.hasContainer()}
	}
	return core.Result{Out: "bad-op", Pred: "FAIL harness-bad-op " + op}
}

func (e *ev) wfPairs() bool {
	if e.kind == "h" && len(e.kids)%2 != 0 {
		return false
	}
	for _, k := range e.kids {
		if !k.wfPairs() {
			return false
		}
	}
	return true
}

func hasNonStringKey(e sx.Sexp) bool {
	if e.Tag() == "h" {
		for _, kv := range e.Args() {
			if kv.List[0].Tag() != "s" || hasNonStringKey(kv.List[1]) {
				return true
			}
		}
		return false
	}
	if e.Tag() == "a" {
		for _, k := range e.Args() {
			if hasNonStringKey(k) {
				return true
			}
		}
	}
	return false
}

// a user hash with one of the reserved keys (__pref, __ptype, __pvalue) is re-interpreted by the reader
func containsReserved(e sx.Sexp) bool {
	if e.Tag() == "h" {
		for _, kv := range e.Args() {
			if kv.List[0].Tag() == "s" {
				k := kv.List[0].Args()[0].MustStr()
				if k == "__pref" || k == "__ptype" || k == "__pvalue" {
					return true
				}
			}
			if containsReserved(kv.List[1]) {
				return true
			}
		}
		return false
	}
	if e.Tag() == "a" {
		for _, k := range e.Args() {
			if containsReserved(k) {
				return true
			}
		}
	}
	return false
}

// ---- values for the pb op --------------------------------------------------------------------------------

func hasBin(e sx.Sexp) bool {
	if e.Tag() == "x" {
		return true
	}
	if e.IsList {
		for _, k := range e.List {
			if hasBin(k) {
				return true
			}
		}
	}
	return false
}

func valOf(e sx.Sexp) px.Value {
	switch e.Tag() {
	case "a":
		vs := []px.Value{}
		for _, k := range e.Args() {
			vs = append(vs, valOf(k))
		}
		return types.WrapValues(vs)
	case "h":
		es := []*types.HashEntry{}
		for _, kv := range e.Args() {
			es = append(es, types.WrapHashEntry(valOf(kv.List[0]), valOf(kv.List[1])))
		}
		return types.WrapHash(es)
	}
	return evOf(e).scalar()
}

func valStr(v px.Value) string {
	switch v := v.(type) {
	case *types.Array:
		xs := []string{}
		v.Each(func(e px.Value) { xs = append(xs, " "+valStr(e)) })
		return "(a" + strings.Join(xs, "") + ")"
	case *types.Hash:
		xs := []string{}
		v.EachPair(func(k, e px.Value) { xs = append(xs, " ("+valStr(k)+" "+valStr(e)+")") })
		return "(h" + strings.Join(xs, "") + ")"
	}
	r := newRecorder()
	r.Add(v)
	return r.events()[0].sexp().String()
}

// ---- generator ---------------------------------------------------------------------------------------------

var strs = []string{"", "a", "b", "__pref", "__ptype", "é", "\"q\\", " <&>", "\x00\x1f", "😀 long enough to be de-duplicated by a serializer"}
var floats = []float64{0, 1, -1, 1.5, 1e15, 1e21, 1e-7, 123456789.25, math.MaxFloat64, math.SmallestNonzeroFloat64, 9007199254740993, -0.0}
var ints = []int64{0, 1, -1, 42, math.MaxInt64, math.MinInt64, 9007199254740993, -9007199254740993}

func scalarEv(r *rand.Rand) *ev {
	switch r.Intn(6) {
	case 0:
		return &ev{kind: "i", i: ints[r.Intn(len(ints))]}
	case 1:
		f := floats[r.Intn(len(floats))]
		if r.Intn(4) == 0 {
			f = float64(r.Int63n(1<<40)) * math.Pow(2, float64(r.Intn(60)-30))
		}
		return &ev{kind: "f", f: math.Float64bits(f)}
	case 2:
		return &ev{kind: "b", b: r.Intn(2) == 0}
	case 3:
		return &ev{kind: "u"}
	default:
		return &ev{kind: "s", s: strs[r.Intn(len(strs))]}
	}
}

func keyEv(r *rand.Rand, first bool) *ev {
	s := strs[r.Intn(len(strs))]
	if first && s == "__pref" && r.Intn(8) != 0 {
		s = "k"
	}
	return &ev{kind: "s", s: s}
}

func randEv(r *rand.Rand, depth int) *ev {
	if depth <= 0 || r.Intn(3) == 0 {
		if r.Intn(8) == 0 {
			return &ev{kind: "r", i: int64(r.Intn(5))}
		}
		return scalarEv(r)
	}
	n := r.Intn(4)
	if r.Intn(2) == 0 {
		e := &ev{kind: "a"}
		for i := 0; i < n; i++ {
			e.kids = append(e.kids, randEv(r, depth-1))
		}
		return e
	}
	e := &ev{kind: "h"}
	for i := 0; i < n; i++ {
		e.kids = append(e.kids, keyEv(r, i == 0), randEv(r, depth-1))
	}
	return e
}

// all event trees with at most n nodes over a small scalar alphabet (exhaustive small universe)
func enumEv(n int) []*ev {
	if n <= 0 {
		return nil
	}
	out := []*ev{{kind: "i", i: 1}, {kind: "f", f: math.Float64bits(1)}, {kind: "s", s: "a"}, {kind: "r", i: 0}}
	if n == 1 {
		return out
	}
	for _, kids := range enumLists(n - 1) {
		out = append(out, &ev{kind: "a", kids: kids})
		if len(kids)%2 == 0 {
			ok := true
			for i := 0; i < len(kids); i += 2 {
				if kids[i].kind != "s" {
					ok = false
				}
			}
			if ok {
				out = append(out, &ev{kind: "h", kids: kids})
			}
		}
	}
	return out
}

func size(e *ev) int {
	n := 1
	for _, k := range e.kids {
		n += size(k)
	}
	return n
}

// all lists of trees whose total node count is at most n
func enumLists(n int) [][]*ev {
	out := [][]*ev{{}}
	if n <= 0 {
		return out
	}
	for _, first := range enumEv(n) {
		for _, rest := range enumLists(n - size(first)) {
			out = append(out, append([]*ev{first}, rest...))
		}
	}
	return out
}

func randVal(r *rand.Rand, depth int, bin bool) sx.Sexp {
	if depth <= 0 || r.Intn(3) == 0 {
		if bin && r.Intn(6) == 0 {
			return sx.T("x", sx.Str("\x01\x02"))
		}
		return scalarEv(r).sexp()
	}
	n := r.Intn(4)
	if r.Intn(2) == 0 {
		xs := []sx.Sexp{}
		for i := 0; i < n; i++ {
			xs = append(xs, randVal(r, depth-1, bin))
		}
		return sx.T("a", xs...)
	}
	xs := []sx.Sexp{}
	seen := map[string]bool{}
	for i := 0; i < n; i++ {
		k := sx.T("s", sx.Str(strs[r.Intn(len(strs))]))
		if r.Intn(5) == 0 {
			k = sx.T("i", sx.Int(int64(r.Intn(3))))
		}
		if seen[k.String()] {
			continue
		}
		seen[k.String()] = true
		xs = append(xs, sx.L(k, randVal(r, depth-1, bin)))
	}
	return sx.T("h", xs...)
}

// chain builds containers nested `depth` deep; every level has a sibling before and after the nested child, so a
// lost frame or state at any depth shows
func chain(r *rand.Rand, depth int) *ev {
	if depth == 0 {
		return scalarEv(r)
	}
	inner := chain(r, depth-1)
	if r.Intn(2) == 0 {
		return &ev{kind: "a", kids: []*ev{scalarEv(r), inner, scalarEv(r)}}
	}
	return &ev{kind: "h", kids: []*ev{{kind: "s", s: "k"}, scalarEv(r), {kind: "s", s: "n"}, inner, {kind: "s", s: "z"}, scalarEv(r)}}
}

func chainVal(e *ev) sx.Sexp {
	switch e.kind {
	case "a":
		xs := []sx.Sexp{}
		for _, k := range e.kids {
			xs = append(xs, chainVal(k))
		}
		return sx.T("a", xs...)
	case "h":
		xs := []sx.Sexp{}
		for i := 0; i+1 < len(e.kids); i += 2 {
			xs = append(xs, sx.L(chainVal(e.kids[i]), chainVal(e.kids[i+1])))
		}
		return sx.T("h", xs...)
	}
	return e.sexp()
}

func gen(g *core.G) {
	// deep nesting: depth 1..12 (quick) / 1..40 (thorough), several shapes per depth
	maxDepth := 12
	if g.Thorough() {
		maxDepth = 40
	}
	for d := 1; d <= maxDepth; d++ {
		for k := 0; k < 6; k++ {
			e := chain(g.Rng, d)
			g.Emit("json " + e.sexp().String())
			g.Emit("pbev " + e.sexp().String())
			v := chainVal(e).String()
			g.Emit("pb " + v)
			g.Emit("@serjson " + v)
			g.Emit("@serpb " + v)
		}
	}
	// exhaustive small universe: every well-formed event tree with ≤ 4 (quick) / ≤ 5 (thorough) nodes
	n := 4
	if g.Thorough() {
		n = 5
	}
	for _, e := range enumEv(n) {
		g.Emit("json " + e.sexp().String())
		g.Emit("pbev " + e.sexp().String())
	}
	// random structured trees, containers at every position, nested ≤ 4
	for i := 0; i < 3000*g.Scale; i++ {
		e := randEv(g.Rng, 1+g.Rng.Intn(4))
		g.Emit("json " + e.sexp().String())
		if i%3 == 0 {
			g.Emit("pbev " + e.sexp().String())
		}
	}
	for i := 0; i < 1500*g.Scale; i++ {
		v := randVal(g.Rng, 1+g.Rng.Intn(4), i%10 == 0).String()
		g.Emit("pb " + v)
		g.Emit("@serjson " + v)
		g.Emit("@serpb " + v)
	}
	genSer(g)
	// malformed stream (outside the property's quantifier; model and implementation must still agree)
	for i := 0; i < 200*g.Scale; i++ {
		e := randEv(g.Rng, 2)
		if e.kind == "h" && len(e.kids) > 0 {
			e.kids = e.kids[1:]
		}
		g.Emit("pbev " + e.sexp().String())
	}
}
