package c12

// Exported pieces reused by the concurrent harness (harness/c13): the op syntax, the world of real loaders and the
// reference map of the property text.

import (
	"verif/harness/sx"

	"github.com/lyraproj/pcore/pcore"
	"github.com/lyraproj/pcore/px"
)

type (
	Name  = nameT
	Value = valT
	Step  = stepT
	Ref   = refState
	World = world
	Bad   = bad
)

func ParseTree(e sx.Sexp) (parent []int, forked []bool) {
	must(!hasStatic(e) && !hasStaticW(e), "no static node in concurrent lines")
	for _, b := range tsNodes(e) {
		must(!b, "no type-set loader in concurrent lines")
	}
	for _, nd := range e.Args() {
		must(nd.Tag() != "dep", "no dependency loader in concurrent lines")
	}
	parent, forked, _, _ = parseLine([]sx.Sexp{e, sx.T("steps")})
	return
}

// ParseSteps parses the elements of a step list against a tree with n loaders.
func ParseSteps(n int, steps []sx.Sexp) []Step {
	tree := []sx.Sexp{sx.A("tree")}
	for i := 0; i < n; i++ {
		tree = append(tree, sx.T("p", sx.Int(int64(i-1))))
	}
	_, _, st, _ := parseLine([]sx.Sexp{sx.L(tree...), sx.L(append([]sx.Sexp{sx.A("steps")}, steps...)...)})
	return st
}

func Build(parent []int, forked []bool) *World { return build(parent, forked, false, nil, nil, nil) }
func NewRef(parent []int) *Ref                 { return newRef(parent, true) }
func Safely(f func()) string                   { return safely(f) }
func Canon(v interface{}) string               { return canon(v) }
func KeyPred(p, key string) bool               { return keyPred(p, key) }

func (s Step) Op() string              { return s.op }
func (s Step) Loader() int             { return s.l }
func (s Step) Name() Name              { return s.name }
func (s Step) Val() Value              { return s.val }
func (s Step) PredName() string        { return s.pred }
func (n Name) TypedName() px.TypedName { return n.tn() }
func (n Name) Auth() string            { return n.auth }
func (v Value) Build() interface{}     { return v.build() }

func (r *Ref) Key(n Name) string                               { return r.key(n) }
func (r *Ref) Resolve(l int, key string) (string, bool)        { return r.resolve(l, key) }
func (r *Ref) Define(l int, key, v string) string              { return r.define(l, key, v) }
func (r *Ref) Discover(l int, pred func(string) bool) []string { return r.discover(l, pred) }
func (r *Ref) Own(l int, key string) (string, bool)            { v, ok := r.own[l][key]; return v, ok }
func (r *Ref) Undefine(l int, key string)                      { delete(r.own[l], key) }
func (r *Ref) Chain(l int) []int                               { return r.chain(l) }
func (r *Ref) Loaders() int                                    { return len(r.parent) }

func (w *World) Loader(i int) px.DefiningLoader { return w.loaders[i] }
func (w *World) Loaders() int                   { return len(w.loaders) }

// NewContext makes a context of its own (contexts are per goroutine) whose loader is loader i.
func (w *World) NewContext(i int) px.Context { return pcore.NewContext(w.loaders[i], pcore.Logger()) }
