package c12

import (
	"fmt"
	"strings"
	"sync/atomic"

	"verif/harness/core"
	"verif/harness/sx"

	"github.com/lyraproj/pcore/px"
	"github.com/lyraproj/pcore/types"
)

func drainDeclared() { types.PopDeclaredTypes() }

func intType(n int64) px.Type { return types.NewIntegerType(n, n) }

// Implementation-only op (generated as `@tsnest MASK CASE HOW DEPTH PRE VIA`): a type set with a NESTED type set and OBJECT
// members, defined after lookups that missed (the branches of internal/context.go resolveTypes / resolveTypeSet that the
// alias-only type sets of `addts` / `@tsadd` never reach: the recursion into a member that is a type set, Annotatable
// members, the constructor entries of Object members, a type set among the declared types of ResolveResolvables).
//
//	Zon<n> { Car = Integer[1,1], Eng = Object{a}, Inner = TypeSet Zon<n>::Inner { Wheel = Integer[3,3], Ax = Object{b} } }
//	and, handed over in the same call, the Object type Zob<n> {c} that belongs to no type set (resolveTypes binds the
//	constructor of a declared / added Object type itself)
//
//	MASK   which of the names below are looked up (and must miss) BEFORE the definition:
//	       bit 0 type Z::Car, 1 type Z::Eng, 2 type Z::Inner, 3 type Z::Inner::Wheel, 4 type Z::Inner::Ax, 5 type Z,
//	       6 constructor Z::Eng, 7 constructor Z::Inner::Ax,
//	       8 type Z::Nope, 9 type Z::Inner::Nope, 10 type Z::Wheel (a member of the inner set is no member of the outer),
//	       11 constructor Z::Car (an alias member has no constructor),
//	       12 type Zob<n>, 13 constructor Zob<n> (bound afterwards, like bits 0-7), 14 type Z::Zob<n> (absent)
//	CASE   0 as declared | 1 lower case | 2 upper case     the spelling of those lookups
//	HOW    load | has | entry                              px.Load / Loader.HasEntry / Loader.LoadEntry
//	DEPTH  0: lookups and definition in the same context; 1: the lookups in a fork of it; 2: the definition in a fork, the
//	       lookups before in its parent
//	PRE    0 nothing; 1: before the definition (after the lookups) the name type Z::Inner::Wheel is bound to Integer[9,9] in the
//	       context of the lookups' parent side (`base`): an own binding (DEPTH 0, 1) or an ancestor's (DEPTH 2) that the type
//	       set must neither replace nor trip over — the member is known already ("parents first", "write-once")
//	VIA    add: px.AddTypes(ctx, typeSet) | rr: px.RegisterResolvableType(typeSet); px.ResolveResolvables(ctx)
//
// Afterwards (property text: "a failed lookup followed by a definition makes the name resolvable", "names differing only in
// letter case denote one entry", "discovery returns exactly the bound names … each once"): the names of bits 0-7, 12, 13
// resolve in every spelling — the aliases to their Integer, the Objects to an Object type of that name, the type sets to a
// type set of that name, the constructors to a function —, HasEntry says so, the names of bits 8-11, 14 stay absent,
// Discover lists each of the ten exactly once and nothing else below Z in those two namespaces; adding the equal type set
// once more is a no-op (write-once: equal re-definition) and changes no answer.
// Classes: ts-member-sticky-miss, ts-member-wrong, ts-discover, ts-nonmember-found, ts-known-member-replaced,
// ts-readd-rejected, fault.
var tsNestCounter int64

type nestName struct {
	ns   px.Namespace
	rel  string // relative to the type set's name ("" = the type set itself); "@" = the Object type outside the type set
	kind string // alias N | object | tset | ctor | none
	n    int64
}

var nestNames = []nestName{
	{px.NsType, "::Car", "alias", 1}, {px.NsType, "::Eng", "object", 0}, {px.NsType, "::Inner", "tset", 0},
	{px.NsType, "::Inner::Wheel", "alias", 3}, {px.NsType, "::Inner::Ax", "object", 0}, {px.NsType, "", "tset", 0},
	{px.NsConstructor, "::Eng", "ctor", 0}, {px.NsConstructor, "::Inner::Ax", "ctor", 0},
	{px.NsType, "::Nope", "none", 0}, {px.NsType, "::Inner::Nope", "none", 0}, {px.NsType, "::Wheel", "none", 0},
	{px.NsConstructor, "::Car", "none", 0},
	{px.NsType, "@", "object", 0}, {px.NsConstructor, "@", "ctor", 0}, {px.NsType, "::@", "none", 0},
}

func execTsNest(c px.Context, args []sx.Sexp) core.Result {
	if len(args) != 6 {
		return core.Result{Out: "bad-op", Pred: "n/a"}
	}
	mask, err1 := args[0].AsInt()
	cs, err2 := args[1].AsInt()
	depth, err3 := args[3].AsInt()
	pre, err4 := args[4].AsInt()
	how, via := args[2].Atom, args[5].Atom
	if err1 != nil || err2 != nil || err3 != nil || err4 != nil || args[2].IsList || args[5].IsList ||
		(how != "load" && how != "has" && how != "entry") || (via != "add" && via != "rr") || depth < 0 || depth > 2 || pre < 0 || pre > 1 {
		return core.Result{Out: "bad-op", Pred: "n/a"}
	}
	n := atomic.AddInt64(&tsNestCounter, 1)
	ts, ob := fmt.Sprintf("Zon%d", n), fmt.Sprintf("Zob%d", n)
	// full: the name a table entry stands for
	full := func(nn nestName) string {
		switch nn.rel {
		case "@":
			return ob
		case "::@":
			return ts + "::" + ob
		}
		return ts + nn.rel
	}
	spell := func(s string) string {
		switch cs {
		case 1:
			return strings.ToLower(s)
		case 2:
			return strings.ToUpper(s)
		}
		return s
	}
	var fails []string
	class := ""
	fail := func(cl, format string, xs ...interface{}) {
		if class == "" {
			class = cl
		}
		fails = append(fails, fmt.Sprintf(format, xs...))
	}
	lookup := func(ctx px.Context, ns px.Namespace, name, how string) bool {
		tn := px.NewTypedName(ns, name)
		switch how {
		case "has":
			return ctx.Loader().HasEntry(tn)
		case "entry":
			e := ctx.Loader().LoadEntry(ctx, tn)
			return e != nil && e.Value() != nil
		}
		_, ok := px.Load(ctx, tn)
		return ok
	}
	src := fmt.Sprintf(`TypeSet[{name => '%s', version => '1.0.0', pcore_version => '1.0.0', types => {
	  Car => Integer[1,1], Eng => Object[{attributes => {a => Integer}}],
	  Inner => TypeSet[{name => '%s::Inner', version => '1.0.0', pcore_version => '1.0.0', types => {
	    Wheel => Integer[3,3], Ax => Object[{attributes => {b => String}}] }}] }}]`, ts, ts)
	objSrc := fmt.Sprintf(`Object[{name => '%s', attributes => {c => Integer}}]`, ob)
	var o px.Type
	define := func(dc px.Context) {
		t := dc.ParseType(src)
		if o == nil {
			// (the Object type is the same object in the re-definition: its constructor is a function made per type object,
			// and two functions are two values — an equal Object type parsed again is accepted as the type and rejected,
			// with a reported error, as the constructor)
			o = dc.ParseType(objSrc)
		}
		if via == "rr" {
			px.RegisterResolvableType(t.(px.ResolvableType))
			px.RegisterResolvableType(o.(px.ResolvableType))
			px.ResolveResolvables(dc)
		} else {
			px.AddTypes(dc, t, o)
		}
	}
	// what a name resolves to, as a short description
	describe := func(v interface{}) string {
		switch v := v.(type) {
		case px.TypeSet:
			return "tset " + v.Name()
		case px.ObjectType:
			return "object " + v.Name()
		case px.Function:
			return "ctor"
		case px.Type:
			if a, ok := v.(interface{ ResolvedType() px.Type }); ok {
				return "alias " + v.Name() + " = " + a.ResolvedType().String()
			}
			return "type " + v.String()
		}
		return fmt.Sprintf("other %T", v)
	}
	want := func(nn nestName) string {
		switch nn.kind {
		case "alias":
			if pre == 1 && nn.rel == "::Inner::Wheel" {
				return "type Integer[9, 9]" // the binding that was there first
			}
			return fmt.Sprintf("alias %s%s = Integer[%d, %d]", ts, nn.rel, nn.n, nn.n)
		case "object":
			return "object " + full(nn)
		case "tset":
			return "tset " + full(nn)
		case "ctor":
			return "ctor"
		}
		return ""
	}
	out := "ok"
	// the process-wide list of declared types is empty at both ends
	drainDeclared()
	defer drainDeclared()
	r := safely(func() {
		px.DoWithContext(c.Fork(), func(base px.Context) {
			before, defIn := base, base
			switch depth {
			case 1:
				before = base.Fork()
			case 2:
				defIn = base.Fork()
			}
			for i, nn := range nestNames {
				if mask&(1<<uint(i)) != 0 && lookup(before, nn.ns, spell(full(nn)), how) {
					fail("ts-nonmember-found", "%s %s found before anything was defined", nn.ns, spell(full(nn)))
				}
			}
			if pre == 1 {
				base.Loader().(px.DefiningLoader).SetEntry(px.NewTypedName(px.NsType, ts+"::Inner::Wheel"), px.NewLoaderEntry(intType(9), nil))
			}
			px.DoWithContext(defIn, define)
			check := func(round string) {
				for _, sp := range []func(string) string{func(s string) string { return s }, strings.ToLower, strings.ToUpper} {
					for _, nn := range nestNames {
						name := sp(full(nn))
						tn := px.NewTypedName(nn.ns, name)
						v, ok := px.Load(defIn, tn)
						has := defIn.Loader().HasEntry(tn)
						e := defIn.Loader().LoadEntry(defIn, tn)
						if nn.kind == "none" {
							if ok || has || (e != nil && e.Value() != nil) {
								fail("ts-nonmember-found", "%s: %s %s found although the type set has no such member", round, nn.ns, name)
							}
							continue
						}
						if !ok || !has || e == nil || e.Value() == nil {
							fail("ts-member-sticky-miss", "%s: %s %s is not resolvable after the type set was defined (load %v, has %v; looked up before: mask %d)", round, nn.ns, name, ok, has, mask)
							continue
						}
						if got, w := describe(v), want(nn); got != w {
							cl := "ts-member-wrong"
							if pre == 1 && nn.rel == "::Inner::Wheel" {
								cl = "ts-known-member-replaced"
							}
							fail(cl, "%s: %s %s resolves to %s, expected %s", round, nn.ns, name, got, w)
						}
						if e.Value() != v {
							fail("ts-member-wrong", "%s: LoadEntry and Load of %s %s answer different objects", round, nn.ns, name)
						}
					}
				}
				prefix, obl := strings.ToLower(ts), strings.ToLower(ob)
				count := map[string]int{}
				for _, tn := range defIn.Loader().Discover(defIn, func(tn px.TypedName) bool {
					nm := strings.ToLower(tn.Name())
					return (tn.Namespace() == px.NsType || tn.Namespace() == px.NsConstructor) && (nm == prefix || nm == obl || strings.HasPrefix(nm, prefix+"::"))
				}) {
					count[string(tn.Namespace())+" "+strings.ToLower(tn.Name())]++
				}
				bound := 0
				for _, nn := range nestNames {
					if nn.kind == "none" {
						continue
					}
					bound++
					if k := string(nn.ns) + " " + strings.ToLower(full(nn)); count[k] != 1 {
						fail("ts-discover", "%s: Discover lists %s %d times", round, k, count[k])
					}
				}
				if len(count) != bound {
					fail("ts-discover", "%s: Discover lists %d names below %s, expected %d: %v", round, len(count), ts, bound, count)
				}
			}
			check("after the definition")
			// write-once: the equal type set once more is a no-op
			if r := safely(func() { px.DoWithContext(defIn, define) }); r != "" {
				fail("ts-readd-rejected", "the equal type set added once more: %s", r)
			} else {
				check("after the equal re-definition")
			}
		})
	})
	if r != "" {
		out = r
		fail("fault", "raised %s", r)
	}
	res := core.Result{Out: out, Pred: "ok", NonTrivial: mask != 0, Tags: []string{"tsnest", "tsnest-how:" + how, "tsnest-via:" + via}}
	if len(fails) > 0 {
		res.Pred = "FAIL " + class + " " + fails[0]
	}
	return res
}

func genTsNest(g *core.G) {
	// every single name missed before, none, all members, all names; thorough: also every pair of the first 14 names
	masks := []int{0, 0x30ff, 0x7fff}
	for i := range nestNames {
		masks = append(masks, 1<<uint(i))
	}
	if g.Thorough() {
		for i := 0; i < 14; i++ {
			for j := i + 1; j < 14; j++ {
				masks = append(masks, 1<<uint(i)|1<<uint(j))
			}
		}
	}
	for _, mask := range masks {
		for cs := 0; cs < 3; cs++ {
			for _, how := range []string{"load", "has", "entry"} {
				for depth := 0; depth < 3; depth++ {
					for pre := 0; pre < 2; pre++ {
						for _, via := range []string{"add", "rr"} {
							if !g.Thorough() && (cs+depth+pre)%2 == 1 && mask != 0x7fff {
								continue // quick tier: half of the combinations for the single-name masks
							}
							g.Emit(fmt.Sprintf("@tsnest %d %d %s %d %d %s", mask, cs, how, depth, pre, via))
						}
					}
				}
			}
		}
	}
	for _, l := range []string{"@tsnest", "@tsnest 1 0 load 0 0 frob", "@tsnest 1 0 load 3 0 add", "@tsnest x 0 load 0 0 add"} {
		g.Emit(l)
	}
}
