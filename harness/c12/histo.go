package c12

import (
	"fmt"
	"strings"

	"verif/harness/core"
)

// genHisto: implementation-only histories (`@histo`, see c12.go) with the two value shapes the model does not have — an
// opaque Go value without Equals (`(o N)`: the same N is the same object) and an entry without a value (`(nil)`).  Every
// history of length <= 3 (quick) / <= 4 (thorough) over root 0 <- 1, the name a (both loaders) and its other spelling A
// (loader 1): lookups, definitions with two opaque objects, a Type and an empty entry, GetEntry, Discover — 19 steps; then
// random longer ones over chains of three.
func genHisto(g *core.G, maxLen int) {
	var alpha []string
	for l, names := range [][]string{{"a"}, {"a", "A"}} {
		for _, n := range names {
			x := nm("type", n, "r")
			alpha = append(alpha, fmt.Sprintf("(load %d %s)", l, x), fmt.Sprintf("(def %d %s (o 1))", l, x), fmt.Sprintf("(def %d %s (o 2))", l, x),
				fmt.Sprintf("(def %d %s (nil))", l, x), fmt.Sprintf("(def %d %s (t 1))", l, x))
		}
		alpha = append(alpha, fmt.Sprintf("(get %d %s)", l, nm("type", "a", "r")), fmt.Sprintf("(disc %d all)", l))
	}
	var rec func(prefix []string)
	rec = func(prefix []string) {
		if len(prefix) > 0 {
			g.Emit("@histo (tree (p -1) (p 0)) (steps " + strings.Join(prefix, " ") + ")")
		}
		if len(prefix) == maxLen {
			return
		}
		for _, a := range alpha {
			rec(append(prefix, a))
		}
	}
	rec(nil)
	r := g.Rng
	names := []string{nm("type", "a", "r"), nm("type", "A", "r"), nm("type", "b", "r"), nm("function", "a", "r"), nm("type", "m::a", "r")}
	vals := []string{"(o 1)", "(o 1)", "(o 2)", "(o 3)", "(nil)", "(nil)", "(t 1)", "(s 1)", "(al x61 1)"}
	for i := 0; i < 150*g.Scale; i++ {
		tree := core.Pick(r, []string{"(tree (p -1) (p 0) (p 1))", "(tree (p -1) (f 0) (f 0))", "(tree (p -1) (p 0) (f 1) (p 0))", "(tree (stw) (p 0) (p 1))"})
		nl := strings.Count(tree, "(") - 1
		var steps []string
		for j, k := 0, 4+r.Intn(12); j < k; j++ {
			l, x := r.Intn(nl), names[r.Intn(3)]
			if !strings.Contains(tree, "stw") {
				x = core.Pick(r, names)
			}
			switch r.Intn(8) {
			case 0, 1:
				steps = append(steps, fmt.Sprintf("(load %d %s)", l, x))
			case 2, 3, 4:
				steps = append(steps, fmt.Sprintf("(def %d %s %s)", l, x, core.Pick(r, vals)))
			case 5:
				steps = append(steps, fmt.Sprintf("(get %d %s)", l, x))
			case 6:
				steps = append(steps, fmt.Sprintf("(has %d %s)", l, x))
			case 7:
				steps = append(steps, fmt.Sprintf("(disc %d all)", l))
			}
		}
		g.Emit("@histo " + tree + " (steps " + strings.Join(steps, " ") + ")")
	}
	for _, l := range []string{"@histo", "@histo (tree (p -1)) (steps (def 0 " + names[0] + " (o)))", "hist (tree (p -1)) (steps (def 0 " + names[0] + " (o 1)))",
		"hist (tree (p -1)) (steps (def 0 " + names[0] + " (nil)))"} {
		g.Emit(l)
	}
}
