package c12

import (
	"fmt"
	"strings"

	"verif/harness/core"
)

// The global level (static.go): the static loader as a writable node `(stw)`, the process-wide list of declared types
// (`reg`) and px.ResolveResolvables (`rr`).
//
// genStatic: (a) every history of length <= 2 over the REAL static loader <- 1 <- 2 with the names {a, A, b} and the 39 steps
// of the plain exhaustive stream (thorough: also length 3 over 18 of them); (b) every history of length <= 3 / <= 4 over a plain chain of
// three loaders with declarations and resolutions mixed into lookups and definitions; (c) the same, shorter, with the
// static loader as the root ("during init").
func genStatic(g *core.G, maxLen int) {
	emitAll := func(tree string, alpha []string, n int) {
		var rec func(prefix []string)
		rec = func(prefix []string) {
			if len(prefix) > 0 {
				g.Emit("hist " + tree + " (steps " + strings.Join(prefix, " ") + ")")
			}
			if len(prefix) == n {
				return
			}
			for _, a := range alpha {
				rec(append(prefix, a))
			}
		}
		rec(nil)
	}
	var alpha []string
	for l := 0; l < 3; l++ {
		for _, n := range []string{"a", "A", "b"} {
			x := nm("type", n, "r")
			alpha = append(alpha,
				fmt.Sprintf("(load %d %s)", l, x), fmt.Sprintf("(def %d %s (t 1))", l, x),
				fmt.Sprintf("(def %d %s (t 2))", l, x), fmt.Sprintf("(has %d %s)", l, x))
		}
		alpha = append(alpha, fmt.Sprintf("(disc %d all)", l))
	}
	// (what is written into the real static loader stays there and every Discover through it walks all of it: this stream
	// is kept small — all 39 steps up to length 2; thorough: length 3 over the 18 steps of loaders 0 and 2, names a and A)
	emitAll("(tree (stw) (p 0) (p 1))", alpha, 2)
	if maxLen > 3 {
		var sub []string
		for _, l := range []int{0, 2} {
			for _, n := range []string{"a", "A"} {
				x := nm("type", n, "r")
				sub = append(sub, fmt.Sprintf("(load %d %s)", l, x), fmt.Sprintf("(def %d %s (t 1))", l, x),
					fmt.Sprintf("(def %d %s (t 2))", l, x), fmt.Sprintf("(has %d %s)", l, x))
			}
			sub = append(sub, fmt.Sprintf("(disc %d all)", l))
		}
		for _, a := range sub {
			for _, b := range sub {
				for _, c := range sub {
					g.Emit("hist (tree (stw) (p 0) (p 1)) (steps " + a + " " + b + " " + c + ")")
				}
			}
		}
	}
	for _, a := range alpha {
		g.Emit("hist (tree (stw) (f 0) (f 0)) (steps " + a + ")")
	}
	a, b := nm("type", "a", "r"), nm("type", "b", "r")
	q := []string{"(reg x61 1)", "(reg x61 2)", "(reg x41 1)", "(reg x62 1)", "(rr 0)", "(rr 1)", "(rr 2)",
		"(load 2 " + a + ")", "(load 0 " + a + ")", "(add 1 x61 1)", "(has 2 " + b + ")", "(disc 2 all)"}
	emitAll("(tree (p -1) (p 0) (p 1))", q, maxLen)
	// a type set as a provider of names: px.AddTypes of TypeSet Zoo {Car} through every loader of a chain, before and after
	// lookups that missed and definitions of the member's qualified name above, at and below
	zc, z := nm("type", "Zoo::Car", "r"), nm("type", "Zoo", "r")
	ts := []string{"(addts 0 x5a6f6f 0 (x436172 1))", "(addts 1 x5a6f6f 0 (x436172 1))", "(addts 2 x5a6f6f 0 (x436172 1))", "(addts 1 x5a6f6f 1 (x436172 2))",
		"(load 0 " + zc + ")", "(load 2 " + zc + ")", "(load 2 " + z + ")", "(def 0 " + zc + " (t 9))", "(def 1 " + nm("type", "zoo::car", "r") + " (t 9))",
		"(has 2 " + zc + ")", "(disc 2 all)"}
	emitAll("(tree (p -1) (p 0) (p 1))", ts, maxLen)
	qs := []string{"(reg x61 1)", "(reg x61 2)", "(reg x62 1)", "(rr 0)", "(rr 1)", "(load 1 " + a + ")", "(load 0 " + a + ")", "(disc 1 all)"}
	emitAll("(tree (stw) (p 0))", qs, maxLen)
}
