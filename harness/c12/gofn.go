package c12

import (
	"fmt"
	"strings"
	"sync/atomic"

	"verif/harness/core"
	"verif/harness/sx"

	"github.com/lyraproj/pcore/px"
	"github.com/lyraproj/pcore/types"
)

// Implementation-only op (generated as `@gofn MASK CASE HOW DEPTH`): declared Go FUNCTIONS.  px.NewGoFunction puts a function
// on the process-wide list of declared functions; px.ResolveResolvables(ctx) defines every declared function in the loader
// of ctx under the namespace `function` (internal/context.go popDeclaredGoFunctions / resolveResolvables) and px.Call finds
// it there (px/context.go Call = px.Load of the typed name + the call).
//
//	two functions zfa<n>, zfb<n> (each answers its argument plus 1 / plus 2)
//	MASK   bit 0 zfa<n>, bit 1 zfb<n>, bit 2 zfc<n> (never declared): looked up — and missed — BEFORE the definition
//	CASE   0 as declared | 1 upper case      the spelling of those lookups
//	HOW    load | has | entry | call         px.Load / Loader.HasEntry / Loader.LoadEntry / px.Call (reported PCORE_UNKNOWN_FUNCTION)
//	DEPTH  0 | 1 (lookups in a fork) | 2 (definition in a fork, lookups in its parent)
//
// Afterwards: both functions are found by px.Load / HasEntry / LoadEntry in both spellings, px.Call answers arg+1 / arg+2,
// the third name stays absent (px.Call: a reported PCORE_UNKNOWN_FUNCTION), Discover lists each of the two once; a second
// ResolveResolvables declares nothing and changes nothing; a function of the same name declared again is another value: its
// definition is rejected with a reported redefinition error and the first binding keeps answering.
// Classes: fn-sticky-miss, fn-wrong, fn-discover, fn-nonmember-found, fn-redefine-accepted, fault.
var goFnCounter int64

func execGoFn(c px.Context, args []sx.Sexp) core.Result {
	if len(args) != 4 {
		return core.Result{Out: "bad-op", Pred: "n/a"}
	}
	mask, err1 := args[0].AsInt()
	cs, err2 := args[1].AsInt()
	depth, err3 := args[3].AsInt()
	how := args[2].Atom
	if err1 != nil || err2 != nil || err3 != nil || args[2].IsList || depth < 0 || depth > 2 || cs < 0 || cs > 1 ||
		(how != "load" && how != "has" && how != "entry" && how != "call") {
		return core.Result{Out: "bad-op", Pred: "n/a"}
	}
	n := atomic.AddInt64(&goFnCounter, 1)
	names := []string{fmt.Sprintf("zfa%d", n), fmt.Sprintf("zfb%d", n), fmt.Sprintf("zfc%d", n)}
	spell := func(s string) string {
		if cs == 1 {
			return strings.ToUpper(s)
		}
		return s
	}
	var fails []string
	class := ""
	fail := func(cl, format string, xs ...interface{}) {
		if class == "" {
			class = cl
		}
		fails = append(fails, fmt.Sprintf(format, xs...))
	}
	call := func(ctx px.Context, name string) (res string) {
		defer func() {
			if e := recover(); e != nil {
				res = classify(e)
			}
		}()
		return px.Call(ctx, name, []px.Value{types.WrapInteger(40)}, nil).String()
	}
	lookup := func(ctx px.Context, name, how string) bool {
		tn := px.NewTypedName(px.NsFunction, name)
		switch how {
		case "has":
			return ctx.Loader().HasEntry(tn)
		case "entry":
			e := ctx.Loader().LoadEntry(ctx, tn)
			return e != nil && e.Value() != nil
		case "call":
			return call(ctx, name) != "reported PCORE_UNKNOWN_FUNCTION"
		}
		_, ok := px.Load(ctx, tn)
		return ok
	}
	declare := func(name string, add int64) {
		px.NewGoFunction(name, func(d px.Dispatch) {
			d.Param(`Integer`)
			d.Function(func(c px.Context, args []px.Value) px.Value {
				return types.WrapInteger(args[0].(px.Integer).Int() + add)
			})
		})
	}
	out := "ok"
	r := safely(func() {
		px.DoWithContext(c.Fork(), func(base px.Context) {
			// whatever other lines or the runtime declared is resolved elsewhere: the list is empty from here on
			px.ResolveResolvables(base.Fork())
			before, defIn := base, base
			switch depth {
			case 1:
				before = base.Fork()
			case 2:
				defIn = base.Fork()
			}
			for i, nm := range names {
				if mask&(1<<uint(i)) != 0 && lookup(before, spell(nm), how) {
					fail("fn-nonmember-found", "function %s found before anything was declared", spell(nm))
				}
			}
			declare(names[0], 1)
			declare(names[1], 2)
			if lookup(defIn, names[0], "load") {
				fail("fn-nonmember-found", "function %s found after the declaration, before ResolveResolvables", names[0])
			}
			px.ResolveResolvables(defIn)
			check := func(round string) {
				for _, sp := range []func(string) string{func(s string) string { return s }, strings.ToUpper} {
					for i, nm := range names {
						name := sp(nm)
						if i == 2 {
							for _, h := range []string{"load", "has", "entry", "call"} {
								if lookup(defIn, name, h) {
									fail("fn-nonmember-found", "%s: function %s found (%s) although it was never declared", round, name, h)
								}
							}
							continue
						}
						for _, h := range []string{"load", "has", "entry"} {
							if !lookup(defIn, name, h) {
								fail("fn-sticky-miss", "%s: function %s is not found (%s) after ResolveResolvables (looked up before: mask %d)", round, name, h, mask)
							}
						}
						if got, want := call(defIn, name), fmt.Sprint(41+i); got != want {
							cl := "fn-wrong"
							if got == "reported PCORE_UNKNOWN_FUNCTION" {
								cl = "fn-sticky-miss"
							}
							fail(cl, "%s: px.Call(%s, 40) = %s, expected %s", round, name, got, want)
						}
					}
				}
				count := map[string]int{}
				for _, tn := range defIn.Loader().Discover(defIn, func(tn px.TypedName) bool {
					return tn.Namespace() == px.NsFunction && strings.HasSuffix(tn.Name(), fmt.Sprint(n)) && strings.HasPrefix(strings.ToLower(tn.Name()), "zf")
				}) {
					count[strings.ToLower(tn.Name())]++
				}
				if count[names[0]] != 1 || count[names[1]] != 1 || len(count) != 2 {
					fail("fn-discover", "%s: Discover lists %v, expected each of %s and %s once", round, count, names[0], names[1])
				}
			}
			check("after ResolveResolvables")
			if r := safely(func() { px.ResolveResolvables(defIn) }); r != "" {
				fail("fault", "a second ResolveResolvables with nothing declared: %s", r)
			}
			check("after a second ResolveResolvables")
			// write-once: the same name declared again is another function
			declare(names[0], 100)
			r := safely(func() { px.ResolveResolvables(defIn) })
			switch {
			case r == "":
				fail("fn-redefine-accepted", "function %s declared again with another body was accepted", names[0])
			case !strings.HasPrefix(r, "reported PCORE_ATTEMPT_TO_REDEFINE"):
				fail("fn-redefine-accepted", "function %s declared again: %s instead of a reported redefinition error", names[0], r)
			}
			check("after the rejected re-declaration")
		})
	})
	if r != "" {
		out = r
		fail("fault", "raised %s", r)
	}
	res := core.Result{Out: out, Pred: "ok", NonTrivial: mask != 0, Tags: []string{"gofn", "gofn-how:" + how}}
	if len(fails) > 0 {
		res.Pred = "FAIL " + class + " " + fails[0]
	}
	return res
}

func genGoFn(g *core.G) {
	for mask := 0; mask < 8; mask++ {
		for cs := 0; cs < 2; cs++ {
			for _, how := range []string{"load", "has", "entry", "call"} {
				for depth := 0; depth < 3; depth++ {
					g.Emit(fmt.Sprintf("@gofn %d %d %s %d", mask, cs, how, depth))
				}
			}
		}
	}
	for _, l := range []string{"@gofn", "@gofn 1 0 frob 0", "@gofn 1 2 load 0", "@gofn 1 0 load 3"} {
		g.Emit(l)
	}
}
