package c12

import (
	"fmt"
	"regexp"
	"strings"
	"unicode/utf8"

	"verif/harness/core"
	"verif/harness/sx"

	"github.com/lyraproj/pcore/px"
)

// Dependency loaders (loader/dependency.go) inside the histories of C12.
//
// A `(dep (xMOD L)*)` node is px.NewDependencyLoader over module loaders; a module loader is an existing node (a real
// parented loader) wrapped so that it answers ModuleName() = MOD.  The reference (refState) reads the property for such a
// loader as follows: it has no ancestors; its OWN bindings are made lazily — the first lookup that reaches it binds the
// name there to what its dependencies bind: the module a qualified name names by its first segment, otherwise the first
// module in dependency order that resolves the name; a failed lookup leaves nothing behind ("misses are not sticky").
// HasEntry / GetEntry / Discover see own bindings, like every loader's.

type depMod struct {
	name string
	node int
}

// modLoader: a px.ModuleLoader that is the real loader of a node plus a module name
type modLoader struct {
	px.DefiningLoader
	name string
}

func (m *modLoader) Path() string       { return "" }
func (m *modLoader) ModuleName() string { return m.name }

func parseDeps(tree sx.Sexp) [][]depMod {
	nodes := tree.Args()
	deps := make([][]depMod, len(nodes))
	for i, nd := range nodes {
		if nd.Tag() != "dep" {
			continue
		}
		deps[i] = []depMod{}
		for _, m := range nd.Args() {
			must(m.IsList && len(m.List) == 2, "module")
			b, err := m.List[0].AsBytes()
			must(err == nil, "module name hex")
			l, err := m.List[1].AsInt()
			must(err == nil && l >= 0 && int(l) < i, "module node")
			deps[i] = append(deps[i], depMod{string(b), int(l)})
		}
	}
	return deps
}

// checkDeps: a module wraps a (p …) / (f …) node whose chain holds no dependency loader; no type-set loaders beside
// dependency loaders
func checkDeps(tree sx.Sexp, parent []int, deps [][]depMod, isTS []bool) {
	nodes := tree.Args()
	anyDep, anyTS := false, false
	for i := range nodes {
		anyDep = anyDep || deps[i] != nil
		anyTS = anyTS || isTS[i]
	}
	must(!(anyDep && anyTS), "dependency and type-set loaders in one line")
	for _, ms := range deps {
		for _, m := range ms {
			must(nodes[m.node].Tag() == "p" || nodes[m.node].Tag() == "f", "a module loader wraps a plain node")
			for a := m.node; a >= 0; a = parent[a] {
				must(deps[a] == nil, "a dependency loader among the ancestors of a module loader")
			}
		}
	}
}

func newDep(w *world, mods []depMod) px.DefiningLoader {
	mls := make([]px.ModuleLoader, len(mods))
	for i, m := range mods {
		mls[i] = &modLoader{w.loaders[m.node], m.name}
	}
	return px.NewDependencyLoader(mls).(px.DefiningLoader)
}

// depRoot: the dependency loader at the root of l's chain, or -1
func (r *refState) depRoot(l int) int {
	root := r.chain(l)[0]
	if r.deps[root] != nil {
		return root
	}
	return -1
}

// depResolve: what the dependencies of d bind for the name
func (r *refState) depResolve(d int, n nameT) (string, bool) {
	key := r.key(n)
	name := strings.TrimPrefix(n.name, "::")
	if i := strings.Index(name, "::"); i >= 0 {
		seg, named := strings.ToLower(name[:i]), -1
		for _, m := range r.deps[d] {
			if m.name != "" && m.name == seg {
				named = m.node // a later module of the same name replaces an earlier one
			}
		}
		if named >= 0 {
			return r.resolve(named, key)
		}
	}
	for _, m := range r.deps[d] {
		if v, ok := r.resolve(m.node, key); ok {
			return v, true
		}
	}
	return "", false
}

// lazyBind: a lookup through l is about to happen
func (r *refState) lazyBind(l int, n nameT) {
	d := r.depRoot(l)
	if d < 0 {
		return
	}
	if _, ok := r.own[d][r.key(n)]; ok {
		return
	}
	if v, ok := r.depResolve(d, n); ok {
		r.own[d][r.key(n)] = v
	}
}

var identifier = regexp.MustCompile(`\A[A-Za-z][0-9A-Z_a-z]*\z`)

// illFormed: some `::` segment of the name is not an identifier
func illFormed(n nameT) bool {
	for _, p := range strings.Split(strings.TrimPrefix(n.name, "::"), "::") {
		if !identifier.MatchString(p) {
			return true
		}
	}
	return false
}

// depCachedMiss: the dependency loader at the root of l's chain holds a cached miss for the name
func depCachedMiss(w *world, r *refState, l int, n nameT) bool {
	d := r.depRoot(l)
	if d < 0 {
		return false
	}
	var e px.LoaderEntry
	if res := safely(func() { e = w.loaders[d].GetEntry(n.tn()) }); res != "" {
		return false
	}
	return e != nil && e.Value() == nil
}

// genDep: every history of length <= 2 (quick) / <= 3 (thorough) over root 0 <- modules 1 (`m`) and 2 (`n`), the dependency
// loader 3 over them and its child 4; the names {b, M::b} (unqualified; qualified naming module 1); lookups everywhere, definitions in the
// modules (different values, so that the dependency order shows) and in the child — 18 steps; plus every history
// of length 3 (quick) / 4 (thorough) over the 10 steps that use the unqualified name
func genDep(g *core.G, maxLen int) {
	tree := "(tree (p -1) (p 0) (p 0) (dep (x6d 1) (x6e 2)) (p 3))"
	var alpha []string
	for _, n := range []string{"b", "M::b"} {
		x := nm("type", n, "r")
		for _, l := range []int{1, 3, 4} {
			alpha = append(alpha, fmt.Sprintf("(load %d %s)", l, x))
		}
		for _, l := range []int{3, 4} {
			alpha = append(alpha, fmt.Sprintf("(has %d %s)", l, x))
		}
		for _, l := range []int{1, 2, 4} {
			alpha = append(alpha, fmt.Sprintf("(def %d %s (t %d))", l, x, l))
		}
	}
	alpha = append(alpha, "(disc 3 all)", "(disc 4 all)")
	// all 18 steps up to length 3; length 4 (thorough) over the 10 steps of the unqualified name
	var rec func(alpha, prefix []string, from, to int)
	rec = func(alpha, prefix []string, from, to int) {
		if len(prefix) >= from {
			g.Emit("hist " + tree + " (steps " + strings.Join(prefix, " ") + ")")
		}
		if len(prefix) == to {
			return
		}
		for _, a := range alpha {
			rec(alpha, append(prefix, a), from, to)
		}
	}
	sub := append(append([]string{}, alpha[:8]...), alpha[16:]...)
	if maxLen > 3 {
		rec(alpha, nil, 1, 3)
		rec(sub, nil, 4, 4)
	} else {
		rec(alpha, nil, 1, 2)
		rec(sub, nil, 3, 3)
	}
	// shapes the alphabet above does not reach: no module has a name; two modules of one name; a module name that is
	// not lower case; an ill-formed name; definitions in the dependency loader itself; the static loader below the modules
	b, mb, bad := nm("type", "b", "r"), nm("type", "m::b", "r"), nm("type", "m::1b", "r")
	for _, t := range []string{
		"(tree (p -1) (p 0) (dep (x 0) (x 1)) (f 2))", "(tree (p -1) (p -1) (dep (x6d 0) (x6d 1)))", "(tree (p -1) (p -1) (dep (x4d 0) (x6e 1)) (p 2))",
		"(tree (st) (p 0) (p 0) (dep (x6e 2) (x6d 1)))", "(tree (p -1) (dep) (p 1))",
	} {
		for _, x := range []string{b, mb, bad} {
			for _, y := range []string{b, mb, bad} {
				g.Emit(fmt.Sprintf("hist %s (steps (def 1 %s (t 1)) (load 2 %s) (has 2 %s) (load 2 %s) (def 2 %s (t 2)) (get 2 %s) (disc 2 all))", t, x, x, x, y, y, x))
				g.Emit(fmt.Sprintf("hist %s (steps (load 2 %s) (def 1 %s (t 1)) (load 2 %s) (load 1 %s) (load 2 %s))", t, x, x, x, x, y))
			}
		}
	}
}

// letters outside ASCII whose case mapping is Go's unicode.ToLower (simple mapping, rune by rune)
var caseNames = []string{"\u00c9", "\u00e9", "\u212a", "k", "K", "\u0130x", "ix", "Ix", "\u01c5", "\u01c6", "\u023a", "\u2c65", "m::\u0130", "m::i", "\u03a3\u03c2", "\u03c3\u03c2"}

// genCase: every history of length <= 2 over a chain of three loaders and four spellings of two names that differ in
// letter case only beyond ASCII (É é; the Kelvin sign and k)
func genCase(g *core.G) {
	var alpha []string
	for l := 0; l < 3; l++ {
		for _, n := range []string{"\u00c9", "\u00e9", "\u212a", "k"} {
			x := nm("type", n, "r")
			alpha = append(alpha, fmt.Sprintf("(load %d %s)", l, x), fmt.Sprintf("(def %d %s (t 1))", l, x),
				fmt.Sprintf("(def %d %s (t 2))", l, x), fmt.Sprintf("(has %d %s)", l, x))
		}
		alpha = append(alpha, fmt.Sprintf("(disc %d all)", l))
	}
	for _, a := range alpha {
		g.Emit("hist (tree (p -1) (p 0) (p 1)) (steps " + a + ")")
		for _, b := range alpha {
			g.Emit("hist (tree (p -1) (p 0) (p 1)) (steps " + a + " " + b + ")")
		}
	}
}

// execLfor: `C12 lfor ((xMOD N)*) xNAME` — px.NewDependencyLoader over fresh module loaders labelled N, then
// LoaderFor(NAME) → mod N | nil.  Direct predicate: the answer is a module of that (non-empty) name, if there is one.
func execLfor(args []sx.Sexp) (res core.Result) {
	defer func() {
		if e := recover(); e != nil {
			if _, ok := e.(bad); ok {
				res = core.Result{Out: "bad-op", Pred: "n/a"}
				return
			}
			panic(e)
		}
	}()
	must(len(args) == 2 && args[0].IsList, "shape")
	var mls []px.ModuleLoader
	var labels []int64
	var names []string
	for _, m := range args[0].List {
		must(m.IsList && len(m.List) == 2, "module")
		b, err := m.List[0].AsBytes()
		must(err == nil && utf8.Valid(b), "module name")
		l, err := m.List[1].AsInt()
		must(err == nil && l >= 0, "module label")
		mls = append(mls, &modLoader{px.NewParentedLoader(px.StaticLoader()), string(b)})
		labels = append(labels, l)
		names = append(names, string(b))
	}
	nb, err := args[1].AsBytes()
	must(err == nil && utf8.Valid(nb), "name")
	d, ok := px.NewDependencyLoader(mls).(px.DependencyLoader)
	must(ok, "not a DependencyLoader")
	var got px.ModuleLoader
	if r := safely(func() { got = d.LoaderFor(string(nb)) }); r != "" {
		return core.Result{Out: r, Pred: "FAIL fault LoaderFor crashed", NonTrivial: true}
	}
	out, pred := "nil", "ok"
	exists := false
	for _, n := range names {
		exists = exists || (n == string(nb) && n != "")
	}
	if got != nil {
		for i, ml := range mls {
			if ml == got {
				out = fmt.Sprintf("mod %d", labels[i])
			}
		}
		if got.ModuleName() != string(nb) || !exists {
			pred = "FAIL loader-for LoaderFor answered a module of another name"
		}
	} else if exists {
		pred = "FAIL loader-for LoaderFor found no module although one has that name"
	}
	return core.Result{Out: out, Pred: pred, NonTrivial: len(mls) > 1, Tags: []string{"lfor"}}
}

func genLfor(g *core.G) {
	ns := []string{"x6d", "x6e", "x", "x4d"}
	for _, a := range ns {
		for _, b := range ns {
			for _, c := range ns {
				for _, q := range ns {
					g.Emit(fmt.Sprintf("lfor ((%s 0) (%s 1) (%s 2)) %s", a, b, c, q))
				}
			}
		}
		g.Emit(fmt.Sprintf("lfor () %s", a))
	}
	g.Emit("lfor")
	g.Emit("lfor ((x6d)) x6d")
}
