package c12

import (
	"fmt"
	"strings"
	"unicode"
	"unicode/utf8"

	"verif/harness/core"
	"verif/harness/sx"

	"github.com/lyraproj/pcore/px"
)

// The typed name itself (types/typedname.go): `C12 tn (u xNS xNAME xAUTH) (ops OP*)` runs a script of method calls on
// px.NewTypedName2(NS, NAME, AUTH):
//
//	key      MapKey()        → key xHEX               (computes and CACHES the key)
//	name     Name()          → name xHEX
//	qual     IsQualified()   → t | f
//	parts    Parts()         → parts xSEG* | reported PCORE_INVALID_CHARACTERS_IN_NAME
//	child    Child()         → moved (the script goes on with the child) | nil (end) | fault (end)
//	parent   Parent()        → moved | nil | fault
//	fromkey  TypedNameFromMapKey(MapKey() of a fresh name of the same three strings) → moved | reported CODE (end)
//	eq       Equals(a fresh name of the same three strings) → t | f   (compares, and caches, the MapKey())
//
// Direct predicate ("names … denote one entry"): every key the script prints, and the key of the name the script ends
// with, is the key of a FRESH typed name of the same namespace, name and authority (`derived-key` when the strings hold a
// letter whose lower case has another UTF-8 length — the class of the fixed finding C12-typedname-derived-key —, else `key-wrong`); no method faults; the
// name TypedNameFromMapKey re-makes has the key it was made from (`fromkey-key`); the name, its lower-cased and (for
// letters with lower(upper(r)) = lower(r)) its upper-cased spelling have one key (`case-split`).
func execTn(args []sx.Sexp) (res core.Result) {
	defer func() {
		if e := recover(); e != nil {
			if _, ok := e.(bad); ok {
				res = core.Result{Out: "bad-op", Pred: "n/a"}
				return
			}
			panic(e)
		}
	}()
	must(len(args) == 2 && args[0].Tag() == "u" && len(args[0].Args()) == 3 && args[1].Tag() == "ops", "shape")
	var str [3]string
	for i, a := range args[0].Args() {
		b, err := a.AsBytes()
		must(err == nil && utf8.Valid(b), "string")
		str[i] = string(b)
	}
	ns, name, auth := str[0], str[1], str[2]
	for _, o := range args[1].Args() {
		must(!o.IsList, "op")
		switch o.Atom {
		case "key", "name", "qual", "parts", "child", "parent", "fromkey", "eq":
		default:
			panic(bad{"op"})
		}
	}
	// a fresh typed name of exactly the same three strings (the constructor strips one leading `::`: give it one to strip)
	fresh := func(t px.TypedName) string {
		return px.NewTypedName2(t.Namespace(), "::"+t.Name(), t.Authority()).MapKey()
	}
	lenChanging := len(strings.ToLower(auth+ns+name)) != len(auth+ns+name)
	for _, r := range auth + ns + name {
		lenChanging = lenChanging || utf8.RuneLen(unicode.ToLower(r)) != utf8.RuneLen(r)
	}
	fail := ""
	setFail := func(class, detail string) {
		if fail == "" {
			fail = "FAIL " + class + " " + detail
		}
	}
	keyClass := "key-wrong"
	if lenChanging {
		keyClass = "derived-key"
	}
	cur := px.NewTypedName2(px.Namespace(ns), name, px.URI(auth))
	// letter case
	foldable := true
	for _, r := range name {
		foldable = foldable && unicode.ToLower(unicode.ToUpper(r)) == unicode.ToLower(r)
	}
	for _, r := range ns {
		foldable = foldable && unicode.ToLower(unicode.ToUpper(r)) == unicode.ToLower(r)
	}
	k0 := fresh(cur)
	if px.NewTypedName2(px.Namespace(strings.ToLower(ns)), strings.ToLower(name), px.URI(auth)).MapKey() != k0 ||
		(foldable && px.NewTypedName2(px.Namespace(strings.ToUpper(ns)), strings.ToUpper(name), px.URI(auth)).MapKey() != k0) {
		// (`::` is not a letter: the constructor strips it from all three spellings alike)
		setFail("case-split", "spellings of the name that differ in letter case only have different keys")
	}
	var outs []string
	tags := map[string]bool{}
	derived, keyed := false, false
loop:
	for i, o := range args[1].Args() {
		at := fmt.Sprintf("op %d (%s)", i, o.Atom)
		tags["tn:"+o.Atom] = true
		switch o.Atom {
		case "key":
			keyed = true
			var k string
			if r := safely(func() { k = cur.MapKey() }); r != "" {
				outs = append(outs, r)
				setFail("fault", at)
				break loop
			}
			outs = append(outs, "key "+sx.Str(k).String())
			if want := fresh(cur); k != want {
				setFail(keyClass, fmt.Sprintf("%s: MapKey() = %q, a fresh typed name of the same strings has %q", at, k, want))
			}
		case "eq":
			keyed = true
			var eq bool
			f := px.NewTypedName2(cur.Namespace(), "::"+cur.Name(), cur.Authority())
			if r := safely(func() { eq = cur.Equals(f, nil) }); r != "" {
				outs = append(outs, r)
				setFail("fault", at)
				break loop
			}
			outs = append(outs, sx.B(eq))
			if !eq {
				setFail(keyClass, fmt.Sprintf("%s: not Equals to a fresh typed name of the same strings", at))
			}
		case "name":
			outs = append(outs, "name "+sx.Str(cur.Name()).String())
		case "qual":
			outs = append(outs, sx.B(cur.IsQualified()))
		case "parts":
			var ps []string
			if r := safely(func() { ps = cur.Parts() }); r != "" {
				outs = append(outs, r)
				if r == "fault" {
					setFail("fault", at)
					break loop
				}
				continue
			}
			out := "parts"
			for _, p := range ps {
				out += " " + sx.Str(p).String()
			}
			outs = append(outs, out)
		case "child", "parent":
			derived = true
			var d px.TypedName
			r := safely(func() {
				if o.Atom == "child" {
					d = cur.Child()
				} else {
					d = cur.Parent()
				}
			})
			switch {
			case r != "":
				outs = append(outs, r)
				if lenChanging && r == "fault" {
					setFail("derived-key", at+": the slice of the cached key is out of range")
				} else {
					setFail("fault", at)
				}
				break loop
			case d == nil:
				outs = append(outs, "nil")
				// only a name of one segment has no child / no parent
				if strings.Contains(cur.Name(), "::") {
					setFail("derive-wrong", fmt.Sprintf("%s of %q is nil although the name has more than one segment", at, cur.Name()))
				}
				break loop
			}
			outs = append(outs, "moved")
			// the child is the name without its first segment, the parent the name without its last one
			want := cur.Name()
			if o.Atom == "child" {
				want = want[strings.Index(want, "::")+2:]
			} else {
				want = want[:strings.LastIndex(want, "::")]
			}
			if d.Name() != want || d.Namespace() != cur.Namespace() || d.Authority() != cur.Authority() {
				setFail("derive-wrong", fmt.Sprintf("%s of %q is %q, expected %q", at, cur.Name(), d.Name(), want))
			}
			cur = d
		case "fromkey":
			derived = true
			k := fresh(cur)
			var d px.TypedName
			if r := safely(func() { d = px.TypedNameFromMapKey(k) }); r != "" {
				outs = append(outs, r)
				if r == "fault" {
					setFail("fault", at)
				}
				break loop
			}
			outs = append(outs, "moved")
			// (outside the predicate: a name with `/` in it, and a name that still begins with `::` after the constructor
			// stripped one — TypedNameFromMapKey goes through the constructor, which strips the second)
			if !strings.Contains(cur.Name(), "/") && !strings.HasPrefix(cur.Name(), "::") && fresh(d) != k {
				setFail("fromkey-key", fmt.Sprintf("%s: the name re-made from the key %q has the key %q", at, k, fresh(d)))
			}
			cur = d
		}
	}
	if !strings.HasSuffix(strings.Join(outs, " ; "), "fault") {
		var k string
		if r := safely(func() { k = cur.MapKey() }); r != "" {
			setFail("fault", "MapKey() of the last name")
		} else if want := fresh(cur); k != want {
			setFail(keyClass, fmt.Sprintf("the name the script ends with: MapKey() = %q, a fresh typed name of the same strings has %q", k, want))
		}
	}
	res = core.Result{Out: strings.Join(outs, " ; "), Pred: "ok", NonTrivial: derived && keyed}
	if fail != "" {
		res.Pred = fail
		res.NonTrivial = true
	}
	for t := range tags {
		res.Tags = append(res.Tags, t)
	}
	return res
}

// genKey: every script of length <= 3 (quick) / <= 4 (thorough) over the seven methods, on names with and without
// letters whose lower case has another UTF-8 length, under the runtime authority; then other authorities and namespaces
func genKey(g *core.G) {
	methods := []string{"key", "child", "parent", "parts", "qual", "fromkey", "name", "eq"}
	maxLen := 3
	if g.Thorough() {
		maxLen = 4
	}
	var scripts []string
	var rec func(prefix []string)
	rec = func(prefix []string) {
		if len(prefix) > 0 {
			scripts = append(scripts, "(ops "+strings.Join(prefix, " ")+")")
		}
		if len(prefix) == maxLen {
			return
		}
		for _, m := range methods {
			rec(append(prefix, m))
		}
	}
	rec(nil)
	names := []string{"a", "Ab::Cd::ef", "::A::b", "a::", "", "a:::b", "A::1b", "\u212ax::Foo", "\u0130x::Foo::Bar", "\u023ax::Foo", "\u00c9::\u00e9", "a::\u212a",
		"::::a", "::::A::b"} // (the last two: the constructor strips ONE leading `::`, the first segment of the stored name is empty)
	rt := string(px.RuntimeNameAuthority)
	for _, n := range names {
		for _, s := range scripts {
			g.Emit(fmt.Sprintf("tn (u %s %s %s) %s", sx.Str("type"), sx.Str(n), sx.Str(rt), s))
		}
	}
	r := g.Rng
	auths := []string{rt, "http://\u212a.example", "", "x", "HTTP://EXAMPLE.COM/\u0130"}
	nss := []string{"type", "Type", "", "t\u00c9pe", "function"}
	segs := []string{"a", "Ab", "B_1", "\u212a", "\u0130x", "\u023a", "\u00e9", "1x", "", "", "x y"}
	for i := 0; i < 400*g.Scale; i++ {
		var parts []string
		for j, k := 0, 1+r.Intn(4); j < k; j++ {
			parts = append(parts, core.Pick(r, segs))
		}
		n := strings.Join(parts, "::")
		if r.Intn(8) == 0 {
			n = "::" + n
		}
		var ops []string
		for j, k := 0, 1+r.Intn(6); j < k; j++ {
			ops = append(ops, core.Pick(r, methods))
		}
		g.Emit(fmt.Sprintf("tn (u %s %s %s) (ops %s)", sx.Str(core.Pick(r, nss)), sx.Str(n), sx.Str(core.Pick(r, auths)), strings.Join(ops, " ")))
	}
	for _, l := range []string{"tn", "tn (u x x x)", "tn (u x x x) (ops frob)", "tn (u xff x x) (ops key)", "tn (u x x) (ops key)"} {
		g.Emit(l)
	}
}
