// Package c12: loader resolution (property C12).
//
// One op line is a whole HISTORY over a small loader tree:
//
//	C12 hist (tree NODE*) (steps STEP*)
//
//	NODE  ::= (st)             node 0 only: the static loader itself (px.StaticLoader()); it may be asked (has, get, disc) but
//	                           no load / def / add may address it; the only core type name a line may use is Integer
//	        | (stw)            node 0 only: the static loader as a WRITABLE node (load / def / add / rr may address it).  What is
//	                           written into it stays for the life of the process, so every name of such a line is given a
//	                           suffix `0<n>` no other line uses (stripped again from everything printed; identifier
//	                           characters, because other lines' type-set loaders see these names through the static loader
//	                           and call Parts() on them); names must be `::`-separated identifiers without digits (the key
//	                           order is then the one of the names as written: the suffix sorts below every next byte, and the
//	                           suffixed name is still one Parts() accepts); no (ts …) / (dep …) nodes
//	        | (p P)            px.NewParentedLoader(parent), parent = node P, or the static loader when P = -1
//	        | (f P)            the loader of ctx_P.Fork()  (Context.Fork creates a parented child loader); P >= 0
//	        | (ts P)           px.NewTypeSetLoader(loader_P, TS) with the fixed type set TS = My {Foo = Integer[1,1],
//	                           Bar = Integer[2,2]}; P >= 0; a LEAF (no node may be parented on it)
//	        | (dep (xMOD L)*)  px.NewDependencyLoader over module loaders: each wraps loader_L (a (p …) or (f …) node declared before,
//	                           no dependency loader among its ancestors) and answers ModuleName() = MOD; a dependency loader
//	                           has no parent, (p D) / (f D) nodes may be parented on it; not together with (ts …) nodes
//	NAME  ::= (n NS xNAME A)   px.NewTypedName2(NS, NAME, authority); A = r (runtime authority) | o (another authority)
//	VAL   ::= (t N)            the type Integer[N,N]     (a fresh object every time: equality goes through Equals)
//	        | (s N)            the String value "N"      (a non-Type that implements Equality)
//	        | (al xNAME N)     the alias type NAME = Integer[N,N]
//	        | (o N)            implementation-only lines (`@histo`): an opaque Go value (a pointer to a struct that implements neither
//	                           px.Type nor px.Equality); the same N is the very same object within a line, another N another object
//	        | (nil)            implementation-only lines (`@histo`): an entry without a value (what a loader records for a miss)
//	STEP  ::= (load L NAME)    px.Load(ctx_L, NAME)                 → found VAL | notfound
//	        | (def L NAME VAL) loader_L.SetEntry(NAME, entry(VAL))  → ok | reported CODE | fault
//	        | (add L xNAME N)  px.AddTypes(ctx_L, alias NAME=Integer[N,N]) → ok | reported CODE | fault
//	        | (has L NAME)     loader_L.HasEntry(NAME)              → t | f
//	        | (get L NAME)     loader_L.GetEntry(NAME)              → found VAL | placeholder | absent
//	        | (disc L P)       loader_L.Discover(ctx_L, pred P ∧ key used in this line), P = all | qual | type
//	                                                                → [key*]   (map keys, hex)
//	        | (reg xNAME N)    px.RegisterResolvableType(alias NAME=Integer[N,N]) — the process-wide list of declared types → ok
//	        | (addts L xNAME VER (xMEMBER N)*)  px.AddTypes(ctx_L, TypeSet NAME, version 1.0.VER, {MEMBER = Integer[N,N] …}): the
//	                           members the loader does not know yet are defined in loader_L under NAME::MEMBER, then NAME;
//	                           NAME and the MEMBERs are identifiers of letters with a capital first; not in (ts …)/(stw) lines
//	                                                                → ok | reported CODE | fault
//	        | (rr L)           px.ResolveResolvables(ctx_L): every declared type is defined in loader_L, in order of
//	                           declaration; the first rejected one ends it (the ones behind it are lost)
//	                                                                → ok | reported CODE | fault
//
// Output: the step answers joined by " ; ", then " | " and the final own contents of every loader
// (`i:{key=VAL key=- …}`, keys sorted, `-` = cached-miss placeholder).
//
// `@histo (tree …) (steps …)`: the same line language and the same direct predicate, evaluated on the implementation only
// (the model's values are Types and Strings); it admits the two value shapes above.  Property text: "re-defining it with an
// equal value is a no-op" — the very same object is an equal value even when it has no Equals method, another object without
// one is a different value (rejected); an entry without a value binds nothing and never disturbs a binding.
//
// Direct predicate: a reference map written from the property text (refState below) is run beside the
// implementation; after EVERY step the answer and the complete observable state (GetEntry / LoadEntry / HasEntry
// of every loader for every name of the line) are compared with it.
package c12

import (
	"fmt"
	"regexp"
	"sort"
	"strconv"
	"strings"
	"sync/atomic"
	"unicode/utf8"

	"verif/harness/core"
	"verif/harness/sx"

	"github.com/lyraproj/issue/issue"
	"github.com/lyraproj/pcore/pcore"
	"github.com/lyraproj/pcore/px"
	"github.com/lyraproj/pcore/types"
)

func init() {
	core.Register(&core.Prop{
		ID:   "C12",
		Rule: "distinct history lines; non-trivial = the history contains at least one accepted definition and one lookup (load/has/get/discover)",
		Gen:  gen,
		Exec: exec,
	})
}

const otherAuthority = px.URI(`http://example.com/other`)

// ---- the reference: 30 lines written from the property text ---------------------------------------------

// refState: bindings per loader, keyed by the canonical (or, for the case-split diagnosis, the exact) name.
type refState struct {
	parent []int               // -1 = none
	own    []map[string]string // loader → key → canonical value text
	fold   bool                // true: names differing only in letter case denote one entry
	ts     []bool              // loader is a type-set loader: it binds the members of its type set (prefilled in own for
	// the names of the line) and hands every definition to its parent
	alias []map[string]bool // type-set loader → keys that are qualified paths (My::Foo) to a member, not member names
	deps  [][]depMod        // loader → its module loaders when it is a dependency loader (dep.go), else nil
}

func newRef(parent []int, fold bool) *refState {
	r := &refState{parent: parent, fold: fold}
	for range parent {
		r.own = append(r.own, map[string]string{})
		r.ts = append(r.ts, false)
		r.alias = append(r.alias, map[string]bool{})
		r.deps = append(r.deps, nil)
	}
	return r
}

func (r *refState) key(k nameT) string {
	s := k.auth + "/" + k.ns + "/" + strings.TrimPrefix(k.name, "::")
	if r.fold {
		return strings.ToLower(s)
	}
	return s
}

// chain: the loader and its ancestors, outermost first
func (r *refState) chain(l int) []int {
	var c []int
	for ; l >= 0; l = r.parent[l] {
		c = append([]int{l}, c...)
	}
	return c
}

// resolve: the binding of the outermost ancestor that has one, otherwise the loader's own, otherwise not-found
func (r *refState) resolve(l int, key string) (string, bool) {
	for _, a := range r.chain(l) {
		if v, ok := r.own[a][key]; ok {
			return v, true
		}
	}
	if r.ts[l] {
		// a type-set loader also answers for a name given relative to its type set: My::X is X, looked up the same way
		if i := strings.LastIndexByte(key, '/'); strings.HasPrefix(strings.ToLower(key[i+1:]), "my::") {
			return r.resolve(l, key[:i+1]+key[i+5:])
		}
	}
	return "", false
}

// define: write-once.  Returns "ok" (bound now or equal re-definition) or "rejected".
func (r *refState) define(l int, key, v string) string {
	if r.ts[l] {
		l = r.parent[l] // a type-set loader defines nothing itself
	}
	if old, ok := r.own[l][key]; ok {
		if old == v {
			return "ok"
		}
		return "rejected"
	}
	r.own[l][key] = v
	return "ok"
}

// discover: exactly the bound names (of the loader or an ancestor) satisfying the predicate, each once, sorted
func (r *refState) discover(l int, pred func(key string) bool) []string {
	seen := map[string]bool{}
	out := []string{}
	for _, a := range r.chain(l) {
		for k := range r.own[a] {
			if !seen[k] && pred(k) && !r.alias[a][k] {
				seen[k] = true
				out = append(out, k)
			}
		}
	}
	sort.Strings(out)
	return out
}

// ---- op syntax ------------------------------------------------------------------------------------------

type nameT struct{ ns, name, auth, sfx string } // sfx: the per-line suffix of a (stw) line, never part of a key printed

type valT struct {
	kind string // t s al
	name string
	n    int64
	sfx  string
}

type memberT struct {
	name string
	n    int64
}

type stepT struct {
	op      string
	l       int
	name    nameT
	val     valT
	pred    string
	members []memberT // addts
}

type bad struct{ why string }

func must(ok bool, why string) {
	if !ok {
		panic(bad{why})
	}
}

func parseName(e sx.Sexp) nameT {
	a := e.Args()
	must(e.Tag() == "n" && len(a) == 3 && !a[0].IsList && !a[2].IsList, "name")
	b, err := a[1].AsBytes()
	must(err == nil, "name hex")
	must(utf8.Valid(b), "name is not valid UTF-8") // strings.ToLower replaces invalid bytes by U+FFFD: outside the model
	must(a[2].Atom == "r" || a[2].Atom == "o", "authority")
	auth := string(px.RuntimeNameAuthority)
	if a[2].Atom == "o" {
		auth = string(otherAuthority)
	}
	return nameT{ns: a[0].Atom, name: string(b), auth: auth}
}

// extValues: the line being parsed is an implementation-only `@histo` line (ops are executed one at a time)
var extValues bool

// opaque: a Go value that is neither a px.Type nor a px.Equality
type opaque struct{ n int64 }

func parseVal(e sx.Sexp) valT {
	a := e.Args()
	switch e.Tag() {
	case "t", "s":
		must(len(a) == 1, "val")
		n, err := a[0].AsInt()
		must(err == nil && n >= 0, "val int")
		return valT{kind: e.Tag(), n: n}
	case "o":
		must(extValues && len(a) == 1, "val")
		n, err := a[0].AsInt()
		must(err == nil && n >= 0, "val int")
		return valT{kind: "o", n: n}
	case "nil":
		must(extValues && len(a) == 0, "val")
		return valT{kind: "nil"}
	case "al":
		must(len(a) == 2, "alias")
		b, err := a[0].AsBytes()
		must(err == nil, "alias hex")
		n, err := a[1].AsInt()
		must(err == nil && n >= 0, "alias int")
		return valT{kind: "al", name: string(b), n: n}
	}
	panic(bad{"val"})
}

func (v valT) String() string {
	if v.kind == "tset" {
		return fmt.Sprintf("(tset %s %d)", sx.Str(v.name), v.n)
	}
	if v.kind == "al" {
		return fmt.Sprintf("(al %s %d)", sx.Str(v.name), v.n)
	}
	if v.kind == "nil" {
		return "(nil)"
	}
	return fmt.Sprintf("(%s %d)", v.kind, v.n)
}

func (v valT) build() interface{} {
	switch v.kind {
	case "t":
		return types.NewIntegerType(v.n, v.n)
	case "s":
		return types.WrapString(strconv.FormatInt(v.n, 10))
	default:
		return types.NewTypeAliasType(v.name+v.sfx, nil, types.NewIntegerType(v.n, v.n))
	}
}

var lineSuffix = regexp.MustCompile(`0[0-9]+$`)

// unsfx strips the per-line suffix of a (stw) line from a name or key
func unsfx(s string) string { return lineSuffix.ReplaceAllString(s, "") }

var stwCounter int64

var tsIdent = regexp.MustCompile(`\A[A-Z][A-Za-z]*\z`)

func anyTrue(bs []bool) bool {
	for _, b := range bs {
		if b {
			return true
		}
	}
	return false
}

// member of a type set as a loader holds it: the name NAME::MEMBER and the alias NAME::MEMBER = Integer[n,n]
func (s stepT) member(m memberT) (nameT, valT) {
	q := s.name.name + "::" + m.name
	return nameT{ns: "type", name: q, auth: s.name.auth}, valT{kind: "al", name: q, n: m.n}
}

// canon renders a value handed out by a loader
func canon(v interface{}) string {
	if t, ok := v.(px.Type); ok && !lineSuffix.MatchString(t.Name()) {
		// the very object the static loader holds under that name
		if e := px.StaticLoader().GetEntry(px.NewTypedName(px.NsType, t.Name())); e != nil && e.Value() == v {
			return fmt.Sprintf("(core %s)", sx.Str(strings.ToLower(t.Name())))
		}
	}
	switch v := v.(type) {
	case *types.TypeAliasType:
		if it, ok := v.ResolvedType().(*types.IntegerType); ok {
			return fmt.Sprintf("(al %s %d)", sx.Str(unsfx(v.Name())), it.Min())
		}
	case *types.IntegerType:
		return fmt.Sprintf("(t %d)", v.Min())
	case px.TypeSet:
		return fmt.Sprintf("(tset %s %d)", sx.Str(v.Name()), v.Version().Patch())
	case px.StringValue:
		if n, err := strconv.ParseInt(v.String(), 10, 64); err == nil {
			return fmt.Sprintf("(s %d)", n)
		}
	case *opaque:
		return fmt.Sprintf("(o %d)", v.n)
	}
	return fmt.Sprintf("(other %T)", v)
}

// hasStatic: node 0 of the tree is the static loader
func hasStatic(tree sx.Sexp) bool {
	a := tree.Args()
	return len(a) > 0 && a[0].Tag() == "st" && len(a[0].Args()) == 0
}

// hasStaticW: node 0 of the tree is the static loader, writable
func hasStaticW(tree sx.Sexp) bool {
	a := tree.Args()
	return len(a) > 0 && a[0].Tag() == "stw" && len(a[0].Args()) == 0
}

// tsNodes: which nodes of the tree are type-set loaders
func tsNodes(tree sx.Sexp) []bool {
	var ts []bool
	for _, nd := range tree.Args() {
		ts = append(ts, nd.Tag() == "ts")
	}
	return ts
}

func parseLine(args []sx.Sexp) (parent []int, forked []bool, steps []stepT, deps [][]depMod) {
	must(len(args) == 2 && args[0].Tag() == "tree" && args[1].Tag() == "steps", "shape")
	isTS := tsNodes(args[0])
	deps = parseDeps(args[0])
	sfx := ""
	if hasStaticW(args[0]) {
		sfx = fmt.Sprintf("0%d", atomic.AddInt64(&stwCounter, 1))
	}
	for i, nd := range args[0].Args() {
		a := nd.Args()
		if (nd.Tag() == "st" || nd.Tag() == "stw") && len(a) == 0 {
			must(i == 0, "static loader elsewhere than at node 0")
			parent = append(parent, -1)
			forked = append(forked, false)
			continue
		}
		if nd.Tag() == "dep" {
			parent = append(parent, -1)
			forked = append(forked, false)
			continue
		}
		must((nd.Tag() == "p" || nd.Tag() == "f" || nd.Tag() == "ts") && len(a) == 1, "node")
		p, err := a[0].AsInt()
		must(err == nil && p >= -1 && int(p) < i, "parent index")
		must(nd.Tag() == "p" || p >= 0, "fork of nothing")
		must(p < 0 || !isTS[p], "a type-set loader is a leaf")
		must(!(nd.Tag() == "ts" && hasStatic(args[0]) && p == 0), "type-set loader on the static loader")
		parent = append(parent, int(p))
		forked = append(forked, nd.Tag() == "f")
	}
	must(len(parent) > 0, "empty tree")
	checkDeps(args[0], parent, deps, isTS)
	for i := range parent {
		must(sfx == "" || (!isTS[i] && deps[i] == nil), "type-set / dependency loader beside a writable static loader")
	}
	for _, s := range args[1].Args() {
		a := s.Args()
		if s.Tag() == "reg" {
			must(len(a) == 2, "step arity")
			b, err := a[0].AsBytes()
			must(err == nil && utf8.Valid(b), "reg hex")
			n, err := a[1].AsInt()
			must(err == nil && n >= 0, "reg int")
			st := stepT{op: "reg", l: 0}
			st.name = nameT{ns: "type", name: string(b), auth: string(px.RuntimeNameAuthority), sfx: sfx}
			st.val = valT{kind: "al", name: string(b), n: n, sfx: sfx}
			must(sfx == "" || bytesAbove(st.name), "name byte not above `0` in a (stw) line")
			steps = append(steps, st)
			continue
		}
		must(len(a) >= 1, "step")
		l, err := a[0].AsInt()
		must(err == nil && l >= 0 && int(l) < len(parent), "loader index")
		st := stepT{op: s.Tag(), l: int(l)}
		if st.op == "addts" {
			must(len(a) >= 3 && sfx == "" && !anyTrue(isTS), "addts shape")
			b, err := a[1].AsBytes()
			must(err == nil && tsIdent.Match(b), "type set name")
			ver, err := a[2].AsInt()
			must(err == nil && ver >= 0, "type set version")
			st.name = nameT{ns: "type", name: string(b), auth: string(px.RuntimeNameAuthority)}
			st.val = valT{kind: "tset", name: string(b), n: ver}
			seen := map[string]bool{}
			for _, m := range a[3:] {
				must(m.IsList && len(m.List) == 2, "member")
				mb, err := m.List[0].AsBytes()
				must(err == nil && tsIdent.Match(mb) && !seen[strings.ToLower(string(mb))], "member name")
				seen[strings.ToLower(string(mb))] = true
				k, err := m.List[1].AsInt()
				must(err == nil && k >= 0, "member int")
				st.members = append(st.members, memberT{string(mb), k})
			}
			must(len(st.members) > 0, "a type set has members")
			must(!(hasStatic(args[0]) && st.l == 0), "the static loader is never written")
			steps = append(steps, st)
			continue
		}
		if st.op == "rr" {
			must(len(a) == 1, "step arity")
			must(!(hasStatic(args[0]) && st.l == 0), "the static loader is never written")
			steps = append(steps, st)
			continue
		}
		must(len(a) >= 2, "step")
		switch st.op {
		case "load", "has", "get":
			must(len(a) == 2, "step arity")
			st.name = parseName(a[1])
		case "def":
			must(len(a) == 3, "step arity")
			st.name = parseName(a[1])
			st.val = parseVal(a[2])
		case "add":
			must(len(a) == 3, "step arity")
			b, err := a[1].AsBytes()
			must(err == nil && utf8.Valid(b), "add hex")
			n, err := a[2].AsInt()
			must(err == nil && n >= 0, "add int")
			st.name = nameT{ns: "type", name: string(b), auth: string(px.RuntimeNameAuthority)}
			st.val = valT{kind: "al", name: string(b), n: n}
		case "disc":
			must(len(a) == 2 && !a[1].IsList, "step arity")
			must(a[1].Atom == "all" || a[1].Atom == "qual" || a[1].Atom == "type", "predicate")
			st.pred = a[1].Atom
		default:
			panic(bad{"op"})
		}
		must(!(hasStatic(args[0]) && st.l == 0 && (st.op == "load" || st.op == "def" || st.op == "add")), "the static loader is never written")
		st.name.sfx, st.val.sfx = sfx, sfx
		must(sfx == "" || st.op == "disc" || bytesAbove(st.name), "name byte not above `0` in a (stw) line")
		steps = append(steps, st)
	}
	return
}

// keyPred: the discovery predicates, as functions of the map key "authority/namespace/name"
func keyPred(p string, key string) bool {
	i := strings.LastIndexByte(key, '/')
	name := key[i+1:]
	pfx := key[:i]
	ns := pfx[strings.LastIndexByte(pfx, '/')+1:]
	switch p {
	case "qual":
		return strings.Contains(name, "::")
	case "type":
		return ns == "type"
	}
	return true
}

// ---- execution ------------------------------------------------------------------------------------------

// safely runs f; "" = returned normally, otherwise "reported CODE" / "fault" / "error"
func safely(f func()) (res string) {
	defer func() {
		if e := recover(); e != nil {
			res = classify(e)
		}
	}()
	f()
	return ""
}

func classify(e interface{}) string {
	switch e := e.(type) {
	case issue.Reported:
		if strings.Contains(e.Error(), "runtime error:") || strings.Contains(e.Error(), "interface conversion") {
			return "fault"
		}
		return "reported " + string(e.Code())
	case error:
		return "fault"
	default:
		return "fault"
	}
}

func exec(c px.Context, op string, args []sx.Sexp) (res core.Result) {
	if op == "tsadd" {
		return execTsAdd(c, args)
	}
	if op == "tsnest" {
		return execTsNest(c, args)
	}
	if op == "gofn" {
		return execGoFn(c, args)
	}
	if op == "tn" {
		return execTn(args)
	}
	if op == "lfor" {
		return execLfor(args)
	}
	if op != "hist" && op != "histo" {
		return core.Result{Out: "bad-op", Pred: "n/a"}
	}
	extValues = op == "histo"
	defer func() {
		if e := recover(); e != nil {
			if _, ok := e.(bad); ok {
				res = core.Result{Out: "bad-op", Pred: "n/a"}
				return
			}
			panic(e)
		}
	}()
	parent, forked, steps, deps := parseLine(args)
	return run(c, parent, forked, tsNodes(args[0]), steps, hasStatic(args[0]), deps, hasStaticW(args[0]))
}

// the fixed type set of every type-set loader node, resolved once in a throw-away fork (so that none of its types gets
// bound in a loader of a line); it is immutable afterwards
const typeSetSrc = `TypeSet[{ name => 'My', version => '1.0.0', pcore_version => '1.0.0',
  types => { Foo => Integer[1,1], Bar => Integer[2,2] }}]`

var theTypeSet px.TypeSet
var tsMembers = map[string]string{"foo": "(al x4d793a3a466f6f 1)", "bar": "(al x4d793a3a426172 2)"}

func typeSet(c px.Context) px.TypeSet {
	if theTypeSet == nil {
		scratch := c.Fork()
		t := scratch.ParseType(typeSetSrc)
		px.AddTypes(scratch, t)
		theTypeSet = t.(px.TypeSet)
	}
	return theTypeSet
}

// tsMember: the member a key denotes for the type-set loader — `…/type/foo` (alias = false) or a qualified path
// `…/type/my::foo`, `…/type/my::my::foo` … (alias = true)
func tsMember(key string) (val string, alias, ok bool) {
	pfx := strings.ToLower(string(px.RuntimeNameAuthority)) + "/type/"
	k := strings.ToLower(key)
	if !strings.HasPrefix(k, pfx) {
		return
	}
	n := k[len(pfx):]
	for strings.HasPrefix(n, "my::") {
		n = n[4:]
		alias = true
	}
	val, ok = tsMembers[n]
	return
}

type world struct {
	loaders []px.DefiningLoader
	ctxs    []px.Context
}

// static: node 0 is the static loader itself (read-only `(st)` or writable `(stw)`)
func build(parent []int, forked []bool, static bool, ts []bool, tset px.TypeSet, deps [][]depMod) *world {
	w := &world{}
	for i, p := range parent {
		if deps != nil && deps[i] != nil {
			l := newDep(w, deps[i])
			w.loaders = append(w.loaders, l)
			w.ctxs = append(w.ctxs, pcore.NewContext(l, pcore.Logger()))
			continue
		}
		if ts != nil && ts[i] {
			l := px.NewTypeSetLoader(w.loaders[p], tset).(px.DefiningLoader)
			w.loaders = append(w.loaders, l)
			w.ctxs = append(w.ctxs, pcore.NewContext(l, pcore.Logger()))
			continue
		}
		if static && i == 0 {
			l := px.StaticLoader().(px.DefiningLoader)
			w.loaders = append(w.loaders, l)
			w.ctxs = append(w.ctxs, pcore.NewContext(l, pcore.Logger()))
			continue
		}
		if forked[i] {
			cf := w.ctxs[p].Fork()
			w.ctxs = append(w.ctxs, cf)
			w.loaders = append(w.loaders, cf.Loader().(px.DefiningLoader))
			continue
		}
		var pl px.Loader = px.StaticLoader()
		if p >= 0 {
			pl = w.loaders[p]
		}
		l := px.NewParentedLoader(pl)
		w.loaders = append(w.loaders, l)
		w.ctxs = append(w.ctxs, pcore.NewContext(l, pcore.Logger()))
	}
	return w
}

func (n nameT) tn() px.TypedName {
	return px.NewTypedName2(px.Namespace(n.ns), n.name+n.sfx, px.URI(n.auth))
}

var stwName = regexp.MustCompile(`\A(::)?[A-Za-z][A-Za-z_]*(::[A-Za-z][A-Za-z_]*)*\z`)

// bytesAbove: the name of a (stw) line — `::`-separated identifiers without digits (with the suffix it stays a name Parts()
// accepts, and every byte sorts above the `0` the suffix begins with), the namespace bytes above `0` as well
func bytesAbove(n nameT) bool {
	for _, b := range []byte(n.ns) {
		if b <= 0x30 {
			return false
		}
	}
	return stwName.MatchString(n.name)
}

// coreKey: the map keys of the core types a line may name
var coreKeys = map[string]string{string(px.RuntimeNameAuthority) + "/type/integer": "integer"}

func run(c px.Context, parent []int, forked []bool, ts []bool, steps []stepT, static bool, deps [][]depMod, staticW bool) core.Result {
	// the process-wide list of declared types is empty at both ends of a line
	types.PopDeclaredTypes()
	defer types.PopDeclaredTypes()
	sfx := ""
	for _, s := range steps {
		if s.name.sfx != "" {
			sfx = s.name.sfx
		}
	}
	anyTS := false
	for _, b := range ts {
		anyTS = anyTS || b
	}
	var tset px.TypeSet
	if anyTS {
		tset = typeSet(c)
	}
	w := build(parent, forked, static || staticW, ts, tset, deps)
	ref := newRef(parent, true)
	exact := newRef(parent, false) // the same reference without case folding: only used to NAME a failure `case-split`
	copy(ref.ts, ts)
	copy(exact.ts, ts)
	copy(ref.deps, deps)
	copy(exact.deps, deps)
	// a definition addressed to a dependency loader itself (it is not handed out as a DefiningLoader): the line is run and
	// compared with the model, the property's reference has nothing to say about it
	outside := false
	for _, s := range steps {
		if (s.op == "def" || s.op == "add" || s.op == "rr") && deps[s.l] != nil {
			outside = true
		}
	}

	// the names of this line (the universe every observation ranges over), by canonical key
	names := []nameT{}
	keys := map[string]bool{}
	for _, s := range steps {
		for _, m := range s.members {
			mn, _ := s.member(m)
			names = append(names, mn)
			keys[ref.key(mn)] = true
		}
		if s.op != "disc" && s.op != "rr" {
			names = append(names, s.name)
			keys[ref.key(s.name)] = true
			if anyTS {
				// a type-set loader also works on the name relative to its type set (My::Baz → Baz)
				for n := s.name; strings.HasPrefix(strings.ToLower(strings.TrimPrefix(n.name, "::")), "my::"); {
					n.name = strings.TrimPrefix(n.name, "::")[4:]
					names = append(names, n)
					keys[ref.key(n)] = true
				}
			}
		}
	}
	for i, b := range ts {
		if b {
			// what the type-set loader binds, as far as this line can see it
			for _, n := range names {
				if v, alias, ok := tsMember(ref.key(n)); ok && !alias && n.ns == "type" {
					ref.own[i][ref.key(n)], exact.own[i][exact.key(n)] = v, v
				}
			}
		}
	}
	for k := range keys {
		// without a static node the static loader (ancestor of every root) must not know the names of the universe; with
		// one, the only core type a line may name is the one the model preloads
		if px.StaticLoader().HasEntry(px.TypedNameFromMapKey(k+sfx)) && !(static && coreKeys[k] != "") {
			return core.Result{Out: "bad-op", Pred: "n/a"}
		}
	}
	if static {
		// what the static loader binds, as far as this line can see it
		for _, n := range names {
			if c := coreKeys[ref.key(n)]; c != "" {
				ref.own[0][ref.key(n)] = fmt.Sprintf("(core %s)", sx.Str(c))
				exact.own[0][exact.key(n)] = ref.own[0][ref.key(n)]
			}
		}
	}
	sortedKeys := make([]string, 0, len(keys))
	for k := range keys {
		sortedKeys = append(sortedKeys, k)
	}
	sort.Strings(sortedKeys)

	fail := ""
	setFail := func(class, detail string) {
		if fail == "" {
			fail = "FAIL " + class + " " + detail
		}
	}
	// classOr: a mismatch with the folding reference that the non-folding reference explains is a case split
	classOr := func(class string, explainedByExact bool) string {
		if explainedByExact {
			return "case-split"
		}
		return class
	}

	outs := make([]string, 0, len(steps))
	tags := map[string]bool{}
	missed := map[string]bool{} // "L key": a lookup of key through L failed earlier
	accepted, looked := false, false
	var queue []stepT // the declared types not resolved yet
	pool := map[int64]*opaque{} // the opaque values of this line: one object per number

	for si, s := range steps {
		l := w.loaders[s.l]
		ctx := w.ctxs[s.l]
		at := fmt.Sprintf("step %d (%s %d …)", si, s.op, s.l)
		var out string
		switch s.op {
		case "load":
			looked = true
			var v interface{}
			var ok bool
			sticky := depCachedMiss(w, ref, s.l, s.name) // before the lookup
			r := safely(func() { v, ok = px.Load(ctx, s.name.tn()) })
			switch {
			case r != "":
				out = r
			case ok:
				out = "found " + canon(v)
			default:
				out = "notfound"
			}
			want, wantX := "notfound", "notfound"
			stickyWant := "notfound" // the resolution without the lazy binding a dependency loader owes to this lookup
			if s.name.auth == string(px.RuntimeNameAuthority) { // a loader answers only for names of its own authority
				if out == "reported PCORE_INVALID_CHARACTERS_IN_NAME" && illFormed(s.name) && ref.depRoot(s.l) >= 0 {
					// a dependency loader may reject a name with a segment that is no identifier: a reported error, no trace
					want, wantX = out, out
				} else {
					if v, ok := ref.resolve(s.l, ref.key(s.name)); ok {
						stickyWant = "found " + v
					}
					// the first lookup that reaches a dependency loader binds the name there to what its dependencies bind
					ref.lazyBind(s.l, s.name)
					exact.lazyBind(s.l, s.name)
					if v, ok := ref.resolve(s.l, ref.key(s.name)); ok {
						want = "found " + v
					}
					if v, ok := exact.resolve(s.l, exact.key(s.name)); ok {
						wantX = "found " + v
					}
				}
			}
			if out == "notfound" {
				missed[fmt.Sprint(s.l, " ", ref.key(s.name))] = true
			}
			if out != want {
				class := classOr("resolve-wrong", out == wantX)
				if own, _, isMember := tsMember(ref.key(s.name)); ref.ts[s.l] && isMember && s.name.ns == "type" && out == "found "+own {
					// the type set is asked for an unqualified member name before any ancestor
					class = "typeset-member-before-ancestors"
				}
				if sticky && out == stickyWant {
					// the dependency loader at the root of the chain answers the miss it cached earlier: the lookup behaves as if
					// the dependencies bound nothing
					class = "dep-miss-sticky"
				}
				setFail(class, fmt.Sprintf("%s: load answered %s, the reference resolves to %s", at, out, want))
			}
		case "has":
			looked = true
			var ok bool
			r := safely(func() { ok = l.HasEntry(s.name.tn()) })
			out = sx.B(ok)
			if r != "" {
				out = r
			}
			_, want := ref.resolve(s.l, ref.key(s.name))
			_, wantX := exact.resolve(s.l, exact.key(s.name))
			if out != sx.B(want) {
				setFail(classOr("resolve-wrong", out == sx.B(wantX)), fmt.Sprintf("%s: has answered %s, the reference %s", at, out, sx.B(want)))
			}
		case "get":
			looked = true
			var e px.LoaderEntry
			r := safely(func() { e = l.GetEntry(s.name.tn()) })
			switch {
			case r != "":
				out = r
			case e == nil:
				out = "absent"
			case e.Value() == nil:
				out = "placeholder"
			default:
				out = "found " + canon(e.Value())
			}
			want, okW := ref.own[s.l][ref.key(s.name)]
			wantX, okX := exact.own[s.l][exact.key(s.name)]
			got, okG := strings.TrimPrefix(out, "found "), strings.HasPrefix(out, "found ")
			if ref.ts[s.l] {
				// GetEntry of a type-set loader shows its entry map (cached misses) only, never a member: nothing to compare
			} else if okG != okW || (okG && got != want) {
				setFail(classOr("resolve-wrong", okG == okX && (!okG || got == wantX)), fmt.Sprintf("%s: get answered %s, the reference own binding is %q", at, out, want))
			}
		case "def", "add":
			var r string
			if s.op == "def" {
				var nv interface{}
				switch s.val.kind {
				case "o":
					if pool[s.val.n] == nil {
						pool[s.val.n] = &opaque{s.val.n}
					}
					nv = pool[s.val.n]
				case "nil":
				default:
					nv = s.val.build()
				}
				r = safely(func() { l.SetEntry(s.name.tn(), px.NewLoaderEntry(nv, nil)) })
			} else {
				r = safely(func() { px.AddTypes(ctx, s.val.build().(px.Type)) })
			}
			out = r
			if r == "" {
				out = "ok"
			}
			want, wantX := "ok", "ok" // an entry without a value binds nothing and disturbs nothing
			if s.val.kind != "nil" {
				want = ref.define(s.l, ref.key(s.name), s.val.String())
				wantX = exact.define(s.l, exact.key(s.name), s.val.String())
			}
			switch {
			case out == "fault":
				// classified below with the other faults
			case want == "rejected" && out == "ok":
				setFail(classOr("redefine-accepted", wantX == "ok"), fmt.Sprintf("%s: a different value for a bound name was accepted", at))
			case s.val.kind == "nil" && out != "ok":
				setFail("empty-entry-rejected", fmt.Sprintf("%s: an entry without a value answered %s", at, out))
			case want == "ok" && out != "ok":
				setFail(classOr("redefine-equal-rejected", wantX == "rejected"), fmt.Sprintf("%s: answered %s where the reference accepts (new binding or equal re-definition)", at, out))
			case want == "rejected" && !strings.HasPrefix(out, "reported PCORE_ATTEMPT_TO_REDEFINE"):
				setFail("redefine-accepted", fmt.Sprintf("%s: rejected with %s instead of a reported redefinition error", at, out))
			}
			if want == "ok" && out == "ok" && s.val.kind != "nil" {
				accepted = true
			}
		case "addts":
			var ms []string
			for _, m := range s.members {
				ms = append(ms, fmt.Sprintf("%s => Integer[%d,%d]", m.name, m.n, m.n))
			}
			src := fmt.Sprintf("TypeSet[{name => '%s', version => '1.0.%d', pcore_version => '1.0.0', types => {%s}}]", s.name.name, s.val.n, strings.Join(ms, ", "))
			r := safely(func() { px.AddTypes(ctx, ctx.ParseType(src)) })
			out = r
			if r == "" {
				out = "ok"
			}
			// the members the loader does not know yet become bound in it, then the type set itself (write-once)
			want, wantX := "ok", "ok"
			for _, m := range s.members {
				mn, mv := s.member(m)
				// (the member lookup goes through the loader: a dependency loader at the root binds lazily)
				ref.lazyBind(s.l, mn)
				exact.lazyBind(s.l, mn)
				if _, known := ref.resolve(s.l, ref.key(mn)); !known && want == "ok" {
					want = ref.define(s.l, ref.key(mn), mv.String())
				}
				if _, known := exact.resolve(s.l, exact.key(mn)); !known && wantX == "ok" {
					wantX = exact.define(s.l, exact.key(mn), mv.String())
				}
			}
			if want == "ok" {
				want = ref.define(s.l, ref.key(s.name), s.val.String())
			}
			if wantX == "ok" {
				wantX = exact.define(s.l, exact.key(s.name), s.val.String())
			}
			switch {
			case out == "fault":
			case want == "rejected" && out == "ok":
				setFail(classOr("redefine-accepted", wantX == "ok"), fmt.Sprintf("%s: a different type set for a bound name was accepted", at))
			case want == "ok" && out != "ok":
				setFail(classOr("redefine-equal-rejected", wantX == "rejected"), fmt.Sprintf("%s: answered %s where the reference accepts", at, out))
			case want == "rejected" && !strings.HasPrefix(out, "reported PCORE_ATTEMPT_TO_REDEFINE"):
				setFail("redefine-accepted", fmt.Sprintf("%s: rejected with %s instead of a reported redefinition error", at, out))
			}
			if want == "ok" && out == "ok" {
				accepted = true
			}
		case "reg":
			r := safely(func() { px.RegisterResolvableType(s.val.build().(px.ResolvableType)) })
			out = r
			if r == "" {
				out = "ok"
			}
			queue = append(queue, s)
		case "rr":
			r := safely(func() { px.ResolveResolvables(ctx) })
			out = r
			if r == "" {
				out = "ok"
			}
			// every declared type is defined in this loader, in order of declaration; the first rejected one ends it
			want, wantX := "ok", "ok"
			for _, q := range queue {
				if want == "ok" {
					want = ref.define(s.l, ref.key(q.name), q.val.String())
				}
				if wantX == "ok" {
					wantX = exact.define(s.l, exact.key(q.name), q.val.String())
				}
			}
			queue = nil
			switch {
			case out == "fault":
			case want == "rejected" && out == "ok":
				setFail(classOr("redefine-accepted", wantX == "ok"), fmt.Sprintf("%s: a declared type with a different value for a bound name was accepted", at))
			case want == "ok" && out != "ok":
				setFail(classOr("redefine-equal-rejected", wantX == "rejected"), fmt.Sprintf("%s: answered %s where the reference accepts every declared type", at, out))
			case want == "rejected" && !strings.HasPrefix(out, "reported PCORE_ATTEMPT_TO_REDEFINE"):
				setFail("redefine-accepted", fmt.Sprintf("%s: rejected with %s instead of a reported redefinition error", at, out))
			}
			if want == "ok" && out == "ok" {
				accepted = true
			}
		case "disc":
			looked = true
			var found []px.TypedName
			pred := func(tn px.TypedName) bool {
				mk := tn.MapKey()
				if !strings.HasSuffix(mk, sfx) {
					return false
				}
				mk = mk[:len(mk)-len(sfx)]
				return keys[mk] && keyPred(s.pred, mk)
			}
			r := safely(func() { found = l.Discover(ctx, pred) })
			if r != "" {
				out = r
			} else {
				ks := make([]string, len(found))
				for i, tn := range found {
					ks[i] = sx.Str(strings.TrimSuffix(tn.MapKey(), sfx)).String()
				}
				out = "[" + strings.Join(ks, " ") + "]"
			}
			wk := ref.discover(s.l, func(k string) bool { return keyPred(s.pred, k) })
			for i, k := range wk {
				wk[i] = sx.Str(k).String()
			}
			if want := "[" + strings.Join(wk, " ") + "]"; out != want {
				setFail("discover-wrong", fmt.Sprintf("%s: discover answered %s, the reference %s", at, out, want))
			}
		}
		if out == "fault" {
			setFail("fault", fmt.Sprintf("%s: %s crashed instead of answering or reporting", at, s.op))
		}
		outs = append(outs, out)
		tags["op:"+s.op] = true
		if s.op == "disc" && strings.HasPrefix(out, "[") {
			tags[fmt.Sprintf("ans:list%d", strings.Count(out, "x"))] = true
		} else {
			tags["ans:"+strings.SplitN(out, " ", 2)[0]] = true
		}

		// the complete observable state after this step against the reference
		if fail == "" {
			observe(w, ref, exact, names, at, missed, setFail, classOr)
		}
	}

	// final own contents
	var sb strings.Builder
	sb.WriteString(strings.Join(outs, " ; "))
	sb.WriteString(" |")
	for i, l := range w.loaders {
		fmt.Fprintf(&sb, " %d:{", i)
		first := true
		for _, k := range sortedKeys {
			var e px.LoaderEntry
			if r := safely(func() { e = l.GetEntry(px.TypedNameFromMapKey(k + sfx)) }); r != "" || e == nil {
				continue
			}
			if !first {
				sb.WriteByte(' ')
			}
			first = false
			sb.WriteString(sx.Str(k).String())
			sb.WriteByte('=')
			if e.Value() == nil {
				sb.WriteByte('-')
			} else {
				sb.WriteString(canon(e.Value()))
			}
		}
		sb.WriteByte('}')
	}
	res := core.Result{Out: sb.String(), Pred: "ok", NonTrivial: accepted && looked}
	if fail != "" {
		res.Pred = fail
		res.NonTrivial = true
	}
	if outside {
		res.Pred = "n/a"
	}
	for i := range deps {
		if deps[i] != nil {
			tags["tree:dep"] = true
		}
	}
	if staticW {
		tags["tree:stw"] = true
	}
	for t := range tags {
		res.Tags = append(res.Tags, t)
	}
	sort.Strings(res.Tags)
	return res
}

// observe compares everything observable without side effects with the reference: own bindings (GetEntry),
// resolution (LoadEntry, HasEntry) of every loader for every name of the line.
func observe(w *world, ref, exact *refState, names []nameT, at string, missed map[string]bool,
	setFail func(string, string), classOr func(string, bool) string) {
	for li, l := range w.loaders {
		for _, n := range names {
			k := ref.key(n)
			if ref.ts[li] {
				// a type-set loader: its entry map holds no bindings and its LoadEntry caches misses (a side effect the
				// model would not see): only HasEntry is asked
				var has bool
				if r := safely(func() { has = l.HasEntry(n.tn()) }); r != "" {
					setFail("fault", fmt.Sprintf("%s: HasEntry crashed", at))
					return
				}
				if _, okW := ref.resolve(li, k); has != okW {
					setFail("resolve-wrong", fmt.Sprintf("after %s: through type-set loader %d HasEntry(%s) = %v, the reference %v", at, li, k, has, okW))
					return
				}
				continue
			}
			// own binding
			var e px.LoaderEntry
			if r := safely(func() { e = l.GetEntry(n.tn()) }); r != "" {
				setFail("fault", fmt.Sprintf("%s: GetEntry crashed", at))
				return
			}
			got, okG := "", false
			if e != nil && e.Value() != nil {
				got, okG = canon(e.Value()), true
			}
			want, okW := ref.own[li][k]
			wantX, okX := exact.own[li][exact.key(n)]
			if okG != okW || got != want {
				class := "write-once-broken" // a binding changed or vanished
				if !okW {
					class = "resolve-wrong" // a binding nobody made
				} else if !okG && e != nil && ref.deps[li] != nil {
					class = "dep-miss-sticky" // the dependency loader kept a cached miss where the last lookup owed it a binding
				} else if !okG && missed[fmt.Sprint(li, " ", k)] {
					class = "miss-sticky"
				}
				if class != "dep-miss-sticky" {
					class = classOr(class, okG == okX && got == wantX)
				}
				setFail(class, fmt.Sprintf("after %s: loader %d holds %q for %s, the reference %q", at, li, got, k, want))
				return
			}
			if ref.depRoot(li) >= 0 {
				// LoadEntry through a dependency loader writes (it binds lazily / caches the miss — a side effect the model
				// would not see): only HasEntry is asked
				var has bool
				if r := safely(func() { has = l.HasEntry(n.tn()) }); r != "" {
					setFail("fault", fmt.Sprintf("%s: HasEntry crashed", at))
					return
				}
				if _, okW := ref.resolve(li, k); has != okW {
					setFail("resolve-wrong", fmt.Sprintf("after %s: through loader %d (below a dependency loader) HasEntry(%s) = %v, the reference %v", at, li, k, has, okW))
					return
				}
				continue
			}
			// resolution
			var le px.LoaderEntry
			var has bool
			if r := safely(func() { le = l.LoadEntry(w.ctxs[li], n.tn()); has = l.HasEntry(n.tn()) }); r != "" {
				setFail("fault", fmt.Sprintf("%s: LoadEntry/HasEntry crashed", at))
				return
			}
			got, okG = "", false
			if le != nil && le.Value() != nil {
				got, okG = canon(le.Value()), true
			}
			want, okW = ref.resolve(li, k)
			wantX, okX = exact.resolve(li, exact.key(n))
			if okG != okW || got != want || has != okW {
				class := "resolve-wrong"
				if okW && !okG && missed[fmt.Sprint(li, " ", k)] {
					class = "miss-sticky"
				}
				setFail(classOr(class, okG == okX && got == wantX && has == okX),
					fmt.Sprintf("after %s: through loader %d %s resolves to %q (has=%v), the reference %q", at, li, k, got, has, want))
				return
			}
		}
	}
}

// ---- generators -----------------------------------------------------------------------------------------

func nm(ns, name, a string) string { return fmt.Sprintf("(n %s %s %s)", ns, sx.Str(name), a) }

func gen(g *core.G) {
	genTsAdd(g)
	genTsNest(g)
	genGoFn(g)
	// 1. exhaustive: all histories of length <= 3 (quick) / <= 4 (thorough) over a chain of three loaders,
	//    the names {a, A, b} and the steps {load, def v1, def v2, has} × name + discover
	var alphabet []string
	for l := 0; l < 3; l++ {
		for _, n := range []string{"a", "A", "b"} {
			x := nm("type", n, "r")
			alphabet = append(alphabet,
				fmt.Sprintf("(load %d %s)", l, x), fmt.Sprintf("(def %d %s (t 1))", l, x),
				fmt.Sprintf("(def %d %s (t 2))", l, x), fmt.Sprintf("(has %d %s)", l, x))
		}
		alphabet = append(alphabet, fmt.Sprintf("(disc %d all)", l))
	}
	maxLen := 3
	if g.Thorough() {
		maxLen = 4
	}
	chain := "(tree (p -1) (p 0) (p 1))"
	var rec func(prefix []string, depth int)
	rec = func(prefix []string, depth int) {
		if len(prefix) > 0 {
			g.Emit("hist " + chain + " (steps " + strings.Join(prefix, " ") + ")")
		}
		if depth == maxLen {
			return
		}
		for _, a := range alphabet {
			rec(append(prefix, a), depth+1)
		}
	}
	rec(nil, 0)
	// the same alphabet, length <= 2, on a fork-shaped tree (two children of one root, created by Context.Fork)
	for _, a := range alphabet {
		g.Emit("hist (tree (p -1) (f 0) (f 0)) (steps " + a + ")")
		for _, b := range alphabet {
			g.Emit("hist (tree (p -1) (f 0) (f 0)) (steps " + a + " " + b + ")")
		}
	}

	// the static loader as node 0 (it binds Integer): histories of length <= 2 (quick) / <= 3 (thorough) over
	// static <- 1 <- 2 and the names {Integer, integer, a}
	{
		var alpha []string
		for l := 0; l < 3; l++ {
			for _, n := range []string{"Integer", "integer", "a"} {
				x := nm("type", n, "r")
				alpha = append(alpha, fmt.Sprintf("(has %d %s)", l, x), fmt.Sprintf("(get %d %s)", l, x))
				if l > 0 {
					alpha = append(alpha, fmt.Sprintf("(load %d %s)", l, x), fmt.Sprintf("(def %d %s (t 1))", l, x))
				}
			}
			alpha = append(alpha, fmt.Sprintf("(disc %d all)", l))
		}
		var rec2 func(prefix []string)
		rec2 = func(prefix []string) {
			if len(prefix) > 0 {
				g.Emit("hist (tree (st) (p 0) (p 1)) (steps " + strings.Join(prefix, " ") + ")")
			}
			if len(prefix) == maxLen-1 {
				return
			}
			for _, a := range alpha {
				rec2(append(prefix, a))
			}
		}
		rec2(nil)
	}

	// a type-set loader as the leaf of a chain of depth 3: histories of length <= 3 (quick) / <= 4 (thorough) over
	// 0 <- 1 <- ts 2, the names {My::Foo, Foo, My::Baz} (a qualified member path, a member name, no member)
	{
		var alpha []string
		for l := 0; l < 3; l++ {
			for _, n := range []string{"My::Foo", "Foo", "My::Baz"} {
				x := nm("type", n, "r")
				alpha = append(alpha, fmt.Sprintf("(load %d %s)", l, x), fmt.Sprintf("(has %d %s)", l, x))
				if l < 2 {
					alpha = append(alpha, fmt.Sprintf("(def %d %s (t 7))", l, x))
				}
			}
			alpha = append(alpha, fmt.Sprintf("(disc %d all)", l))
		}
		var rec3 func(prefix []string)
		rec3 = func(prefix []string) {
			if len(prefix) > 0 {
				g.Emit("hist (tree (p -1) (p 0) (ts 1)) (steps " + strings.Join(prefix, " ") + ")")
			}
			if len(prefix) == maxLen {
				return
			}
			for _, a := range alpha {
				rec3(append(prefix, a))
			}
		}
		rec3(nil)
		// the type set's OWN name and the path My::My (IsParent / RelativeTo at their boundary: a name is not its own parent;
		// My::My is the name My relative to the type set): every history of length <= 2 (quick) / <= 3 (thorough), 27 steps
		var alphaOwn []string
		for l := 0; l < 3; l++ {
			for _, n := range []string{"My", "My::My", "My::Foo"} {
				x := nm("type", n, "r")
				alphaOwn = append(alphaOwn, fmt.Sprintf("(load %d %s)", l, x), fmt.Sprintf("(has %d %s)", l, x))
				if l < 2 {
					alphaOwn = append(alphaOwn, fmt.Sprintf("(def %d %s (t 7))", l, x))
				}
			}
			alphaOwn = append(alphaOwn, fmt.Sprintf("(disc %d all)", l))
		}
		var rec4 func(prefix []string)
		rec4 = func(prefix []string) {
			if len(prefix) > 0 {
				g.Emit("hist (tree (p -1) (p 0) (ts 1)) (steps " + strings.Join(prefix, " ") + ")")
			}
			if len(prefix) == maxLen-1 {
				return
			}
			for _, a := range alphaOwn {
				rec4(append(prefix, a))
			}
		}
		rec4(nil)
	}

	genDep(g, maxLen)
	genCase(g)
	genKey(g)
	genLfor(g)
	genStatic(g, maxLen)
	genHisto(g, maxLen)

	// 2. random histories (length 3..8, 9..16 or 40) over random trees of depth <= 3
	r := g.Rng
	names := []string{nm("type", "a", "r"), nm("type", "A", "r"), nm("type", "b", "r"), nm("type", "m::a", "r"), nm("type", "M::A", "r"),
		nm("type", "::a", "r"), nm("function", "a", "r"), nm("type", "a", "o")}
	vals := []string{"(t 1)", "(t 1)", "(t 2)", "(s 1)", "(s 2)", "(al x61 1)", "(al x41 1)", "(al x61 2)"}
	// volume: 1500 histories (quick), 6 x that (thorough: the exhaustive universes carry the thorough tier, and a long
	// history costs ~100 x a short one: every step is followed by the observation of every loader x every name)
	n := 1500
	if g.Thorough() {
		n = 9000
	}
	for i := 0; i < n; i++ {
		nl := 2 + r.Intn(3)
		var tree []string
		depth := []int{}
		static := r.Intn(4) == 0
		stw := static && r.Intn(2) == 0 // the static loader as a writable node
		for j := 0; j < nl; j++ {
			if static && j == 0 {
				if stw {
					tree = append(tree, "(stw)")
				} else {
					tree = append(tree, "(st)")
				}
				depth = append(depth, 0)
				continue
			}
			p := -1
			if static {
				p = 0
			}
			if j > 0 && !(static && j == 1) {
				for {
					p = r.Intn(j)
					if depth[p] < 3 {
						break
					}
				}
			}
			d := 1
			if p >= 0 {
				d = depth[p] + 1
			}
			depth = append(depth, d)
			kind := "p"
			if p >= 0 && r.Intn(3) == 0 {
				kind = "f"
			}
			tree = append(tree, fmt.Sprintf("(%s %d)", kind, p))
		}
		tsLeaf := !static && r.Intn(4) == 0
		if tsLeaf {
			tree = append(tree, fmt.Sprintf("(ts %d)", r.Intn(nl)))
			nl++
		}
		// a dependency loader over one to three of the loaders so far (never the static one), with up to two loaders below it
		dep := -1
		if !tsLeaf && !stw && r.Intn(3) == 0 {
			first := 0
			if static {
				first = 1
			}
			var mods []string
			for j, k := 0, 1+r.Intn(3); j < k; j++ {
				mods = append(mods, fmt.Sprintf("(%s %d)", core.Pick(r, []string{"x6d", "x6d", "x6e", "x", "x4d"}), first+r.Intn(nl-first)))
			}
			tree = append(tree, "(dep "+strings.Join(mods, " ")+")")
			dep = nl
			nl++
			for j, k := 0, r.Intn(3); j < k; j++ {
				p := dep
				if j == 1 && r.Intn(2) == 0 {
					p = dep + 1
				}
				tree = append(tree, fmt.Sprintf("(%s %d)", core.Pick(r, []string{"p", "f"}), p))
				nl++
			}
		}
		// a few names per history so that they collide often
		k := 2 + r.Intn(3)
		local := make([]string, k)
		for j := range local {
			local[j] = names[r.Intn(len(names))]
		}
		if !tsLeaf && r.Intn(3) == 0 {
			local[r.Intn(k)] = nm("Type", core.Pick(r, []string{"a", "A", "b"}), "r") // the namespace folds too
		}
		if !tsLeaf && !stw && r.Intn(4) == 0 {
			// letters outside ASCII: É/é, the Kelvin sign (lower case: the ASCII k), İ (lower case: the ASCII i), ǅ (title
			// case), Ⱥ (its lower case is longer in UTF-8)
			for j := 0; j < k; j++ {
				if r.Intn(2) == 0 {
					local[j] = nm("type", core.Pick(r, caseNames), "r")
				}
			}
		}
		if static && !stw {
			local[0] = core.Pick(r, []string{nm("type", "Integer", "r"), nm("type", "integer", "r"), nm("type", "::INTEGER", "r")})
		}
		if tsLeaf {
			local[0] = core.Pick(r, []string{nm("type", "My::Foo", "r"), nm("type", "my::FOO", "r"), nm("type", "Foo", "r"), nm("type", "My::Baz", "r"), nm("type", "My::My::Bar", "r"), nm("function", "My::Foo", "r"), nm("type", "My", "r"), nm("type", "my::MY", "r")})
			if k > 1 {
				local[1] = core.Pick(r, []string{nm("type", "bar", "r"), nm("type", "My::Bar", "r"), nm("type", "foo", "o")})
			}
		}
		if !tsLeaf && !stw && r.Intn(3) == 0 {
			// names a type set (Zoo, M) and its members provide
			local[r.Intn(k)] = nm("type", core.Pick(r, []string{"Zoo::Car", "zoo::car", "Zoo", "ZOO::Plane", "M::Car", "M"}), "r")
		}
		if dep >= 0 {
			// names that name a module (or none), one ill-formed
			local[r.Intn(k)] = core.Pick(r, []string{nm("type", "m::a", "r"), nm("type", "M::A", "r"), nm("type", "n::a", "r"), nm("type", "x::a", "r"), nm("type", "m::1a", "r"), nm("type", "::m::a", "r")})
		}
		var steps []string
		// half of the histories short (a failure is then reported with a short witness), a third medium, a sixth long
		hl := 40
		switch i % 6 {
		case 0, 2, 4:
			hl = 3 + r.Intn(6)
		case 1, 3:
			hl = 9 + r.Intn(8)
		}
		for j := 0; j < hl; j++ {
			l := r.Intn(nl)
			x := local[r.Intn(k)]
			op := r.Intn(12)
			if !tsLeaf && !stw && r.Intn(16) == 0 {
				op = 12
			}
			if static && !stw && l == 0 && (op < 6 || op == 9 || op == 11) {
				op = 6 + r.Intn(3) // the static loader is only asked
			}
			if l == dep && (op >= 3 && op <= 5 || op == 9 || op == 11) && r.Intn(40) != 0 {
				op = r.Intn(3) // definitions addressed to the dependency loader itself are rare (outside the reference)
			}
			switch op {
			case 0, 1, 2:
				steps = append(steps, fmt.Sprintf("(load %d %s)", l, x))
			case 3, 4, 5:
				steps = append(steps, fmt.Sprintf("(def %d %s %s)", l, x, vals[r.Intn(len(vals))]))
			case 6:
				steps = append(steps, fmt.Sprintf("(has %d %s)", l, x))
			case 7:
				steps = append(steps, fmt.Sprintf("(get %d %s)", l, x))
			case 8:
				steps = append(steps, fmt.Sprintf("(disc %d %s)", l, core.Pick(r, []string{"all", "all", "qual", "type"})))
			case 9:
				steps = append(steps, fmt.Sprintf("(add %d %s %d)", l, core.Pick(r, []string{"x61", "x41", "x62", "x6d3a3a61"}), 1+r.Intn(2)))
			case 10:
				steps = append(steps, fmt.Sprintf("(reg %s %d)", core.Pick(r, []string{"x61", "x41", "x62", "x6d3a3a61"}), 1+r.Intn(2)))
			case 11:
				steps = append(steps, fmt.Sprintf("(rr %d)", l))
			case 12:
				if static && l == 0 {
					l = 1 + r.Intn(nl-1)
				}
				ms := core.Pick(r, []string{"(x436172 1)", "(x436172 2)", "(x506c616e65 1)", "(x436172 1) (x506c616e65 2)", "(x506c616e65 2) (x436172 1)"})
				steps = append(steps, fmt.Sprintf("(addts %d %s %d %s)", l, core.Pick(r, []string{"x5a6f6f", "x5a6f6f", "x4d"}), r.Intn(2), ms))
			}
		}
		g.Emit("hist (tree " + strings.Join(tree, " ") + ") (steps " + strings.Join(steps, " ") + ")")
	}

	// 3. malformed stream
	for _, l := range []string{
		"hist (tree (p -1)) (steps (load 0 (n type xc3 r)))", "hist (tree (p -1)) (steps (add 0 xff 1))",
		"hist (tree (p -1) (stw)) (steps)", "hist (tree (stw)) (steps (reg x6120 1))", "hist (tree (st)) (steps (rr 0))", "hist (tree (p -1)) (steps (rr 1))",
		"hist (tree (p -1)) (steps (reg x61))", "hist (tree (stw) (ts 0)) (steps)",
		"hist (tree (p -1)) (steps (addts 0 x5a6f6f 0))", "hist (tree (p -1)) (steps (addts 0 x7a6f6f 0 (x436172 1)))", "hist (tree (p -1)) (steps (addts 0 x5a6f6f 0 (x436172 1) (x434152 2)))",
		"hist (tree (p -1) (ts 0)) (steps (addts 0 x5a6f6f 0 (x436172 1)))", "hist (tree (stw)) (steps (addts 0 x5a6f6f 0 (x436172 1)))", "hist (tree (st) (p 0)) (steps (addts 0 x5a6f6f 0 (x436172 1)))",
		"hist (tree) (steps)", "hist (tree (p 0)) (steps)", "hist (tree (f -1)) (steps)", "hist (tree (p -1)) (steps (load 1 " + names[0] + "))",
		"hist (tree (p -1)) (steps (frob 0))", "hist (tree (p -1))", "nop", "hist (tree (p -1)) (steps (def 0 " + names[0] + " (q 1)))",
		"hist (tree (p -1)) (steps (disc 0 none))", "hist (tree (p -1)) (steps (load 0 (n type zz r)))",
	} {
		g.Emit(l)
	}
}
