package c12

import (
	"fmt"
	"strings"
	"sync/atomic"

	"verif/harness/core"
	"verif/harness/sx"

	"github.com/lyraproj/pcore/px"
)

// Implementation-only op (generated as `@tsadd MASK CASE HOW DEPTH`): a TYPE SET defined after lookups that missed.
//
//	MASK   bit 0: the member Car, bit 1: the member Plane, bit 2: the type set's own name, bit 3: a non-member Zoo::Nope —
//	       the names looked up (and missed) BEFORE the definition
//	CASE   0 as declared | 1 lower case | 2 upper case     the spelling of those lookups
//	HOW    load | has | entry                              px.Load / Loader.HasEntry / Loader.LoadEntry
//	DEPTH  0: lookups and definition in the same context; 1: the lookups in a fork of it (they are cached in the fork's loader);
//	       2: the definition in a fork, the lookups before in its parent
//
// Then `px.AddTypes(ctx, TypeSet Zoo<n> {Car = Integer[1,1], Plane = Integer[2,2]})`.  "A failed lookup followed by a
// definition makes the name resolvable": afterwards the type set and both members must be found (every spelling), HasEntry must
// say so, Discover must list each exactly once, and the non-member must stay absent.  Classes: ts-member-sticky-miss,
// ts-discover, ts-nonmember-found, fault.
var tsCounter int64

func execTsAdd(c px.Context, args []sx.Sexp) core.Result {
	if len(args) != 4 {
		return core.Result{Out: "bad-op", Pred: "n/a"}
	}
	mask, err1 := args[0].AsInt()
	cs, err2 := args[1].AsInt()
	depth, err3 := args[3].AsInt()
	how := args[2].Atom
	if err1 != nil || err2 != nil || err3 != nil || args[2].IsList {
		return core.Result{Out: "bad-op", Pred: "n/a"}
	}
	n := atomic.AddInt64(&tsCounter, 1)
	ts := fmt.Sprintf("Zoo%d", n)
	spell := func(s string) string {
		switch cs {
		case 1:
			return strings.ToLower(s)
		case 2:
			return strings.ToUpper(s)
		}
		return s
	}
	names := []string{ts + "::Car", ts + "::Plane", ts, ts + "::Nope"}
	var fails []string
	class := ""
	fail := func(cl, format string, xs ...interface{}) {
		if class == "" {
			class = cl
		}
		fails = append(fails, fmt.Sprintf(format, xs...))
	}
	lookup := func(ctx px.Context, name string) bool {
		tn := px.NewTypedName(px.NsType, name)
		switch how {
		case "has":
			return ctx.Loader().HasEntry(tn)
		case "entry":
			e := ctx.Loader().LoadEntry(ctx, tn)
			return e != nil && e.Value() != nil
		}
		_, ok := px.Load(ctx, tn)
		return ok
	}
	out := "ok"
	r := safely(func() {
		px.DoWithContext(c.Fork(), func(base px.Context) {
			before, defIn := base, base
			switch depth {
			case 1:
				before = base.Fork()
			case 2:
				defIn = base.Fork()
			}
			for i, nm := range names {
				if mask&(1<<uint(i)) != 0 && lookup(before, spell(nm)) {
					fail("ts-nonmember-found", "%s found before anything was defined", spell(nm))
				}
			}
			src := fmt.Sprintf("TypeSet[{name => '%s', version => '1.0.0', pcore_version => '1.0.0', types => {Car => Integer[1,1], Plane => Integer[2,2]}}]", ts)
			px.DoWithContext(defIn, func(dc px.Context) { px.AddTypes(dc, dc.ParseType(src)) })
			after := defIn
			for _, sp := range []func(string) string{func(s string) string { return s }, strings.ToLower, strings.ToUpper} {
				for i, nm := range names[:3] {
					tn := px.NewTypedName(px.NsType, sp(nm))
					v, ok := px.Load(after, tn)
					if !ok {
						fail("ts-member-sticky-miss", "%s is not resolvable after the type set was defined (looked up before: mask %d)", sp(nm), mask)
						continue
					}
					if i < 2 {
						want := fmt.Sprintf("Integer[%d, %d]", i+1, i+1)
						if a, isAlias := v.(interface{ ResolvedType() px.Type }); !isAlias || a.ResolvedType().String() != want {
							fail("ts-member-sticky-miss", "%s resolves to %v, not to the member %s", sp(nm), v, want)
						}
					}
					if !after.Loader().HasEntry(tn) {
						fail("ts-member-sticky-miss", "HasEntry(%s) is false after the type set was defined", sp(nm))
					}
				}
				if lookup(after, sp(names[3])) {
					fail("ts-nonmember-found", "%s found although the type set has no such member", sp(names[3]))
				}
			}
			prefix := strings.ToLower(ts)
			count := map[string]int{}
			for _, tn := range after.Loader().Discover(after, func(tn px.TypedName) bool { return strings.HasPrefix(strings.ToLower(tn.Name()), prefix) }) {
				count[strings.ToLower(tn.Name())]++
			}
			for _, nm := range names[:3] {
				if count[strings.ToLower(nm)] != 1 {
					fail("ts-discover", "Discover lists %s %d times", nm, count[strings.ToLower(nm)])
				}
			}
			if len(count) != 3 {
				fail("ts-discover", "Discover lists %d names below %s, expected 3: %v", len(count), ts, count)
			}
		})
	})
	if r != "" {
		out = r
		fail("fault", "raised %s", r)
	}
	res := core.Result{Out: out, Pred: "ok", NonTrivial: mask != 0, Tags: []string{"tsadd", "tsadd-how:" + how}}
	if len(fails) > 0 {
		res.Pred = "FAIL " + class + " " + fails[0]
	}
	return res
}

func genTsAdd(g *core.G) {
	for mask := 0; mask < 16; mask++ {
		for cs := 0; cs < 3; cs++ {
			for _, how := range []string{"load", "has", "entry"} {
				for depth := 0; depth < 3; depth++ {
					g.Emit(fmt.Sprintf("@tsadd %d %d %s %d", mask, cs, how, depth))
				}
			}
		}
	}
}
