package c20

import (
	"fmt"
	"math"
	"math/rand"
	"strconv"
	"strings"
	"unicode/utf8"

	"verif/harness/core"
	"verif/harness/sx"
)

// ---- value pools ----------------------------------------------------------------------------------------------------

func vi(i int64) sx.Sexp       { return sx.T("i", sx.Int(i)) }
func vf(f float64) sx.Sexp     { return sx.T("f", sx.A(strconv.FormatUint(math.Float64bits(f), 10))) }
func vs(s string) sx.Sexp      { return sx.T("s", sx.Str(s)) }
func vb(b bool) sx.Sexp        { return sx.T("b", sx.Bool(b)) }
func vx(s string) sx.Sexp      { return sx.T("x", sx.Str(s)) }
func vr(s string) sx.Sexp      { return sx.T("r", sx.Str(s)) }
func va(xs ...sx.Sexp) sx.Sexp { return sx.T("a", xs...) }
func vh(kv ...sx.Sexp) sx.Sexp {
	xs := []sx.Sexp{}
	for i := 0; i+1 < len(kv); i += 2 {
		xs = append(xs, sx.L(kv[i], kv[i+1]))
	}
	return sx.T("h", xs...)
}

var vu = sx.T("u")
var vd = sx.T("d")

var intPool = []int64{0, 1, -1, 5, -5, 9, 10, 42, 255, -255, 256, 65, 97, 0x1F600, 0xD800, 0x110000, 1<<32 + 65, -65,
	math.MaxInt64, math.MinInt64, math.MinInt64 + 1, 1 << 31, -(1 << 31), 1000000, 123456789, 8, 7, 16, -16, 4095}

var floatPool = []float64{0, math.Copysign(0, -1), 1, -1, 1.5, -2.5, 255, 255.5, 0.1, 3.999, 1e20, 1e-7, 123456.789, 100000, 1000000, 1e15,
	math.MaxFloat64, math.SmallestNonzeroFloat64, math.NaN(), math.Inf(1), math.Inf(-1), 1e300, -1e19, 9.223372036854775e18, 0.5, 12345678}

var strPool = []string{"", "a", "ab", "hello world", "Hello::wOrld::x", "  padded \t", "é", "日本語", "a'b", `a\b`, `"q"`, "line\nfeed",
	"tab\there", "\x01ctl", "$var", "�", "x�y", "😀", "ß", "%d %!", "0", "-12", "àÉî::ôU", "::", "a::", "ÿµ", " nbsp ", "ǆemal", "İi", "ﬁ", "ǅ::ǈx", "ΑΒγδ σς", "привет::МИР", "ᾳ ᾼ", "ⅰⅱ Ⅲ", "ｆｕｌｌ", "𐐨𐐀 deseret", "ſtraße", "Ǉ", "ɐʞ", "ꙁꙀ"}

var badStrPool = []string{"\xff\xfe", "a\xc3", "\xed\xa0\x80"}

var binPool = []string{"", "a", "ab", "abc", "\x00\xff\xfe", "hello world binary data >>>???", "\xfb\xff"}

var rxPool = []string{"", "a.b", "a/b", `^\d+$`, "a\tb", "é+", `a\\b`, "\x01"}

func containerPool() []sx.Sexp {
	return []sx.Sexp{
		va(), va(vi(1)), va(vi(1), vi(2), vi(3)), va(vs("a"), vi(1), vb(true)), va(va(vi(1), vi(2)), va(vi(3))),
		va(va(), va(va())), va(vi(1), va(vi(2), va(vi(3)))), va(vu, vd), va(vh(vs("a"), vi(1))), va(vf(1.5)),
		va(vs("it's"), vs("a\nb"), vx("abc"), vr("a/b")), va(vi(255), vi(-1)),
		vh(), vh(vs("a"), vi(1)), vh(vs("a"), vi(1), vs("b"), vi(2)), vh(vi(1), vs("x")), vh(vs("a"), va(vi(1), vi(2))),
		vh(vs("a"), vh(vs("b"), vh(vs("c"), vi(1)))), vh(va(vi(1)), vi(2)), vh(vs("k"), vu, vs("l"), vd), vh(vs("f"), vf(2.5)),
		vh(vh(vs("k"), vi(1)), vh()), va(vh(), va(), vh(vs("x"), va())),
	}
}

func scalarPool() []sx.Sexp {
	out := []sx.Sexp{vu, vd, vb(true), vb(false)}
	for _, i := range intPool {
		out = append(out, vi(i))
	}
	for _, f := range floatPool {
		out = append(out, vf(f))
	}
	for _, s := range strPool {
		out = append(out, vs(s))
	}
	for _, s := range binPool {
		out = append(out, vx(s))
	}
	for _, s := range rxPool {
		out = append(out, vr(s))
	}
	return out
}

// the 40 values of the thorough tier's exhaustive product
func thoroughValues() []sx.Sexp {
	return []sx.Sexp{
		vi(0), vi(1), vi(-1), vi(255), vi(-255), vi(42), vi(math.MaxInt64), vi(math.MinInt64), vi(65), vi(0x1F600), vi(-65), vi(8),
		vf(0), vf(1.5), vf(255), vf(-2.5), vf(1e20), vf(1e-7), vf(math.NaN()), vf(math.Inf(-1)), vf(123456.789),
		vs(""), vs("ab"), vs("Hello::wOrld"), vs("é'\\"), vs("a\nb�"), vs("  日本  "),
		vb(true), vb(false), vu, vd, vx("abc"), vx("\x00\xff"), vr("a/b"),
		va(), va(vi(1), vs("a"), va(vi(2))), va(vi(10), vi(255)), vh(), vh(vs("a"), vi(1), vs("b"), va(vi(2))), vh(vi(1), vh(vs("x"), vu)),
	}
}

// ---- what the Lean model covers (everything else is sent with a leading '@': implementation only) --------------------------

// the model maps case with Go's own table (regenerated from $GOROOT/src/unicode/tables.go): every valid string is modelled
func caseModelled(s string) bool { return true }

func scalarModelled(e sx.Sexp, d dir) bool {
	if !d.ok {
		return true // the parse error is modelled
	}
	switch e.Tag() {
	case "i", "b":
		return strings.IndexByte("eEfgG", d.letter) < 0
	case "f":
		u, _ := strconv.ParseUint(e.Args()[0].Atom, 10, 64)
		if fl := math.Float64frombits(u); math.IsNaN(fl) || math.IsInf(fl, 0) {
			return false // not instances of Float: the implementation falls back to the default format
		}
		return strings.IndexByte("eEfgGsp", d.letter) < 0
	case "s":
		s := e.Args()[0].MustStr()
		if !utf8.ValidString(s) {
			return false
		}
		if strings.IndexByte("cCud", d.letter) >= 0 {
			return caseModelled(s)
		}
	case "x":
		// %s of bytes that are not UTF-8 is a reported failure on both sides; valid bytes are text
		return true
	case "r":
		return utf8.ValidString(e.Args()[0].MustStr())
	}
	return true
}

func modelled(e sx.Sexp, m []entry, entryMode bool) bool {
	tag := e.Tag()
	if !isContainerTag(tag) && !entryMode {
		if len(m) == 1 && m[0].key == "self" {
			return scalarModelled(e, m[0].n.d)
		}
		return scalarModelled(e, lookup(m, tag, nil).d)
	}
	if len(m) == 1 && m[0].key == "self" {
		return false
	}
	ltag := tag
	if entryMode {
		ltag = "a"
	}
	n := lookup(m, ltag, nil)
	if !n.d.ok {
		return true
	}
	cf := defaultCF
	if n.hasCf {
		cf = n.cf
	}
	child := func(ce sx.Sexp) bool {
		if isContainerTag(ce.Tag()) {
			return modelled(ce, m, false)
		}
		return modelled(ce, cf, false)
	}
	if entryMode {
		return child(e.List[0]) && child(e.List[1])
	}
	if tag == "a" {
		for _, k := range e.Args() {
			if !child(k) {
				return false
			}
		}
		return true
	}
	if n.d.letter == 'a' {
		an := lookup(m, "a", nil)
		if !an.d.ok {
			return true
		}
		acf := defaultCF
		if an.hasCf {
			acf = an.cf
		}
		for _, kv := range e.Args() {
			if !modelled(kv, acf, true) {
				return false
			}
		}
		return true
	}
	for _, kv := range e.Args() {
		if !child(kv.List[0]) || !child(kv.List[1]) {
			return false
		}
	}
	return true
}

// ---- the float oracle: fmt.Sprintf on the format strings the code hands to fmt -----------------------------------------

func stripDelims(s string) string {
	return strings.Map(func(r rune) rune {
		if strings.ContainsRune("[{<(|", r) {
			return -1
		}
		return r
	}, s)
}

// unParse of the Format record of a parsed directive with the given changes (Go twin of the model's unParse)
func unParseDir(d dir, letter byte, withoutWidth bool) string {
	b := "%"
	zero, left, alt, width := d.zero, d.minus, d.sharp, d.width
	if withoutWidth {
		zero, left, alt, width = false, false, false, -1
	}
	if zero {
		b += "0"
	}
	plus := byte(0)
	if d.plus {
		plus = '+'
	} else if d.space {
		plus = ' '
	}
	if plus != 0 {
		b += string(plus)
	}
	if left {
		b += "-"
	}
	if ld := d.ldelim(); ld != 0 && ld != plus {
		b += string(ld)
	}
	if alt {
		b += "#"
	}
	if width >= 0 {
		b += strconv.Itoa(width)
	}
	if d.prec >= 0 {
		b += "." + strconv.Itoa(d.prec)
	}
	return b + string(letter)
}

func floatOracle(d dir, f float64) sx.Sexp {
	fs := []string{stripDelims(d.raw), stripDelims(unParseDir(d, d.letter, true)), stripDelims(unParseDir(d, 'e', false)),
		stripDelims(unParseDir(d, 'E', false)), "%g", "%#g", "%e", "%#e"}
	seen := map[string]bool{}
	xs := []sx.Sexp{}
	for _, fm := range fs {
		if seen[fm] {
			continue
		}
		seen[fm] = true
		xs = append(xs, sx.L(sx.Str(fm), sx.Str(fmt.Sprintf(fm, f))))
	}
	return sx.L(xs...)
}

// a top-level Integer/Float/Boolean under a single directive whose rendering needs float digits: send it to the model
// with the oracle instead of implementation-only
func emitWithOracle(g *core.G, ctx sx.Sexp, v sx.Sexp) bool {
	mode := ctx.Tag()
	if mode != "kind" && mode != "self" {
		return false
	}
	d := parseDir(ctx.Args()[0].MustStr())
	if !d.ok {
		return false
	}
	var f float64
	ofint := sx.A("-")
	switch v.Tag() {
	case "f":
		u, _ := strconv.ParseUint(v.Args()[0].Atom, 10, 64)
		f = math.Float64frombits(u)
		if math.IsNaN(f) || math.IsInf(f, 0) {
			return false
		}
	case "i":
		f = float64(v.Args()[0].MustInt())
		ofint = sx.A(strconv.FormatUint(math.Float64bits(f), 10))
	case "b":
		if v.Args()[0].MustBool() {
			f = 1
		}
		ofint = sx.A(strconv.FormatUint(math.Float64bits(f), 10))
	default:
		return false
	}
	g.Emit("fmtf " + ctx.String() + " " + v.String() + " " + ofint.String() + " " + floatOracle(d, f).String())
	return true
}

func emitFmt(g *core.G, ctx sx.Sexp, v sx.Sexp) {
	mode := ctx.Tag()
	in := false
	switch mode {
	case "kind":
		n := newNode(ctx.Args()[0].MustStr())
		k := kindKey(v.Tag())
		in = modelled(v, []entry{{key: k, n: n}}, false)
	case "self":
		n := newNode(ctx.Args()[0].MustStr())
		in = modelled(v, []entry{{key: "self", n: n}}, false)
	case "map":
		in = mapValid(ctx) && modelled(v, entriesOfNoType(ctx.Args()), false)
	case "mmap":
		in = mapValid(ctx) && mergedModelled(v, entriesOfNoType(ctx.Args()))
	}
	line := "fmt " + ctx.String() + " " + v.String()
	if !in {
		if emitWithOracle(g, ctx, v) {
			return
		}
		line = "@" + line
	}
	g.Emit(line)
}

// mergedModelled: which format applies where is decided by the merge, so the condition is global — no float value, text
// that is valid UTF-8, and no directive with a float letter anywhere in the user's map (an Integer under %e is a float)
func mergedModelled(v sx.Sexp, m []entry) bool {
	var okv func(e sx.Sexp) bool
	okv = func(e sx.Sexp) bool {
		switch e.Tag() {
		case "f":
			return false
		case "s", "r":
			return utf8.ValidString(e.Args()[0].MustStr()) && (e.Tag() == "r" || caseModelled(e.Args()[0].MustStr()))
		case "a":
			for _, k := range e.Args() {
				if !okv(k) {
					return false
				}
			}
		case "h":
			for _, kv := range e.Args() {
				if !okv(kv.List[0]) || !okv(kv.List[1]) {
					return false
				}
			}
		}
		return true
	}
	var okm func(m []entry) bool
	okm = func(m []entry) bool {
		for _, e := range m {
			if e.n.d.ok && strings.IndexByte("eEfgG", e.n.d.letter) >= 0 {
				return false
			}
			if e.n.hasCf && !okm(e.n.cf) {
				return false
			}
		}
		return true
	}
	return okv(v) && okm(m) && mmapInModel(m, 1)
}

// a map with an invalid directive anywhere raises while the map is built; the model parses lazily — keep those impl-only
func mapValid(ctx sx.Sexp) bool { return !anyInvalid(entriesOfNoType(ctx.Args())) }

func entriesOfNoType(xs []sx.Sexp) []entry {
	m := make([]entry, len(xs))
	for i, kv := range xs {
		n := newNode(kv.List[1].List[0].MustStr())
		f := kv.List[1]
		n.sep, n.hasSep = strOpt(f.List[1])
		n.sep2, n.hasSep2 = strOpt(f.List[2])
		if f.List[3].IsList {
			n.hasCf = true
			n.cf = entriesOfNoType(f.List[3].List)
		}
		m[i] = entry{key: kv.List[0].Atom, n: n}
	}
	return m
}

func ctx1(mode, directive string) sx.Sexp { return sx.T(mode, sx.Str(directive)) }

// ---- random directives ------------------------------------------------------------------------------------------------------

func randFlags(r *rand.Rand) string {
	fl := flagSubset(r.Intn(32))
	if r.Intn(4) == 0 {
		fl += delimFlags[1+r.Intn(5)]
	}
	b := []byte(fl)
	r.Shuffle(len(b), func(i, j int) { b[i], b[j] = b[j], b[i] })
	return string(b)
}

func randDirective(r *rand.Rand, kind string) string {
	s := dirSpec{flags: randFlags(r), width: -1, prec: -1}
	if r.Intn(3) != 0 {
		s.width = widths[1+r.Intn(3)]
		if r.Intn(4) == 0 {
			s.width = 1 + r.Intn(30)
		}
	}
	if r.Intn(3) == 0 {
		s.prec = precs[1+r.Intn(4)]
		if r.Intn(4) == 0 {
			s.prec = r.Intn(20)
		}
	}
	docs := documentedDoc[kind]
	if r.Intn(10) < 8 && len(docs) > 0 && len(docs) < 52 {
		s.letter = docs[r.Intn(len(docs))]
	} else {
		s.letter = letters[r.Intn(len(letters))]
	}
	return s.String()
}

func randScalar(r *rand.Rand) sx.Sexp {
	switch r.Intn(12) {
	case 0, 1, 2:
		if r.Intn(3) == 0 {
			return vi(r.Int63n(1<<uint(1+r.Intn(62))) * int64(1-2*r.Intn(2)))
		}
		return vi(intPool[r.Intn(len(intPool))])
	case 3, 4:
		return vf(floatPool[r.Intn(len(floatPool))])
	case 5, 6, 7:
		if r.Intn(20) == 0 {
			return vs(badStrPool[r.Intn(len(badStrPool))])
		}
		return vs(strPool[r.Intn(len(strPool))])
	case 8:
		return vb(r.Intn(2) == 0)
	case 9:
		if r.Intn(2) == 0 {
			return vu
		}
		return vd
	case 10:
		return vx(binPool[r.Intn(len(binPool))])
	}
	return vr(rxPool[r.Intn(len(rxPool))])
}

func randValue(r *rand.Rand, depth int) sx.Sexp {
	if depth <= 0 || r.Intn(3) == 0 {
		return randScalar(r)
	}
	n := r.Intn(4)
	if r.Intn(2) == 0 {
		xs := []sx.Sexp{}
		for i := 0; i < n; i++ {
			xs = append(xs, randValue(r, depth-1))
		}
		return va(xs...)
	}
	xs := []sx.Sexp{}
	seen := map[string]bool{}
	for i := 0; i < n; i++ {
		k := randScalar(r)
		if r.Intn(6) == 0 {
			k = randValue(r, depth-1)
		}
		if k.Tag() == "f" || seen[k.String()] {
			continue
		}
		seen[k.String()] = true
		xs = append(xs, k, randValue(r, depth-1))
	}
	return vh(xs...)
}

var seps = []string{",", ";", "", " | ", "→", ": "}

func randNode(r *rand.Rand, key string, depth int) sx.Sexp {
	kind := "i"
	switch key {
	case "arr", "coll":
		kind = "a"
	case "hash":
		kind = "h"
	case "str":
		kind = "s"
	case "bool":
		kind = "b"
	case "bin":
		kind = "x"
	case "float":
		kind = "f"
	case "dflt":
		kind = "d"
	case "undef":
		kind = "u"
	case "regexp":
		kind = "r"
	case "any", "scalar":
		kind = []string{"i", "s", "a", "h"}[r.Intn(4)]
	}
	d := randDirective(r, kind)
	if (kind == "a" || kind == "h") && r.Intn(3) != 0 {
		// mostly non-alt, supported container formats
		s := dirSpec{flags: "", width: -1, prec: -1, letter: documentedDoc[kind][r.Intn(len(documentedDoc[kind]))]}
		if r.Intn(3) == 0 {
			s.flags = delimFlags[r.Intn(6)]
		}
		if r.Intn(4) == 0 {
			s.flags += " "
		}
		if r.Intn(8) == 0 {
			s.flags += "#"
		}
		if r.Intn(5) == 0 {
			s.width = 1 + r.Intn(20)
		}
		d = s.String()
	}
	sep, sep2, cf := sx.A("-"), sx.A("-"), sx.A("-")
	if r.Intn(3) == 0 {
		sep = sx.Str(seps[r.Intn(len(seps))])
	}
	if r.Intn(3) == 0 {
		sep2 = sx.Str(seps[r.Intn(len(seps))])
	}
	if depth > 0 && r.Intn(2) == 0 {
		cf = randMapEntries(r, depth-1)
	}
	return sx.L(sx.Str(d), sep, sep2, cf)
}

func randMapEntries(r *rand.Rand, depth int) sx.Sexp {
	n := r.Intn(4)
	xs := []sx.Sexp{}
	seen := map[string]bool{}
	for i := 0; i < n; i++ {
		k := keyNames[r.Intn(len(keyNames))]
		if seen[k] {
			continue
		}
		seen[k] = true
		xs = append(xs, sx.L(sx.A(k), randNode(r, k, depth)))
	}
	return sx.L(xs...)
}

func randMapCtx(r *rand.Rand) sx.Sexp {
	es := randMapEntries(r, 2)
	return sx.T("map", es.List...)
}

// randMergedCtx: a user map as new(String, v, map) takes it — 1 to 4 distinct keys out of all 16 (the defaults' own keys
// among them on purpose: an entry with a default's key is MERGED with it), container entries with string_formats
func randMergedCtx(r *rand.Rand) sx.Sexp {
	n := 1 + r.Intn(4)
	xs := []sx.Sexp{}
	seen := map[string]bool{}
	pool := allKeyNames
	if r.Intn(2) == 0 {
		pool = []string{"arr", "hash", "any", "numeric", "int", "str", "scalar", "coll", "float", "bin"}
	}
	for i := 0; i < n; i++ {
		k := pool[r.Intn(len(pool))]
		if seen[k] {
			continue
		}
		seen[k] = true
		key := k
		if k == "object" || k == "type" {
			key = "any"
		}
		xs = append(xs, sx.L(sx.A(k), randNode(r, key, 2)))
	}
	return sx.T("mmap", xs...)
}

// ---- generator ---------------------------------------------------------------------------------------------------------------

func gen(g *core.G) {
	r := g.Rng
	scalars := scalarPool()
	conts := containerPool()

	// (1) exhaustive small universe.  quick: every letter, plain and with three flag/width/precision shapes, on 24 values;
	//     thorough: the whole grammar (every flag subset × width × precision × letter) on 40 values, plus the delimiter flags
	if !g.Thorough() {
		small := []sx.Sexp{vi(0), vi(255), vi(-5), vi(math.MinInt64), vf(1.5), vf(255), vs("ab"), vs("é'::b"), vb(true), vb(false), vu, vd,
			vx("abc"), vr("a/b"), va(), va(vi(1), vs("a")), va(va(vi(1)), vh(vs("k"), vi(2))), vh(), vh(vs("a"), vi(1)), vh(vi(1), va(vi(2))),
			vi(65), vs(""), vf(-2.5), vx("\x00\xff")}
		shapes := []dirSpec{{"", -1, -1, 0}, {"#", 8, -1, 0}, {"-", 6, 2, 0}, {"0+", 7, -1, 0}, {" <", 4, 0, 0}}
		for _, v := range small {
			for _, sh := range shapes {
				for i := 0; i < len(letters); i++ {
					sh.letter = letters[i]
					emitFmt(g, ctx1("kind", sh.String()), v)
				}
			}
		}
	} else {
		for _, v := range thoroughValues() {
			for mask := 0; mask < 32; mask++ {
				for _, w := range widths {
					for _, p := range precs {
						for i := 0; i < len(letters); i++ {
							emitFmt(g, ctx1("kind", dirSpec{flagSubset(mask), w, p, letters[i]}.String()), v)
						}
					}
				}
			}
		}
		for vi2, v := range thoroughValues() {
			if vi2%4 != 0 {
				continue
			}
			for mask := 0; mask < 32; mask++ {
				for _, dl := range delimFlags[1:] {
					for _, w := range []int{-1, 5} {
						for _, p := range []int{-1, 3} {
							for i := 0; i < len(letters); i++ {
								emitFmt(g, ctx1("kind", dirSpec{flagSubset(mask) + dl, w, p, letters[i]}.String()), v)
							}
						}
					}
				}
			}
		}
	}

	// (1b) every pool string under the case and trim letters (Go's case table is a regenerated fact of the model)
	for _, str := range strPool {
		for _, l := range "cCudt" {
			for _, fl := range []string{"", "#", "-12.6"} {
				emitFmt(g, ctx1("kind", "%"+fl+string(l)), vs(str))
			}
		}
	}

	// (2) random (value, directive) samples: mostly documented letters, flags in any order, delimiters, odd widths
	n := 20000
	if g.Thorough() {
		n = 200000
	}
	for i := 0; i < n; i++ {
		var v sx.Sexp
		switch {
		case i%5 == 4:
			v = conts[r.Intn(len(conts))]
			if r.Intn(3) == 0 {
				v = randValue(r, 3)
			}
		case i%7 == 6:
			v = randScalar(r)
		default:
			v = scalars[r.Intn(len(scalars))]
		}
		mode := "kind"
		switch r.Intn(10) {
		case 0, 1:
			mode = "self"
		case 2:
			mode = "new"
		}
		d := randDirective(r, v.Tag())
		if mode == "new" {
			g.Emit("@fmt " + ctx1("new", d).String() + " " + v.String())
			continue
		}
		emitFmt(g, ctx1(mode, d), v)
	}

	// (3) per-type format maps over containers nested ≤ 3 (and scalars)
	n = 3000
	if g.Thorough() {
		n = 60000
	}
	for i := 0; i < n; i++ {
		v := conts[r.Intn(len(conts))]
		switch r.Intn(4) {
		case 0:
			v = randValue(r, 3)
		case 1:
			v = randScalar(r)
		}
		emitFmt(g, randMapCtx(r), v)
	}

	// (3a) per-type format maps as the String constructor takes them: merged with the defaults (mergeFormats)
	for _, a := range allKeyNames {
		for _, b := range allKeyNames {
			g.Emit("keysub " + a + " " + b)
		}
	}
	n = 2500
	if g.Thorough() {
		n = 50000
	}
	for i := 0; i < n; i++ {
		v := conts[r.Intn(len(conts))]
		switch r.Intn(4) {
		case 0:
			v = randValue(r, 3)
		case 1:
			v = randScalar(r)
		}
		emitFmt(g, randMergedCtx(r), v)
	}

	// (3a') the element formats of a container entry REFINE the defaults: string_formats that cover only some (or none) of the
	// element kinds of a flat container — the uncovered elements keep the default element formats
	elemKeys := []string{"int", "str", "bool", "numeric", "bin", "undef", "regexp"}
	n = 400 * g.Scale
	for i := 0; i < n; i++ {
		ck := []string{"arr", "arr", "hash", "coll", "any"}[r.Intn(5)]
		letter := "a"
		if ck == "hash" {
			letter = "h"
		} else if ck != "arr" {
			letter = "p"
		}
		var cfs []sx.Sexp
		seen := map[string]bool{}
		for j := r.Intn(3); j > 0; j-- {
			k := elemKeys[r.Intn(len(elemKeys))]
			if !seen[k] {
				seen[k] = true
				cfs = append(cfs, sx.L(sx.A(k), randNode(r, k, 0)))
			}
		}
		node := sx.L(sx.Str("%"+letter), sx.A("-"), sx.A("-"), sx.L(cfs...))
		var elems []sx.Sexp
		for j := 1 + r.Intn(4); j > 0; j-- {
			e := randScalar(r)
			if e.Tag() == "f" {
				e = vi(int64(r.Intn(300)))
			}
			elems = append(elems, e)
		}
		v := va(elems...)
		if ck == "hash" || (ck != "arr" && r.Intn(2) == 0) {
			var kvs []sx.Sexp
			for j, e := range elems {
				kvs = append(kvs, vs(fmt.Sprintf("k%d", j)), e)
			}
			v = vh(kvs...)
		}
		emitFmt(g, sx.T("mmap", sx.L(sx.A(ck), node)), v)
	}

	// (3b) radix renderings read back with the Integer constructor: new(Integer, text, radix)
	backLetters := "dxXobB"
	n = 1500
	if g.Thorough() {
		n = 30000
	}
	for i := 0; i < n; i++ {
		sp := dirSpec{flags: "", width: -1, prec: -1, letter: backLetters[r.Intn(len(backLetters))]}
		for _, fl := range "+#0- " {
			if r.Intn(4) == 0 {
				sp.flags += string(fl)
			}
		}
		if r.Intn(3) == 0 {
			sp.prec = precs[1+r.Intn(4)]
		}
		if r.Intn(10) == 0 {
			sp.width = widths[1+r.Intn(3)]
		}
		if r.Intn(12) == 0 {
			sp.letter = letters[r.Intn(len(letters))]
		}
		iv := intPool[r.Intn(len(intPool))]
		if r.Intn(3) == 0 {
			iv = r.Int63n(1<<uint(1+r.Intn(62))) * int64(1-2*r.Intn(2))
		}
		line := "back " + sx.Str(sp.String()).Atom + " " + strconv.FormatInt(iv, 10)
		if strings.IndexByte("eEfgG", sp.letter) >= 0 {
			line = "@" + line
		}
		g.Emit(line)
	}

	// (4) malformed directives (outside the quantifier; model and implementation must still agree on the error)
	bad := []string{"", "%", "d", "%5", "%.d", "%5.d", "%00d", "%--5d", "%++d", "%  d", "%[{d", "%<(s", "%[[a", "%|<|a", "%05", "%5.3", "%d ", " %d",
		"%dd", "%5.3.2d", "%é", "%1$d", "%*d", "%\td", "%\n5d", "%\t\td", "%\f\rs", "%#\tx", "%0-+ #d", "%-0# +12.8x", "%0d", "%010d", "%.00d", "%.08d", "%100d", "%5.100d",
		"%1000001d", "%10000010d", "%.1000001s", "%99999999999999999999d", "%5.99999999999999999999x", "%1000000.1000001b"}
	for _, d := range bad {
		for _, v := range []sx.Sexp{vi(5), vs("ab"), va(vi(1)), vf(1.5), vu} {
			emitFmt(g, ctx1("kind", d), v)
		}
	}
	for i := 0; i < 200*g.Scale; i++ {
		d := []byte(randDirective(r, "i"))
		switch r.Intn(4) {
		case 0:
			d = append(d[:1], append([]byte{d[1]}, d[1:]...)...) // repeat the first flag / digit / letter
		case 1:
			d = d[:len(d)-1]
		case 2:
			p := 1 + r.Intn(len(d)-1)
			d = append(d[:p], append([]byte{"[{<(|.%x\t"[r.Intn(9)]}, d[p:]...)...)
		case 3:
			d[r.Intn(len(d))] = " 0.9z%"[r.Intn(6)]
		}
		emitFmt(g, ctx1("kind", string(d)), scalars[r.Intn(len(scalars))])
	}
}
