package c20

import (
	"fmt"
	"math"
	"math/rand"
	"strconv"
	"strings"
	"time"
	"unicode/utf8"

	"verif/harness/core"
	"verif/harness/lat"
	"verif/harness/sx"
)

// ---- value pools ----------------------------------------------------------------------------------------------------

func vi(i int64) sx.Sexp       { return sx.T("i", sx.Int(i)) }
func vf(f float64) sx.Sexp     { return sx.T("f", sx.A(strconv.FormatUint(math.Float64bits(f), 10))) }
func vs(s string) sx.Sexp      { return sx.T("s", sx.Str(s)) }
func vb(b bool) sx.Sexp        { return sx.T("b", sx.Bool(b)) }
func vx(s string) sx.Sexp      { return sx.T("x", sx.Str(s)) }
func vr(s string) sx.Sexp      { return sx.T("r", sx.Str(s)) }
func va(xs ...sx.Sexp) sx.Sexp { return sx.T("a", xs...) }
func vh(kv ...sx.Sexp) sx.Sexp {
	xs := []sx.Sexp{}
	for i := 0; i+1 < len(kv); i += 2 {
		xs = append(xs, sx.L(kv[i], kv[i+1]))
	}
	return sx.T("h", xs...)
}

var vu = sx.T("u")
var vd = sx.T("d")

// ---- the kinds of the extended model (op fmtx) ------------------------------------------------------------------------------

func vv(s string) sx.Sexp       { return sx.T("v", sx.Str(s)) }
func vw(s, norm string) sx.Sexp { return sx.T("w", sx.Str(s), sx.Str(norm)) }
func vy(s string) sx.Sexp       { return sx.T("y", sx.Str(s)) }
func vn(ns int64) sx.Sexp       { return sx.T("n", sx.Int(ns)) }
func vz(v sx.Sexp) sx.Sexp      { return sx.T("z", v) }

// a Timestamp with the text Go's time package gives it under the default layout (a parameter of the model, like the float digits)
func vm(sec, nsec int64) sx.Sexp {
	return sx.T("m", sx.Int(sec), sx.Int(nsec), sx.Str(time.Unix(sec, nsec).UTC().Format(timestampLayout)))
}

// a Type: the source the harness parses, and what the model formats: Name() and Parameters()
func vt(src, name string, params ...sx.Sexp) sx.Sexp {
	return sx.T("t", append([]sx.Sexp{sx.Str(src), sx.Str(name)}, params...)...)
}

// a type alias used as a value
func vl(src, name string, resolved sx.Sexp) sx.Sexp { return sx.T("l", sx.Str(src), sx.Str(name), resolved) }

// an object type used as a value: its name ("" = anonymous) and, for an anonymous one, the entries of its init hash
func vq(src, name string, kv ...sx.Sexp) sx.Sexp {
	xs := []sx.Sexp{sx.Str(src), sx.Str(name)}
	for i := 0; i+1 < len(kv); i += 2 {
		xs = append(xs, sx.L(sx.Str(kv[i].Args()[0].MustStr()), kv[i+1]))
	}
	return sx.T("q", xs...)
}

// an object type in a context with the property expanded
func vj(src string, dflt bool, kv ...sx.Sexp) sx.Sexp {
	xs := []sx.Sexp{sx.Str(src), sx.Bool(dflt)}
	for i := 0; i+1 < len(kv); i += 2 {
		xs = append(xs, sx.L(sx.Str(kv[i].Args()[0].MustStr()), kv[i+1]))
	}
	return sx.T("j", xs...)
}

// values for the contexts with the property expanded: an object type is (j …) wherever it is not inside the init hash of another one
func expandedPool() []sx.Sexp {
	tInt, tStr, tAny := vt("Integer", "Integer"), vt("String", "String"), vt("Any", "Any")
	pairQ := vq("Verif::Pair", "Verif::Pair")
	pair := vj("Verif::Pair", false, vs("name"), vs("Verif::Pair"), vs("attributes"), vh(vs("a"), tAny, vs("b"), tAny))
	one := vj("Verif::One", false, vs("name"), vs("Verif::One"), vs("attributes"), vh(vs("v"), tAny))
	anonA := vj("Object[{attributes => {'a' => Integer}}]", false, vs("attributes"), vh(vs("a"), tInt))
	anonB := vj("Object[{attributes => {'a' => Integer, 'b' => {'type' => String, 'value' => 'x'}}, functions => {'f' => Callable[Integer]}}]", false,
		vs("attributes"), vh(vs("a"), tInt, vs("b"), vh(vs("type"), tStr, vs("value"), vs("x"))),
		vs("functions"), vh(vs("f"), vt("Callable[Integer]", "Callable", tInt)))
	child := vj("Object[{parent => Verif::Pair, attributes => {'c' => Integer}, equality => ['c']}]", false,
		vs("parent"), pairQ, vs("attributes"), vh(vs("c"), tInt), vs("equality"), va(vs("c")))
	return []sx.Sexp{
		pair, one, vj("Object", true), vj("Verif::Unit", false, vs("name"), vs("Verif::Unit")), anonA, anonB, child,
		va(vi(1), pair, vs("x")), va(pair, anonA), vh(vs("t"), one, vs("u"), tInt), vo("Verif::One", vs("v"), pair),
		va(va(vj("Object", true)), vh(vs("k"), anonA)), tInt, vt("Integer[0, 9]", "Integer", vi(0), vi(9)), vi(5), vs("s"), va(vi(1), vs("a")),
		vl("Verif::Ints", "Verif::Ints", vt("Array[Integer]", "Array")),
	}
}

// aliases and object types as values (TypeAliasType.ToString, objectType.ToString / basicTypeToString)
func aliasObjTypePool() []sx.Sexp {
	tInt, tStr := vt("Integer", "Integer"), vt("String", "String")
	pair := vq("Verif::Pair", "Verif::Pair")
	return []sx.Sexp{
		vl("Verif::Ints", "Verif::Ints", vt("Array[Integer]", "Array")), vl("Data", "Data", vt("Variant", "Variant")),
		vl("RichData", "RichData", vt("Variant", "Variant")), pair, vq("Object", "Object"),
		vq("Object[{attributes => {'a' => Integer}}]", "", vs("attributes"), vh(vs("a"), tInt)),
		vq("Object[{attributes => {'a' => Integer, 'b' => {'type' => String, 'value' => 'x'}}, functions => {'f' => Callable[Integer]}}]", "",
			vs("attributes"), vh(vs("a"), tInt, vs("b"), vh(vs("type"), tStr, vs("value"), vs("x"))),
			vs("functions"), vh(vs("f"), vt("Callable[Integer]", "Callable", tInt))),
		vq("Object[{parent => Verif::Pair, attributes => {'c' => Integer}, equality => ['c']}]", "",
			vs("parent"), pair, vs("attributes"), vh(vs("c"), tInt), vs("equality"), va(vs("c"))),
		vq("Object[{attributes => {'n' => {'type' => Array[String], 'value' => ['a']}}, constants => {'k' => 3}, equality_include_type => false}]", "",
			vs("attributes"), vh(vs("n"), vh(vs("type"), vt("Array[String]", "Array", tStr), vs("value"), va(vs("a")))),
			vs("constants"), vh(vs("k"), vi(3)), vs("equality_include_type"), vb(false)),
		vq("Object[{type_parameters => {'p' => Integer}, attributes => {'a' => Integer}}]", "",
			vs("type_parameters"), vh(vs("p"), tInt), vs("attributes"), vh(vs("a"), tInt)),
		vq("Object[{attributes => {'o' => Object[{attributes => {'i' => Integer}}]}}]", "",
			vs("attributes"), vh(vs("o"), vq("Object[{attributes => {'i' => Integer}}]", "", vs("attributes"), vh(vs("i"), tInt)))),
	}
}

// an instance of an object type of the catalogue with its init hash
func vo(name string, kv ...sx.Sexp) sx.Sexp {
	xs := []sx.Sexp{sx.Str(name)}
	for i := 0; i+1 < len(kv); i += 2 {
		xs = append(xs, sx.L(kv[i], kv[i+1]))
	}
	return sx.T("o", xs...)
}

var semverPool = []string{"1.0.0", "0.0.0", "1.2.3-rc1+b5", "10.20.30", "1.0.0-alpha.1", "2.0.0+build.7"}

// (String(), NormalizedString()) of github.com/lyraproj/semver ranges
var rangePool = [][2]string{{">=1.0.0 <2.0.0", ">=1.0.0 <2.0.0"}, {"1.x", ">=1.0.0 <2.0.0"}, {"~1.2.3", ">=1.2.3 <1.3.0"}, {"^1.2", ">=1.2.0 <2.0.0"},
	{">1.0.0", ">1.0.0"}, {"=1.2.3", "1.2.3"}, {"1.2.3", "1.2.3"}, {"<=1.2.3 || >2", "<=1.2.3 || >=3.0.0"}, {"1.2.x", ">=1.2.0 <1.3.0"}, {"^0.2.3", ">=0.2.3 <0.3.0"}}

var uriPool = []string{"http://example.com", "http://example.com:8080/a%20b?x=1#f", "file:///tmp/x", "mailto:a@b.c", "https://u:p@h.org/p/q?k=v&l=w", "/rel/path", "urn:x:y"}

var spanPool = []int64{0, 1, 1500000000, 90061500000000, -90061500000000, 999999999, 1000000000, 86400000000000, 123456789012345678, math.MaxInt64, math.MinInt64 + 1, -1, 60000000000, 3600000000000}

var stampPool = [][2]int64{{0, 0}, {1500000000, 123456789}, {1500000000, 0}, {-1, 999999999}, {253402300799, 999999999}, {951782400, 500000000}, {1, 1000}}

// types whose ToString is TypeToString, with their (Name(), Parameters()); object types, aliases and type sets have a ToString
// of their own and are not in the pool
func typePool() []sx.Sexp {
	tInt, tStr := vt("Integer", "Integer"), vt("String", "String")
	return []sx.Sexp{
		tInt, vt("Integer[0, 9]", "Integer", vi(0), vi(9)), vt("Integer[1]", "Integer", vi(1)), vt("Integer[default, 5]", "Integer", vd, vi(5)),
		vt("Float", "Float"), vt("Float[1.00000, 2.50000]", "Float", vf(1), vf(2.5)), tStr, vt("String[1, 5]", "String", vi(1), vi(5)),
		vt("Enum['a', 'b']", "Enum", vs("a"), vs("b")), vt("Enum", "Enum"), vt("Pattern[/a.b/]", "Pattern", vr("a.b")),
		vt("Array[String]", "Array", tStr), vt("Array[Integer, 1, 3]", "Array", tInt, vi(1), vi(3)), vt("Array", "Array"),
		vt("Hash[String, Integer]", "Hash", tStr, tInt), vt("Hash[String, Integer, 1, 3]", "Hash", tStr, tInt, vi(1), vi(3)),
		vt("Tuple[Integer, String]", "Tuple", tInt, tStr), vt("Tuple[Integer, String, 1, 5]", "Tuple", tInt, tStr, vi(1), vi(5)),
		vt("Struct[{'a' => Integer}]", "Struct", vh(vs("a"), tInt)),
		vt("Struct[{'a' => Integer, Optional['b'] => String}]", "Struct", vh(vs("a"), tInt, vt("Optional['b']", "Optional", vs("b")), tStr)),
		vt("Variant[Integer, String]", "Variant", tInt, tStr), vt("Optional[Integer]", "Optional", tInt), vt("NotUndef[String]", "NotUndef", tStr),
		vt("Type[Integer[1]]", "Type", vt("Integer[1]", "Integer", vi(1))), vt("Type", "Type"), vt("Collection[1, 2]", "Collection", vi(1), vi(2)),
		vt("Boolean", "Boolean"), vt("Boolean[true]", "Boolean", vb(true)), vt("Regexp[/x/]", "Regexp", vr("x")), vt("Undef", "Undef"),
		vt("Default", "Default"), vt("Any", "Any"), vt("Scalar", "Scalar"), vt("Numeric", "Numeric"), vt("Binary", "Binary"),
		vt("Timespan", "Timespan"), vt("Timestamp", "Timestamp"), vt("SemVer", "SemVer"), vt("SemVer['1.x']", "SemVer", vs("1.x")),
		vt("SemVerRange", "SemVerRange"), vt("URI", "URI"), vt("Sensitive[String]", "Sensitive", tStr), vt("Iterable[Integer]", "Iterable", tInt),
		vt("Callable[Integer]", "Callable", tInt), vt("Callable[[Integer, String], Undef]", "Callable", va(tInt, tStr), vt("Undef", "Undef")),
		vt("Init[Integer]", "Init", tInt), vt("Timespan['0-00:00:01.0']", "Timespan", vs("0-00:00:01.0")),
		vt("Array[Array[Integer[0, 9]]]", "Array", vt("Array[Integer[0, 9]]", "Array", vt("Integer[0, 9]", "Integer", vi(0), vi(9)))),
		vt("Struct[{'a' => Struct[{'b' => Array[Integer]}]}]", "Struct",
			vh(vs("a"), vt("Struct[{'b' => Array[Integer]}]", "Struct", vh(vs("b"), vt("Array[Integer]", "Array", tInt))))),
		vt("Hash[String, Hash[String, Integer]]", "Hash", tStr, vt("Hash[String, Integer]", "Hash", tStr, tInt)),
		vt("Optional['a']", "Optional", vs("a")), vt("Type[Type[Integer]]", "Type", vt("Type[Integer]", "Type", tInt)),
		vt("TypeReference['Foo']", "TypeReference", vs("Foo")), vt("ScalarData", "ScalarData"), vt("Unit", "Unit"),
	}
}

func newScalarPool() []sx.Sexp {
	out := []sx.Sexp{vz(vs("secret")), vz(vi(1))}
	for _, s := range semverPool {
		out = append(out, vv(s))
	}
	for _, r := range rangePool {
		out = append(out, vw(r[0], r[1]))
	}
	for _, u := range uriPool {
		out = append(out, vy(u))
	}
	for _, n := range spanPool {
		out = append(out, vn(n))
	}
	for _, m := range stampPool {
		out = append(out, vm(m[0], m[1]))
	}
	return append(append(out, typePool()...), aliasObjTypePool()...)
}

func newContainerPool() []sx.Sexp {
	tp := typePool()
	return []sx.Sexp{
		vo("Verif::Unit"), vo("Verif::One", vs("v"), vi(1)), vo("Verif::Pair", vs("a"), vi(1), vs("b"), vs("x")),
		vo("", vs("a"), vi(1)), vo("", vs("a"), va(vi(1), vi(2)), vs("b"), vs("x")), va(vi(1), vo("", vs("a"), vi(1), vs("b"), vo("", vs("a"), vu))),
		vo("Verif::Pair", vs("a"), va(vi(1), vi(2)), vs("b"), vh(vs("k"), vv("1.0.0"))), vo("Verif::One", vs("v"), vo("Verif::One", vs("v"), vu)),
		vo("Verif::Pair", vs("a"), tp[1], vs("b"), vn(1500000000)),
		va(vv("1.2.3-rc1+b5"), vw("1.x", ">=1.0.0 <2.0.0"), vy("http://example.com"), vn(90061500000000), vm(1500000000, 123456789), vz(vs("s")), tp[1]),
		va(tp[18], tp[19], va(tp[11])), va(vo("Verif::One", vs("v"), vi(1)), vi(2), vo("Verif::Unit")), va(vi(1), vo("Verif::Pair", vs("a"), vi(1), vs("b"), va()), vs("x")),
		vh(vs("ver"), vv("1.0.0"), vs("t"), tp[12]), vh(vv("1.0.0"), vi(1)), vh(vs("o"), vo("Verif::One", vs("v"), va(vi(1)))), vh(tp[0], tp[1]),
		va(va(vn(0)), vh(vs("k"), vm(0, 0))), va(vz(va(vi(1))), vz(vu)),
	}
}

func hasNewKind(e sx.Sexp) bool {
	if !e.IsList {
		return false
	}
	if isNewTag(e.Tag()) {
		return true
	}
	for _, k := range e.List {
		if k.IsList && hasNewKind(k) {
			return true
		}
	}
	return false
}

func hasNewKey(m []entry) bool {
	for _, e := range m {
		if isNewKey(e.key) || (e.n.hasCf && hasNewKey(e.n.cf)) {
			return true
		}
	}
	return false
}

var intPool = []int64{0, 1, -1, 5, -5, 9, 10, 42, 255, -255, 256, 65, 97, 0x1F600, 0xD800, 0x110000, 1<<32 + 65, -65,
	math.MaxInt64, math.MinInt64, math.MinInt64 + 1, 1 << 31, -(1 << 31), 1000000, 123456789, 8, 7, 16, -16, 4095}

var floatPool = []float64{0, math.Copysign(0, -1), 1, -1, 1.5, -2.5, 255, 255.5, 0.1, 3.999, 1e20, 1e-7, 123456.789, 100000, 1000000, 1e15,
	math.MaxFloat64, math.SmallestNonzeroFloat64, math.NaN(), math.Inf(1), math.Inf(-1), 1e300, -1e19, 9.223372036854775e18, 0.5, 12345678}

var strPool = []string{"", "a", "ab", "hello world", "Hello::wOrld::x", "  padded \t", "é", "日本語", "a'b", `a\b`, `"q"`, "line\nfeed",
	"tab\there", "\x01ctl", "$var", "�", "x�y", "😀", "ß", "%d %!", "0", "-12", "àÉî::ôU", "::", "a::", "ÿµ", " nbsp ", "ǆemal", "İi", "ﬁ", "ǅ::ǈx", "ΑΒγδ σς", "привет::МИР", "ᾳ ᾼ", "ⅰⅱ Ⅲ", "ｆｕｌｌ", "𐐨𐐀 deseret", "ſtraße", "Ǉ", "ɐʞ", "ꙁꙀ"}

var badStrPool = []string{"\xff\xfe", "a\xc3", "\xed\xa0\x80"}

var binPool = []string{"", "a", "ab", "abc", "\x00\xff\xfe", "hello world binary data >>>???", "\xfb\xff"}

var rxPool = []string{"", "a.b", "a/b", `^\d+$`, "a\tb", "é+", `a\\b`, "\x01"}

func containerPool() []sx.Sexp {
	return []sx.Sexp{
		va(), va(vi(1)), va(vi(1), vi(2), vi(3)), va(vs("a"), vi(1), vb(true)), va(va(vi(1), vi(2)), va(vi(3))),
		va(va(), va(va())), va(vi(1), va(vi(2), va(vi(3)))), va(vu, vd), va(vh(vs("a"), vi(1))), va(vf(1.5)),
		va(vs("it's"), vs("a\nb"), vx("abc"), vr("a/b")), va(vi(255), vi(-1)),
		vh(), vh(vs("a"), vi(1)), vh(vs("a"), vi(1), vs("b"), vi(2)), vh(vi(1), vs("x")), vh(vs("a"), va(vi(1), vi(2))),
		vh(vs("a"), vh(vs("b"), vh(vs("c"), vi(1)))), vh(va(vi(1)), vi(2)), vh(vs("k"), vu, vs("l"), vd), vh(vs("f"), vf(2.5)),
		vh(vh(vs("k"), vi(1)), vh()), va(vh(), va(), vh(vs("x"), va())),
	}
}

func scalarPool() []sx.Sexp {
	out := []sx.Sexp{vu, vd, vb(true), vb(false)}
	for _, i := range intPool {
		out = append(out, vi(i))
	}
	for _, f := range floatPool {
		out = append(out, vf(f))
	}
	for _, s := range strPool {
		out = append(out, vs(s))
	}
	for _, s := range binPool {
		out = append(out, vx(s))
	}
	for _, s := range rxPool {
		out = append(out, vr(s))
	}
	return out
}

// the 40 values of the thorough tier's exhaustive product
func thoroughValues() []sx.Sexp {
	return []sx.Sexp{
		vi(0), vi(1), vi(-1), vi(255), vi(-255), vi(42), vi(math.MaxInt64), vi(math.MinInt64), vi(65), vi(0x1F600), vi(-65), vi(8),
		vf(0), vf(1.5), vf(255), vf(-2.5), vf(1e20), vf(1e-7), vf(math.NaN()), vf(math.Inf(-1)), vf(123456.789),
		vs(""), vs("ab"), vs("Hello::wOrld"), vs("é'\\"), vs("a\nb�"), vs("  日本  "),
		vb(true), vb(false), vu, vd, vx("abc"), vx("\x00\xff"), vr("a/b"),
		va(), va(vi(1), vs("a"), va(vi(2))), va(vi(10), vi(255)), vh(), vh(vs("a"), vi(1), vs("b"), va(vi(2))), vh(vi(1), vh(vs("x"), vu)),
	}
}

// ---- what the Lean model covers (everything else is sent with a leading '@': implementation only) --------------------------

// the model maps case with Go's own table (regenerated from $GOROOT/src/unicode/tables.go): every valid string is modelled
func caseModelled(s string) bool { return true }

func scalarModelled(e sx.Sexp, d dir) bool {
	if !d.ok {
		return true // the parse error is modelled
	}
	switch e.Tag() {
	case "i", "b":
		return strings.IndexByte("eEfgG", d.letter) < 0
	case "f":
		u, _ := strconv.ParseUint(e.Args()[0].Atom, 10, 64)
		if fl := math.Float64frombits(u); math.IsNaN(fl) || math.IsInf(fl, 0) {
			return false // not instances of Float: the implementation falls back to the default format
		}
		return strings.IndexByte("eEfgGsp", d.letter) < 0
	case "s":
		s := e.Args()[0].MustStr()
		if !utf8.ValidString(s) {
			return false
		}
		if strings.IndexByte("cCud", d.letter) >= 0 {
			return caseModelled(s)
		}
	case "x":
		// %s of bytes that are not UTF-8 is a reported failure on both sides; valid bytes are text
		return true
	case "r":
		return utf8.ValidString(e.Args()[0].MustStr())
	case "n":
		// format2 does not negate MinInt64: its segments are those of a negative number (outside the model of the default format)
		return e.Args()[0].MustInt() != math.MinInt64
	}
	return true
}

// a directive with a float letter anywhere in the map (an Integer under it needs fmt's digits)
func hasFloatLetter(m []entry) bool {
	for _, e := range m {
		if e.n.d.ok && strings.IndexByte("eEfgG", e.n.d.letter) >= 0 {
			return true
		}
		if e.n.hasCf && hasFloatLetter(e.n.cf) {
			return true
		}
	}
	return false
}

func modelled(e sx.Sexp, m []entry, entryMode bool) bool {
	if e.Tag() == "j" || (e.Tag() == "q" && e.Args()[1].MustStr() == "") {
		// an expanded / anonymous object type formats the values of its init hash (integers among them) under the same map and
		// its container formats: no float letter anywhere (the pools hold no floats and no invalid text)
		if hasFloatLetter(m) {
			return false
		}
		if e.Tag() == "j" {
			return true
		}
	}
	if !entryMode && e.Tag() == "o" && e.Args()[0].MustStr() == "" {
		// an instance of an anonymous object type is written as the Hash of its init hash
		return modelled(sx.T("h", e.Args()[1:]...), m, false)
	}
	tag := e.Tag()
	if tag == "t" && !entryMode {
		// the parameters are formatted as an Array under the same map
		if len(m) == 1 && m[0].key == "self" {
			m = []entry{{key: "type", n: m[0].n}}
		}
		if n := lookup(m, tag, nil); !n.d.ok || strings.IndexByte("sp", n.d.letter) < 0 || len(e.Args()) == 2 {
			return true
		}
		return modelled(va(e.Args()[2:]...), m, false)
	}
	if !isContainerTag(tag) && !entryMode {
		if len(m) == 1 && m[0].key == "self" {
			return scalarModelled(e, m[0].n.d)
		}
		return scalarModelled(e, lookup(m, tag, nil).d)
	}
	if len(m) == 1 && m[0].key == "self" {
		return false
	}
	ltag := tag
	if entryMode {
		ltag = "a"
	}
	n := lookup(m, ltag, nil)
	if !n.d.ok {
		return true
	}
	cf := defaultCF
	if n.hasCf {
		cf = n.cf
	}
	child := func(ce sx.Sexp) bool {
		if isContainerTag(ce.Tag()) {
			return modelled(ce, m, false)
		}
		return modelled(ce, cf, false)
	}
	if entryMode {
		return child(e.List[0]) && child(e.List[1])
	}
	if tag == "a" {
		for _, k := range e.Args() {
			if !child(k) {
				return false
			}
		}
		return true
	}
	if n.d.letter == 'a' {
		an := lookup(m, "a", nil)
		if !an.d.ok {
			return true
		}
		acf := defaultCF
		if an.hasCf {
			acf = an.cf
		}
		for _, kv := range entriesOfValue(e) {
			if !modelled(kv, acf, true) {
				return false
			}
		}
		return true
	}
	for _, kv := range entriesOfValue(e) {
		if !child(kv.List[0]) || !child(kv.List[1]) {
			return false
		}
	}
	return true
}

// ---- the float oracle: fmt.Sprintf on the format strings the code hands to fmt -----------------------------------------

func stripDelims(s string) string {
	return strings.Map(func(r rune) rune {
		if strings.ContainsRune("[{<(|", r) {
			return -1
		}
		return r
	}, s)
}

// unParse of the Format record of a parsed directive with the given changes (Go twin of the model's unParse)
func unParseDir(d dir, letter byte, withoutWidth bool) string {
	b := "%"
	zero, left, alt, width := d.zero, d.minus, d.sharp, d.width
	if withoutWidth {
		zero, left, alt, width = false, false, false, -1
	}
	if zero {
		b += "0"
	}
	plus := byte(0)
	if d.plus {
		plus = '+'
	} else if d.space {
		plus = ' '
	}
	if plus != 0 {
		b += string(plus)
	}
	if left {
		b += "-"
	}
	if ld := d.ldelim(); ld != 0 && ld != plus {
		b += string(ld)
	}
	if alt {
		b += "#"
	}
	if width >= 0 {
		b += strconv.Itoa(width)
	}
	if d.prec >= 0 {
		b += "." + strconv.Itoa(d.prec)
	}
	return b + string(letter)
}

func floatOracle(d dir, f float64) sx.Sexp {
	fs := []string{stripDelims(d.raw), stripDelims(unParseDir(d, d.letter, true)), stripDelims(unParseDir(d, 'e', false)),
		stripDelims(unParseDir(d, 'E', false)), "%g", "%#g", "%e", "%#e"}
	seen := map[string]bool{}
	xs := []sx.Sexp{}
	for _, fm := range fs {
		if seen[fm] {
			continue
		}
		seen[fm] = true
		xs = append(xs, sx.L(sx.Str(fm), sx.Str(fmt.Sprintf(fm, f))))
	}
	return sx.L(xs...)
}

// a top-level Integer/Float/Boolean under a single directive whose rendering needs float digits: send it to the model
// with the oracle instead of implementation-only
func emitWithOracle(g *core.G, ctx sx.Sexp, v sx.Sexp) bool {
	mode := ctx.Tag()
	if mode != "kind" && mode != "self" && mode != "new" {
		return false
	}
	d := parseDir(ctx.Args()[0].MustStr())
	if !d.ok {
		return false
	}
	var f float64
	ofint := sx.A("-")
	switch v.Tag() {
	case "f":
		u, _ := strconv.ParseUint(v.Args()[0].Atom, 10, 64)
		f = math.Float64frombits(u)
		if math.IsNaN(f) || math.IsInf(f, 0) {
			return false
		}
	case "i":
		f = float64(v.Args()[0].MustInt())
		ofint = sx.A(strconv.FormatUint(math.Float64bits(f), 10))
	case "b":
		if v.Args()[0].MustBool() {
			f = 1
		}
		ofint = sx.A(strconv.FormatUint(math.Float64bits(f), 10))
	default:
		return false
	}
	g.Emit("fmtf " + ctx.String() + " " + v.String() + " " + ofint.String() + " " + floatOracle(d, f).String())
	return true
}

func emitFmt(g *core.G, ctx sx.Sexp, v sx.Sexp) {
	mode := ctx.Tag()
	in := false
	switch mode {
	case "kind", "xkind":
		n := newNode(ctx.Args()[0].MustStr())
		k := kindKey(v.Tag())
		in = modelled(v, []entry{{key: k, n: n}}, false)
	case "self", "new":
		// new = px.New(c, String, v, directive): the String constructor builds the same context as self
		n := newNode(ctx.Args()[0].MustStr())
		// an alias or an object type under its own type as the key: which nested types that key accepts is a lattice question
		in = modelled(v, []entry{{key: "self", n: n}}, false) && v.Tag() != "l" && v.Tag() != "q"
	case "map", "xmap":
		in = mapValid(ctx) && modelled(v, entriesOfNoType(ctx.Args()), false)
	case "mmap":
		in = mapValid(ctx) && mergedModelled(v, entriesOfNoType(ctx.Args()))
	case "tmap", "tmmap":
		// which entry applies where is the lattice's business: the condition is global, as for mmap; the lattice model has no
		// value of the kinds of the extended model beyond Timespan and Sensitive
		in = mapValid(ctx) && mergedModelled(v, entriesOfNoType(ctx.Args())) && latValue(v)
		line := "fmtt " + ctx.String() + " " + v.String()
		if !in {
			line = "@" + line
		}
		g.Emit(line)
		return
	}
	op := "fmt "
	if hasNewKind(v) || mode == "xkind" || mode == "xmap" || ((mode == "map" || mode == "mmap") && hasNewKey(entriesOfNoType(ctx.Args()))) {
		// the extended model (every value kind, the keys of every kind)
		op = "fmtx "
	}
	line := op + ctx.String() + " " + v.String()
	if !in {
		if op == "fmt " && emitWithOracle(g, ctx, v) {
			return
		}
		line = "@" + line
	}
	g.Emit(line)
}

// mergedModelled: which format applies where is decided by the merge, so the condition is global — no float value, text
// that is valid UTF-8, and no directive with a float letter anywhere in the user's map (an Integer under %e is a float)
func mergedModelled(v sx.Sexp, m []entry) bool {
	var okv func(e sx.Sexp) bool
	okv = func(e sx.Sexp) bool {
		switch e.Tag() {
		case "f":
			return false
		case "s", "r":
			return utf8.ValidString(e.Args()[0].MustStr()) && (e.Tag() == "r" || caseModelled(e.Args()[0].MustStr()))
		case "a":
			for _, k := range e.Args() {
				if !okv(k) {
					return false
				}
			}
		case "h", "o":
			for _, kv := range entriesOfValue(e) {
				if !okv(kv.List[0]) || !okv(kv.List[1]) {
					return false
				}
			}
		case "t":
			for _, k := range e.Args()[2:] {
				if !okv(k) {
					return false
				}
			}
		case "n":
			return e.Args()[0].MustInt() != math.MinInt64
		}
		return true
	}
	var okm func(m []entry) bool
	okm = func(m []entry) bool {
		for _, e := range m {
			if e.n.d.ok && strings.IndexByte("eEfgG", e.n.d.letter) >= 0 {
				return false
			}
			if e.n.hasCf && !okm(e.n.cf) {
				return false
			}
		}
		return true
	}
	return okv(v) && okm(m) && mmapInModel(m, 1)
}

// a map with an invalid directive anywhere raises while the map is built; the model parses lazily — keep those impl-only
func mapValid(ctx sx.Sexp) bool { return !anyInvalid(entriesOfNoType(ctx.Args())) }

// latValue: only kinds the lattice model has values of (no Float: its digits are fmt's)
func latValue(e sx.Sexp) bool {
	switch e.Tag() {
	case "f", "v", "w", "y", "m", "t", "o", "l", "q", "j":
		return false
	case "z":
		return latValue(e.Args()[0])
	case "a":
		for _, k := range e.Args() {
			if !latValue(k) {
				return false
			}
		}
	case "h":
		for _, kv := range e.Args() {
			if !latValue(kv.List[0]) || !latValue(kv.List[1]) {
				return false
			}
		}
	}
	return true
}

func entriesOfNoType(xs []sx.Sexp) []entry {
	m := make([]entry, len(xs))
	for i, kv := range xs {
		n := newNode(kv.List[1].List[0].MustStr())
		f := kv.List[1]
		n.sep, n.hasSep = strOpt(f.List[1])
		n.sep2, n.hasSep2 = strOpt(f.List[2])
		if f.List[3].IsList {
			n.hasCf = true
			n.cf = entriesOfNoType(f.List[3].List)
		}
		key := kv.List[0].Atom
		if kv.List[0].IsList {
			key = "ty:" + kv.List[0].List[1].MustStr()
		}
		m[i] = entry{key: key, n: n}
	}
	return m
}

func ctx1(mode, directive string) sx.Sexp { return sx.T(mode, sx.Str(directive)) }

// ---- random directives ------------------------------------------------------------------------------------------------------

func randFlags(r *rand.Rand) string {
	fl := flagSubset(r.Intn(32))
	if r.Intn(4) == 0 {
		fl += delimFlags[1+r.Intn(5)]
	}
	b := []byte(fl)
	r.Shuffle(len(b), func(i, j int) { b[i], b[j] = b[j], b[i] })
	return string(b)
}

func randDirective(r *rand.Rand, kind string) string {
	s := dirSpec{flags: randFlags(r), width: -1, prec: -1}
	if r.Intn(3) != 0 {
		s.width = widths[1+r.Intn(3)]
		if r.Intn(4) == 0 {
			s.width = 1 + r.Intn(30)
		}
	}
	if r.Intn(3) == 0 {
		s.prec = precs[1+r.Intn(4)]
		if r.Intn(4) == 0 {
			s.prec = r.Intn(20)
		}
	}
	docs := documentedDoc[kind]
	if r.Intn(10) < 8 && len(docs) > 0 && len(docs) < 52 {
		s.letter = docs[r.Intn(len(docs))]
	} else {
		s.letter = letters[r.Intn(len(letters))]
	}
	return s.String()
}

func randScalar(r *rand.Rand) sx.Sexp {
	switch r.Intn(12) {
	case 0, 1, 2:
		if r.Intn(3) == 0 {
			return vi(r.Int63n(1<<uint(1+r.Intn(62))) * int64(1-2*r.Intn(2)))
		}
		return vi(intPool[r.Intn(len(intPool))])
	case 3, 4:
		return vf(floatPool[r.Intn(len(floatPool))])
	case 5, 6, 7:
		if r.Intn(20) == 0 {
			return vs(badStrPool[r.Intn(len(badStrPool))])
		}
		return vs(strPool[r.Intn(len(strPool))])
	case 8:
		return vb(r.Intn(2) == 0)
	case 9:
		if r.Intn(2) == 0 {
			return vu
		}
		return vd
	case 10:
		return vx(binPool[r.Intn(len(binPool))])
	}
	return vr(rxPool[r.Intn(len(rxPool))])
}

func randValue(r *rand.Rand, depth int) sx.Sexp {
	if depth <= 0 || r.Intn(3) == 0 {
		return randScalar(r)
	}
	n := r.Intn(4)
	if r.Intn(2) == 0 {
		xs := []sx.Sexp{}
		for i := 0; i < n; i++ {
			xs = append(xs, randValue(r, depth-1))
		}
		return va(xs...)
	}
	xs := []sx.Sexp{}
	seen := map[string]bool{}
	for i := 0; i < n; i++ {
		k := randScalar(r)
		if r.Intn(6) == 0 {
			k = randValue(r, depth-1)
		}
		if k.Tag() == "f" || seen[k.String()] {
			continue
		}
		seen[k.String()] = true
		xs = append(xs, k, randValue(r, depth-1))
	}
	return vh(xs...)
}

var seps = []string{",", ";", "", " | ", "→", ": "}

func randNode(r *rand.Rand, key string, depth int) sx.Sexp {
	kind := "i"
	switch key {
	case "arr", "coll":
		kind = "a"
	case "hash":
		kind = "h"
	case "str":
		kind = "s"
	case "bool":
		kind = "b"
	case "bin":
		kind = "x"
	case "float":
		kind = "f"
	case "dflt":
		kind = "d"
	case "undef":
		kind = "u"
	case "regexp":
		kind = "r"
	case "any", "scalar":
		kind = []string{"i", "s", "a", "h"}[r.Intn(4)]
	}
	d := randDirective(r, kind)
	if (kind == "a" || kind == "h") && r.Intn(3) != 0 {
		// mostly non-alt, supported container formats
		s := dirSpec{flags: "", width: -1, prec: -1, letter: documentedDoc[kind][r.Intn(len(documentedDoc[kind]))]}
		if r.Intn(3) == 0 {
			s.flags = delimFlags[r.Intn(6)]
		}
		if r.Intn(4) == 0 {
			s.flags += " "
		}
		if r.Intn(8) == 0 {
			s.flags += "#"
		}
		if r.Intn(5) == 0 {
			s.width = 1 + r.Intn(20)
		}
		d = s.String()
	}
	sep, sep2, cf := sx.A("-"), sx.A("-"), sx.A("-")
	if r.Intn(3) == 0 {
		sep = sx.Str(seps[r.Intn(len(seps))])
	}
	if r.Intn(3) == 0 {
		sep2 = sx.Str(seps[r.Intn(len(seps))])
	}
	if depth > 0 && r.Intn(2) == 0 {
		cf = randMapEntries(r, depth-1)
	}
	return sx.L(sx.Str(d), sep, sep2, cf)
}

func randMapEntries(r *rand.Rand, depth int) sx.Sexp {
	n := r.Intn(4)
	xs := []sx.Sexp{}
	seen := map[string]bool{}
	for i := 0; i < n; i++ {
		k := keyNames[r.Intn(len(keyNames))]
		if seen[k] {
			continue
		}
		seen[k] = true
		xs = append(xs, sx.L(sx.A(k), randNode(r, k, depth)))
	}
	return sx.L(xs...)
}

func randMapCtx(r *rand.Rand) sx.Sexp {
	es := randMapEntries(r, 2)
	return sx.T("map", es.List...)
}

// randMergedCtx: a user map as new(String, v, map) takes it — 1 to 4 distinct keys out of all 16 (the defaults' own keys
// among them on purpose: an entry with a default's key is MERGED with it), container entries with string_formats
func randMergedCtx(r *rand.Rand) sx.Sexp {
	n := 1 + r.Intn(4)
	xs := []sx.Sexp{}
	seen := map[string]bool{}
	pool := allKeyNames
	if r.Intn(2) == 0 {
		pool = []string{"arr", "hash", "any", "numeric", "int", "str", "scalar", "coll", "float", "bin"}
	}
	for i := 0; i < n; i++ {
		k := pool[r.Intn(len(pool))]
		if seen[k] {
			continue
		}
		seen[k] = true
		key := k
		if k == "object" || k == "type" {
			key = "any"
		}
		xs = append(xs, sx.L(sx.A(k), randNode(r, key, 2)))
	}
	return sx.T("mmap", xs...)
}

// ---- generator ---------------------------------------------------------------------------------------------------------------

func gen(g *core.G) {
	r := g.Rng
	scalars := scalarPool()
	conts := containerPool()

	// (1) exhaustive small universe.  quick: every letter, plain and with three flag/width/precision shapes, on 24 values;
	//     thorough: the whole grammar (every flag subset × width × precision × letter) on 40 values, plus the delimiter flags
	if !g.Thorough() {
		small := []sx.Sexp{vi(0), vi(255), vi(-5), vi(math.MinInt64), vf(1.5), vf(255), vs("ab"), vs("é'::b"), vb(true), vb(false), vu, vd,
			vx("abc"), vr("a/b"), va(), va(vi(1), vs("a")), va(va(vi(1)), vh(vs("k"), vi(2))), vh(), vh(vs("a"), vi(1)), vh(vi(1), va(vi(2))),
			vi(65), vs(""), vf(-2.5), vx("\x00\xff")}
		shapes := []dirSpec{{"", -1, -1, 0}, {"#", 8, -1, 0}, {"-", 6, 2, 0}, {"0+", 7, -1, 0}, {" <", 4, 0, 0}}
		for _, v := range small {
			for _, sh := range shapes {
				for i := 0; i < len(letters); i++ {
					sh.letter = letters[i]
					emitFmt(g, ctx1("kind", sh.String()), v)
				}
			}
		}
	} else {
		for _, v := range thoroughValues() {
			for mask := 0; mask < 32; mask++ {
				for _, w := range widths {
					for _, p := range precs {
						for i := 0; i < len(letters); i++ {
							emitFmt(g, ctx1("kind", dirSpec{flagSubset(mask), w, p, letters[i]}.String()), v)
						}
					}
				}
			}
		}
		for vi2, v := range thoroughValues() {
			if vi2%4 != 0 {
				continue
			}
			for mask := 0; mask < 32; mask++ {
				for _, dl := range delimFlags[1:] {
					for _, w := range []int{-1, 5} {
						for _, p := range []int{-1, 3} {
							for i := 0; i < len(letters); i++ {
								emitFmt(g, ctx1("kind", dirSpec{flagSubset(mask) + dl, w, p, letters[i]}.String()), v)
							}
						}
					}
				}
			}
		}
	}

	// (1b) every pool string under the case and trim letters (Go's case table is a regenerated fact of the model)
	for _, str := range strPool {
		for _, l := range "cCudt" {
			for _, fl := range []string{"", "#", "-12.6"} {
				emitFmt(g, ctx1("kind", "%"+fl+string(l)), vs(str))
			}
		}
	}

	// (1x) the kinds of the extended model: every letter under the same five shapes on one value of each kind (quick) / on the
	//      whole pool (thorough), then random directives on the pool and on containers that hold them
	genX(g)

	// (2) random (value, directive) samples: mostly documented letters, flags in any order, delimiters, odd widths
	n := 20000
	if g.Thorough() {
		n = 200000
	}
	for i := 0; i < n; i++ {
		var v sx.Sexp
		switch {
		case i%5 == 4:
			v = conts[r.Intn(len(conts))]
			if r.Intn(3) == 0 {
				v = randValue(r, 3)
			}
		case i%7 == 6:
			v = randScalar(r)
		default:
			v = scalars[r.Intn(len(scalars))]
		}
		mode := "kind"
		switch r.Intn(10) {
		case 0, 1:
			mode = "self"
		case 2:
			mode = "new"
		}
		d := randDirective(r, v.Tag())
		if mode == "new" && !parseDir(d).ok {
			// how the constructor reports a directive outside the grammar is dispatch's business (C16)
			g.Emit("@fmt " + ctx1("new", d).String() + " " + v.String())
			continue
		}
		emitFmt(g, ctx1(mode, d), v)
	}

	// (3) per-type format maps over containers nested ≤ 3 (and scalars)
	n = 3000
	if g.Thorough() {
		n = 60000
	}
	for i := 0; i < n; i++ {
		v := conts[r.Intn(len(conts))]
		switch r.Intn(4) {
		case 0:
			v = randValue(r, 3)
		case 1:
			v = randScalar(r)
		}
		emitFmt(g, randMapCtx(r), v)
	}

	// (3a) per-type format maps as the String constructor takes them: merged with the defaults (mergeFormats)
	for _, a := range allKeyNames {
		for _, b := range allKeyNames {
			g.Emit("keysub " + a + " " + b)
		}
	}
	n = 2500
	if g.Thorough() {
		n = 50000
	}
	for i := 0; i < n; i++ {
		v := conts[r.Intn(len(conts))]
		switch r.Intn(4) {
		case 0:
			v = randValue(r, 3)
		case 1:
			v = randScalar(r)
		}
		emitFmt(g, randMergedCtx(r), v)
	}

	// (3a') the element formats of a container entry REFINE the defaults: string_formats that cover only some (or none) of the
	// element kinds of a flat container — the uncovered elements keep the default element formats
	elemKeys := []string{"int", "str", "bool", "numeric", "bin", "undef", "regexp"}
	n = 400 * g.Scale
	for i := 0; i < n; i++ {
		ck := []string{"arr", "arr", "hash", "coll", "any"}[r.Intn(5)]
		letter := "a"
		if ck == "hash" {
			letter = "h"
		} else if ck != "arr" {
			letter = "p"
		}
		var cfs []sx.Sexp
		seen := map[string]bool{}
		for j := r.Intn(3); j > 0; j-- {
			k := elemKeys[r.Intn(len(elemKeys))]
			if !seen[k] {
				seen[k] = true
				cfs = append(cfs, sx.L(sx.A(k), randNode(r, k, 0)))
			}
		}
		node := sx.L(sx.Str("%"+letter), sx.A("-"), sx.A("-"), sx.L(cfs...))
		var elems []sx.Sexp
		for j := 1 + r.Intn(4); j > 0; j-- {
			e := randScalar(r)
			if e.Tag() == "f" {
				e = vi(int64(r.Intn(300)))
			}
			elems = append(elems, e)
		}
		v := va(elems...)
		if ck == "hash" || (ck != "arr" && r.Intn(2) == 0) {
			var kvs []sx.Sexp
			for j, e := range elems {
				kvs = append(kvs, vs(fmt.Sprintf("k%d", j)), e)
			}
			v = vh(kvs...)
		}
		emitFmt(g, sx.T("mmap", sx.L(sx.A(ck), node)), v)
	}

	// (3b) radix renderings read back with the Integer constructor: new(Integer, text, radix)
	backLetters := "dxXobB"
	n = 1500
	if g.Thorough() {
		n = 30000
	}
	for i := 0; i < n; i++ {
		sp := dirSpec{flags: "", width: -1, prec: -1, letter: backLetters[r.Intn(len(backLetters))]}
		for _, fl := range "+#0- " {
			if r.Intn(4) == 0 {
				sp.flags += string(fl)
			}
		}
		if r.Intn(3) == 0 {
			sp.prec = precs[1+r.Intn(4)]
		}
		if r.Intn(10) == 0 {
			sp.width = widths[1+r.Intn(3)]
		}
		if r.Intn(12) == 0 {
			sp.letter = letters[r.Intn(len(letters))]
		}
		iv := intPool[r.Intn(len(intPool))]
		if r.Intn(3) == 0 {
			iv = r.Int63n(1<<uint(1+r.Intn(62))) * int64(1-2*r.Intn(2))
		}
		line := "back " + sx.Str(sp.String()).Atom + " " + strconv.FormatInt(iv, 10)
		if strings.IndexByte("eEfgG", sp.letter) >= 0 {
			line = "@" + line
		}
		g.Emit(line)
	}

	// (4) malformed directives (outside the quantifier; model and implementation must still agree on the error)
	bad := []string{"", "%", "d", "%5", "%.d", "%5.d", "%00d", "%--5d", "%++d", "%  d", "%[{d", "%<(s", "%[[a", "%|<|a", "%05", "%5.3", "%d ", " %d",
		"%dd", "%5.3.2d", "%é", "%1$d", "%*d", "%\td", "%\n5d", "%\t\td", "%\f\rs", "%#\tx", "%0-+ #d", "%-0# +12.8x", "%0d", "%010d", "%.00d", "%.08d", "%100d", "%5.100d",
		"%1000001d", "%10000010d", "%.1000001s", "%99999999999999999999d", "%5.99999999999999999999x", "%1000000.1000001b"}
	for _, d := range bad {
		for _, v := range []sx.Sexp{vi(5), vs("ab"), va(vi(1)), vf(1.5), vu} {
			emitFmt(g, ctx1("kind", d), v)
		}
	}
	for i := 0; i < 200*g.Scale; i++ {
		d := []byte(randDirective(r, "i"))
		switch r.Intn(4) {
		case 0:
			d = append(d[:1], append([]byte{d[1]}, d[1:]...)...) // repeat the first flag / digit / letter
		case 1:
			d = d[:len(d)-1]
		case 2:
			p := 1 + r.Intn(len(d)-1)
			d = append(d[:p], append([]byte{"[{<(|.%x\t"[r.Intn(9)]}, d[p:]...)...)
		case 3:
			d[r.Intn(len(d))] = " 0.9z%"[r.Intn(6)]
		}
		emitFmt(g, ctx1("kind", string(d)), scalars[r.Intn(len(scalars))])
	}
}

// ---- the extended model: SemVer, SemVerRange, URI, Timespan, Timestamp, Sensitive, Type values, object instances ----------------

func randScalarX(r *rand.Rand, pool []sx.Sexp) sx.Sexp {
	if r.Intn(3) == 0 {
		return randScalar(r)
	}
	return pool[r.Intn(len(pool))]
}

func randValueX(r *rand.Rand, pool []sx.Sexp, depth int) sx.Sexp {
	if depth <= 0 || r.Intn(3) == 0 {
		return randScalarX(r, pool)
	}
	n := r.Intn(4)
	switch r.Intn(5) {
	case 0, 1:
		xs := []sx.Sexp{}
		for i := 0; i < n; i++ {
			xs = append(xs, randValueX(r, pool, depth-1))
		}
		return va(xs...)
	case 2:
		switch r.Intn(3) {
		case 0:
			return vo("Verif::Unit")
		case 1:
			v := randValueX(r, pool, depth-1)
			if v.Tag() == "u" {
				v = vi(0) // an attribute equal to its default is not part of the init hash
			}
			return vo("Verif::One", vs("v"), v)
		}
		return vo("Verif::Pair", vs("a"), randValueX(r, pool, depth-1), vs("b"), randValueX(r, pool, depth-1))
	}
	xs := []sx.Sexp{}
	seen := map[string]bool{}
	for i := 0; i < n; i++ {
		k := randScalarX(r, pool)
		if r.Intn(6) == 0 {
			k = randValueX(r, pool, depth-1)
		}
		// keys that are equal as hash keys are one entry: keep the keys apart by kind and text
		ks := k.String()
		if k.Tag() == "f" || k.Tag() == "z" || k.Tag() == "w" || k.Tag() == "m" || seen[ks] || strings.Contains(ks, "(o ") {
			continue
		}
		seen[ks] = true
		xs = append(xs, k, randValueX(r, pool, depth-1))
	}
	return vh(xs...)
}

var allMapKeys = append(append(append([]string{}, keyNames...), "object", "type"), newKeyNames...)

func keyKind(r *rand.Rand, key string) string {
	switch key {
	case "arr", "coll":
		return "a"
	case "hash":
		return "h"
	case "object":
		return "o"
	case "str":
		return "s"
	case "bool":
		return "b"
	case "bin":
		return "x"
	case "float":
		return "f"
	case "dflt":
		return "d"
	case "undef":
		return "u"
	case "regexp":
		return "r"
	case "semver":
		return "v"
	case "semverrange":
		return "w"
	case "uri":
		return "y"
	case "timespan":
		return "n"
	case "timestamp":
		return "m"
	case "sensitive":
		return "z"
	case "type":
		return "t"
	case "any", "scalar":
		return []string{"i", "s", "a", "h", "v", "t", "o"}[r.Intn(7)]
	}
	return "i"
}

func randNodeX(r *rand.Rand, key string, depth int) sx.Sexp {
	kind := keyKind(r, key)
	d := randDirective(r, kind)
	if (kind == "a" || kind == "h" || kind == "o") && r.Intn(3) != 0 {
		s := dirSpec{flags: "", width: -1, prec: -1, letter: documentedDoc[kind][r.Intn(len(documentedDoc[kind]))]}
		if r.Intn(3) == 0 {
			s.flags = delimFlags[r.Intn(6)]
		}
		if r.Intn(4) == 0 {
			s.flags += " "
		}
		if r.Intn(6) == 0 {
			s.flags += "#"
		}
		if r.Intn(5) == 0 {
			s.width = 1 + r.Intn(20)
		}
		d = s.String()
	}
	sep, sep2, cf := sx.A("-"), sx.A("-"), sx.A("-")
	if r.Intn(3) == 0 {
		sep = sx.Str(seps[r.Intn(len(seps))])
	}
	if r.Intn(3) == 0 {
		sep2 = sx.Str(seps[r.Intn(len(seps))])
	}
	if depth > 0 && r.Intn(2) == 0 {
		cf = randMapEntriesX(r, depth-1)
	}
	return sx.L(sx.Str(d), sep, sep2, cf)
}

func randMapEntriesX(r *rand.Rand, depth int) sx.Sexp {
	n := r.Intn(5)
	xs := []sx.Sexp{}
	seen := map[string]bool{}
	for i := 0; i < n; i++ {
		k := allMapKeys[r.Intn(len(allMapKeys))]
		if seen[k] {
			continue
		}
		seen[k] = true
		xs = append(xs, sx.L(sx.A(k), randNodeX(r, k, depth)))
	}
	return sx.L(xs...)
}

func genX(g *core.G) {
	r := g.Rng
	pool := newScalarPool()
	conts := newContainerPool()
	tp := typePool()
	small := []sx.Sexp{vv("1.2.3-rc1+b5"), vw("1.x", ">=1.0.0 <2.0.0"), vy("http://example.com:8080/a%20b?x=1#f"), vn(90061500000000), vm(1500000000, 123456789),
		vz(vs("s")), tp[0], tp[1], tp[19], tp[42], aliasObjTypePool()[0], aliasObjTypePool()[3], aliasObjTypePool()[6], aliasObjTypePool()[7], vo("Verif::Unit"), vo("Verif::Pair", vs("a"), vi(1), vs("b"), va(vv("1.0.0"))), conts[6]}
	if g.Thorough() {
		small = append(append(small, pool...), conts...)
	}
	shapes := []dirSpec{{"", -1, -1, 0}, {"#", 8, -1, 0}, {"-", 30, 2, 0}, {"0+", 7, -1, 0}, {" <", 40, 0, 0}, {"#-(", 20, 12, 0}}
	for _, v := range small {
		for _, sh := range shapes {
			for i := 0; i < len(letters); i++ {
				sh.letter = letters[i]
				emitFmt(g, ctx1("kind", sh.String()), v)
			}
		}
	}
	// every pool value under the documented letters of its kind, plain / alt / padded / cut
	for _, v := range append(append([]sx.Sexp{}, pool...), conts...) {
		docs := documentedDoc[v.Tag()]
		if len(docs) > 8 {
			docs = "spdx"
		}
		for i := 0; i < len(docs); i++ {
			for _, fl := range []string{"", "#", "-45", "50", ".4", "#60.7", "[", "#|"} {
				emitFmt(g, ctx1("kind", "%"+fl+string(docs[i])), v)
			}
		}
	}
	n := 4000 * g.Scale
	for i := 0; i < n; i++ {
		var v sx.Sexp
		switch i % 4 {
		case 0:
			v = conts[r.Intn(len(conts))]
		case 1:
			v = randValueX(r, pool, 3)
		default:
			v = pool[r.Intn(len(pool))]
		}
		mode := "kind"
		switch r.Intn(10) {
		case 0, 1:
			mode = "self"
		case 2:
			mode = "new"
		}
		d := randDirective(r, v.Tag())
		if mode == "new" && !parseDir(d).ok {
			g.Emit("@fmtx " + ctx1("new", d).String() + " " + v.String())
			continue
		}
		emitFmt(g, ctx1(mode, d), v)
	}
	// the 22 default types: px.IsAssignable on all pairs (the relation the merged map is ordered and pruned by)
	for _, a := range allMapKeys {
		for _, b := range allMapKeys {
			g.Emit("keysubx " + a + " " + b)
		}
	}
	// the user's map as new(String, v, map) takes it, merged with the defaults: keys and values of every kind
	n = 1500 * g.Scale
	for i := 0; i < n; i++ {
		v := conts[r.Intn(len(conts))]
		switch r.Intn(4) {
		case 0:
			v = randValueX(r, pool, 3)
		case 1:
			v = pool[r.Intn(len(pool))]
		}
		nk := 1 + r.Intn(4)
		xs := []sx.Sexp{}
		seen := map[string]bool{}
		for j := 0; j < nk; j++ {
			k := allMapKeys[r.Intn(len(allMapKeys))]
			if r.Intn(3) == 0 {
				k = []string{"object", "type", "semver", "timespan", "scalar", "any", "arr", "hash"}[r.Intn(8)]
			}
			if seen[k] {
				continue
			}
			seen[k] = true
			xs = append(xs, sx.L(sx.A(k), randNodeX(r, k, 2)))
		}
		emitFmt(g, sx.T("mmap", xs...), v)
	}
	genTyped(g)
	genSpan(g)
	genExpanded(g)
	// per-type format maps with the keys of every kind over containers that hold every kind
	n = 2500 * g.Scale
	for i := 0; i < n; i++ {
		v := conts[r.Intn(len(conts))]
		switch r.Intn(4) {
		case 0:
			v = randValueX(r, pool, 3)
		case 1:
			v = pool[r.Intn(len(pool))]
		}
		es := randMapEntriesX(r, 2)
		emitFmt(g, sx.T("map", es.List...), v)
	}
}

// ---- format maps keyed by arbitrary (parameterised) types: op fmtt ----------------------------------------------------------------

// (String() of the type, its term in the syntax of harness/lat/doc.go)
var typedKeyPool = [][2]string{
	{"Integer[0, 9]", "(int 0 9)"}, {"Integer[5, 20]", "(int 5 20)"}, {"Integer[-5, 5]", "(int -5 5)"}, {"Integer[0]", "(int 0 9223372036854775807)"},
	{"Integer[default, 0]", "(int -9223372036854775808 0)"}, {"Integer[1, 1]", "(int 1 1)"}, {"Integer", "(int -9223372036854775808 9223372036854775807)"},
	{"String[1, 5]", "(strsz 1 5)"}, {"String[2]", "(strsz 2 9223372036854775807)"}, {"String", "str"}, {"Enum['a', 'b']", "(enum f x61 x62)"}, {"Enum['a']", "(enum f x61)"},
	{"Pattern[/a/]", "(pat x61)"}, {"Pattern[/^a.*$/]", "(pat x5e612e2a24)"},
	{"Array[String]", "(arr str 0 9223372036854775807)"}, {"Array[Integer]", "(arr (int -9223372036854775808 9223372036854775807) 0 9223372036854775807)"},
	{"Array[Integer[0, 9]]", "(arr (int 0 9) 0 9223372036854775807)"}, {"Array[Integer, 1, 3]", "(arr (int -9223372036854775808 9223372036854775807) 1 3)"},
	{"Array[Scalar]", "(arr scalar 0 9223372036854775807)"}, {"Array[2, 2]", "(arr any 2 2)"},
	{"Array[Array[Integer]]", "(arr (arr (int -9223372036854775808 9223372036854775807) 0 9223372036854775807) 0 9223372036854775807)"},
	{"Array[Data]", "(arr data 0 9223372036854775807)"}, {"Array", "(arr any 0 9223372036854775807)"},
	{"Hash[String, Integer]", "(hash str (int -9223372036854775808 9223372036854775807) 0 9223372036854775807)"}, {"Hash[String, Any]", "(hash str any 0 9223372036854775807)"},
	{"Hash[Integer, String]", "(hash (int -9223372036854775808 9223372036854775807) str 0 9223372036854775807)"},
	{"Hash[String, Integer, 1, 2]", "(hash str (int -9223372036854775808 9223372036854775807) 1 2)"},
	{"Hash[String, Array[Integer]]", "(hash str (arr (int -9223372036854775808 9223372036854775807) 0 9223372036854775807) 0 9223372036854775807)"},
	{"Hash", "(hash any any 0 9223372036854775807)"},
	{"Tuple[Integer, String]", "(tup ((int -9223372036854775808 9223372036854775807) str) none)"}, {"Tuple[Integer]", "(tup ((int -9223372036854775808 9223372036854775807)) none)"},
	{"Tuple[String, Integer, 1, 3]", "(tup (str (int -9223372036854775808 9223372036854775807)) (1 3))"},
	{"Struct[{'a' => Integer}]", "(struct (x61 f (int -9223372036854775808 9223372036854775807)))"},
	{"Struct[{'a' => Integer, Optional['b'] => String}]", "(struct (x61 f (int -9223372036854775808 9223372036854775807)) (x62 t str))"},
	{"Variant[Integer, String]", "(var (int -9223372036854775808 9223372036854775807) str)"}, {"Variant[Undef, Integer[0, 9]]", "(var undef (int 0 9))"},
	{"Optional[Integer]", "(opt (int -9223372036854775808 9223372036854775807))"}, {"Optional[Integer[0, 9]]", "(opt (int 0 9))"}, {"Optional[String]", "(opt str)"}, {"NotUndef[String]", "(nu str)"}, {"NotUndef", "(nu any)"},
	{"Collection[1, 3]", "(coll 1 3)"}, {"Collection[0, 2]", "(coll 0 2)"}, {"Collection", "(coll 0 9223372036854775807)"},
	{"ScalarData", "sdata"}, {"Data", "data"}, {"RichData", "rdata"}, {"Scalar", "scalar"}, {"Numeric", "numeric"}, {"Any", "any"},
	{"Boolean", "(bool n)"}, {"Boolean[true]", "(bool t)"}, {"Undef", "undef"}, {"Default", "default"}, {"Regexp", "(rx x)"}, {"Regexp[/a/]", "(rx x61)"},
	{"Binary", "bin"}, {"Timespan", "(tspan -9223372036854775808 9223372036854775807)"}, {"Sensitive[String]", "(sens str)"}, {"Sensitive", "(sens any)"},
	{"Float", "(flt (-9007199254740991 971) (9007199254740991 971))"}, {"Iterable[Integer]", "(iter (int -9223372036854775808 9223372036854775807))"},
	{"Timespan['0-00:00:01.0', '0-00:01:00.0']", "(tspan 1000000000 60000000000)"}, {"Type", "(type any)"}, {"Object", "(obj)"},
}

type typedKey struct {
	name string
	term sx.Sexp
	ty   lat.Ty
}

func typedKeys() []typedKey {
	out := make([]typedKey, 0, len(typedKeyPool))
	for _, p := range typedKeyPool {
		es, err := sx.Parse(p[1])
		if err != nil || len(es) != 1 {
			panic(fmt.Sprintf("bad term %s", p[1]))
		}
		t, err := lat.ParseTy(es[0])
		if err != nil {
			panic(err)
		}
		out = append(out, typedKey{p[0], es[0], t})
	}
	return out
}

// a value term of the lattice model in the value syntax of this package; ok = false for the kinds that are not carried over
func ofLatVal(v lat.Val) (sx.Sexp, bool) {
	switch v.K {
	case "undef":
		return vu, true
	case "default":
		return vd, true
	case "b":
		return vb(v.B), true
	case "i":
		return vi(v.I), true
	case "s":
		return vs(v.S), utf8.ValidString(v.S)
	case "rxv":
		return vr(v.S), utf8.ValidString(v.S)
	case "binv":
		return vx(v.S), true
	case "ts":
		return vn(v.I), true
	case "sv":
		x, ok := ofLatVal(v.Vs[0])
		return vz(x), ok
	case "a":
		xs := []sx.Sexp{}
		for _, k := range v.Vs {
			x, ok := ofLatVal(k)
			if !ok {
				return vu, false
			}
			xs = append(xs, x)
		}
		return va(xs...), true
	case "h":
		xs := []sx.Sexp{}
		for _, e := range v.Es {
			k, ok1 := ofLatVal(e.K)
			x, ok2 := ofLatVal(e.V)
			if !ok1 || !ok2 || k.Tag() == "z" {
				return vu, false
			}
			xs = append(xs, k, x)
		}
		return vh(xs...), true
	}
	return vu, false
}

// the kind of directive that suits values of a key type
func typedKeyKind(r *rand.Rand, t lat.Ty) string {
	switch t.K {
	case "int", "numeric", "flt":
		return "i"
	case "str", "strsz", "strval", "enum", "pat":
		return "s"
	case "arr", "tup":
		return "a"
	case "hash", "struct":
		return "h"
	case "coll":
		return []string{"a", "h"}[r.Intn(2)]
	case "bool":
		return "b"
	case "undef":
		return "u"
	case "default":
		return "d"
	case "rx":
		return "r"
	case "bin":
		return "x"
	case "tspan":
		return "n"
	case "sens":
		return "z"
	}
	return []string{"i", "s", "a", "h", "s"}[r.Intn(5)]
}

func typedNode(r *rand.Rand, pool []typedKey, k typedKey, depth int) sx.Sexp {
	kind := typedKeyKind(r, k.ty)
	d := randDirective(r, kind)
	if kind == "a" || kind == "h" {
		// supported container formats, non-alt mostly; the letter a on a Hash-accepting key would format HashEntries, whose
		// inferred type is modelled too (the array [k, v])
		s := dirSpec{flags: "", width: -1, prec: -1, letter: documentedDoc[kind][r.Intn(len(documentedDoc[kind]))]}
		if r.Intn(3) == 0 {
			s.flags = delimFlags[r.Intn(6)]
		}
		if r.Intn(6) == 0 {
			s.flags += "#"
		}
		if r.Intn(5) == 0 {
			s.width = 1 + r.Intn(20)
		}
		d = s.String()
	}
	for strings.IndexByte("eEfgG", d[len(d)-1]) >= 0 {
		d = randDirective(r, kind) // an Integer under a float letter needs fmt's digits
	}
	sep, sep2, cf := sx.A("-"), sx.A("-"), sx.A("-")
	if r.Intn(4) == 0 {
		sep = sx.Str(seps[r.Intn(len(seps))])
	}
	if r.Intn(4) == 0 {
		sep2 = sx.Str(seps[r.Intn(len(seps))])
	}
	if depth > 0 && (kind == "a" || kind == "h") && r.Intn(2) == 0 {
		cf = sx.L(typedEntries(r, pool, 1+r.Intn(3), depth-1)...)
	}
	return sx.L(sx.Str(d), sep, sep2, cf)
}

func typedEntries(r *rand.Rand, pool []typedKey, n int, depth int) []sx.Sexp {
	xs := []sx.Sexp{}
	seen := map[string]bool{}
	for i := 0; i < n; i++ {
		k := pool[r.Intn(len(pool))]
		if seen[k.name] {
			continue
		}
		seen[k.name] = true
		xs = append(xs, sx.L(sx.L(k.term, sx.Str(k.name)), typedNode(r, pool, k, depth)))
	}
	return xs
}

// groups of key types that overlap without being comparable (so that the acceptor count ties and rank and name decide), with
// values most of them accept
var typedGroups = []struct {
	keys []string
	vals []sx.Sexp
}{
	{[]string{"Integer[0, 9]", "Integer[5, 20]", "Integer[-5, 5]", "Integer[0]", "Integer[default, 0]", "Integer[1, 1]", "Integer", "Variant[Undef, Integer[0, 9]]",
		"Optional[Integer]", "Variant[Integer, String]", "Numeric", "Scalar", "ScalarData", "Data", "RichData", "NotUndef", "Any"},
		[]sx.Sexp{vi(0), vi(1), vi(5), vi(7), vi(9), vi(15), vi(-3), vi(100), vu}},
	{[]string{"String[1, 5]", "String[2]", "String", "Enum['a', 'b']", "Enum['a']", "Pattern[/a/]", "Pattern[/^a.*$/]", "Variant[Integer, String]", "Optional[String]",
		"NotUndef[String]", "Scalar", "ScalarData", "Data", "Iterable[Integer]", "Any"},
		[]sx.Sexp{vs("a"), vs("b"), vs("ab"), vs("abc"), vs("hello!"), vs(""), vs("ba"), vu}},
	{[]string{"Array[Integer]", "Array[Integer[0, 9]]", "Array[Integer, 1, 3]", "Array[2, 2]", "Array[Scalar]", "Array[Data]", "Array", "Array[String]", "Tuple[Integer]",
		"Tuple[Integer, String]", "Tuple[String, Integer, 1, 3]", "Collection[1, 3]", "Collection[0, 2]", "Collection", "Iterable[Integer]", "Data", "Array[Array[Integer]]"},
		[]sx.Sexp{va(), va(vi(1)), va(vi(1), vi(2)), va(vi(5), vi(50)), va(vi(1), vs("a")), va(vs("a"), vi(1)), va(vs("a"), vs("b")), va(vi(1), vi(2), vi(3), vi(4)), va(va(vi(1)), va(vi(2), vi(3)))}},
	{[]string{"Hash[String, Integer]", "Hash[String, Any]", "Hash[Integer, String]", "Hash[String, Integer, 1, 2]", "Hash[String, Array[Integer]]", "Hash",
		"Struct[{'a' => Integer}]", "Struct[{'a' => Integer, Optional['b'] => String}]", "Collection[1, 3]", "Collection[0, 2]", "Collection", "Data", "Array[2, 2]", "Array",
		"Array[Integer, 1, 3]", "Array[Scalar]"},
		[]sx.Sexp{vh(), vh(vs("a"), vi(1)), vh(vs("a"), vi(1), vs("b"), vi(2)), vh(vs("a"), vi(1), vs("b"), vs("x")), vh(vi(1), vs("x")), vh(vs("a"), va(vi(1), vi(2))),
			vh(vs("a"), vi(1), vs("b"), vi(2), vs("c"), vi(3)), vh(vi(1), vi(2))}},
}

func genTypedGroups(g *core.G, pool []typedKey) {
	r := g.Rng
	byName := map[string]typedKey{}
	for _, k := range pool {
		byName[k.name] = k
	}
	n := 600 * g.Scale
	for i := 0; i < n; i++ {
		grp := typedGroups[i%len(typedGroups)]
		nk := 2 + r.Intn(3)
		ks := []sx.Sexp{}
		seen := map[string]bool{}
		for j := 0; j < nk; j++ {
			name := grp.keys[r.Intn(len(grp.keys))]
			k, ok := byName[name]
			if !ok {
				panic("typedGroups: no such key type " + name)
			}
			if seen[name] {
				continue
			}
			seen[name] = true
			// plain directives that tell the entries apart: a width, a delimiter
			var d string
			switch i % len(typedGroups) {
			case 0:
				d = []string{"%d", "%x", "%o", "%5d", "%-4x", "%b", "%#x", "%p", "%s", "%03d"}[r.Intn(10)]
			case 1:
				d = []string{"%s", "%p", "%c", "%u", "%5s", "%-6p", "%.2s", "%d", "%C", "%t"}[r.Intn(10)]
			case 2:
				d = []string{"%a", "%<a", "%(a", "%|a", "%{a", "%s", "%p", "%#a", "%[p", "% a"}[r.Intn(10)]
			default:
				// the letter a on a Hash renders its entries as arrays: their inferred type is Array[…, 2, 2]
				d = []string{"%h", "%<h", "%(h", "%|h", "%a", "%a", "%s", "%p", "%[h", "%<a", "%(a", "%#h"}[r.Intn(12)]
			}
			sep := sx.A("-")
			if r.Intn(4) == 0 {
				sep = sx.Str(seps[r.Intn(len(seps))])
			}
			ks = append(ks, sx.L(sx.L(k.term, sx.Str(k.name)), sx.L(sx.Str(d), sep, sx.A("-"), sx.A("-"))))
		}
		v := grp.vals[r.Intn(len(grp.vals))]
		mode := "tmmap"
		if r.Intn(3) == 0 {
			mode = "tmap"
		}
		emitFmt(g, sx.T(mode, ks...), v)
	}
}

// fixed small universe of the merged order: key sets in which two keys that accept the same value are NOT comparable and have the same
// number of acceptors once merged with the defaults, so that typeRank decides (one case per rank class: Integer 13 / String 12 / Enum 11 /
// Pattern 10 / Array 4 / Tuple 3 / Hash 2 / Struct 1 / anything else 0) — every order of the user's entries, several values; and the
// entries of a Hash formatted with the letter a, whose inferred type Array[…, 2, 2] is looked up in the string_formats of the Array format
func genTypedFixed(g *core.G, pool []typedKey) {
	byName := map[string]typedKey{}
	for _, k := range pool {
		byName[k.name] = k
	}
	key := func(name string) sx.Sexp {
		k, ok := byName[name]
		if !ok {
			panic("genTypedFixed: no such key type " + name)
		}
		return sx.L(k.term, sx.Str(k.name))
	}
	plain := func(name, d string) sx.Sexp { return sx.L(key(name), sx.L(sx.Str(d), sx.A("-"), sx.A("-"), sx.A("-"))) }
	cases := []struct {
		keys []string
		dirs []string
		vals []sx.Sexp
	}{
		{[]string{"Integer[5, 20]", "Variant[Undef, Integer[0, 9]]", "Optional[Integer[0, 9]]"}, []string{"%d", "%4d", "%08d"}, []sx.Sexp{vi(7), vi(5), vi(15), vi(3), vi(9), vu}},
		{[]string{"Integer[0, 9]", "Integer[5, 20]", "Integer[-5, 5]"}, []string{"%d", "%4d", "%08d"}, []sx.Sexp{vi(7), vi(5), vi(15), vi(3), vi(-2)}},
		{[]string{"String[1, 5]", "Pattern[/a/]"}, []string{"%s", "%p"}, []sx.Sexp{vs("a"), vs("ab"), vs("b"), vs("banana")}},
		{[]string{"Enum['a', 'b']", "Pattern[/a/]"}, []string{"%s", "%p"}, []sx.Sexp{vs("a"), vs("b"), vs("ab")}},
		{[]string{"Enum['a', 'b']", "String[2]", "Pattern[/^a.*$/]"}, []string{"%s", "%p", "%9s"}, []sx.Sexp{vs("a"), vs("b"), vs("ab"), vs("ba")}},
		{[]string{"Array[Integer[0, 9]]", "Tuple[Integer]"}, []string{"%<a", "%(a"}, []sx.Sexp{va(vi(5)), va(vi(50)), va(vi(1), vi(2)), va()}},
		{[]string{"Array[Integer, 1, 3]", "Collection[0, 2]", "Tuple[Integer, String]"}, []string{"%<a", "%(a", "%|a"}, []sx.Sexp{va(vi(5)), va(vi(1), vi(2)), va(vi(1), vs("a")), va(vi(1), vi(2), vi(3))}},
		{[]string{"Hash[String, Integer, 1, 2]", "Struct[{'a' => Integer, Optional['b'] => String}]"}, []string{"%<h", "%(h"},
			[]sx.Sexp{vh(vs("a"), vi(1)), vh(vs("a"), vi(1), vs("b"), vs("x")), vh(vs("a"), vi(1), vs("c"), vi(2)), vh()}},
		{[]string{"Hash[String, Any]", "Collection[1, 3]", "Struct[{'a' => Integer}]"}, []string{"%<h", "%(h", "%|h"}, []sx.Sexp{vh(vs("a"), vi(1)), vh(vs("a"), vs("x")), vh(vs("a"), vi(1), vs("b"), vi(2))}},
	}
	perms := [][]int{{0, 1, 2}, {0, 2, 1}, {1, 0, 2}, {1, 2, 0}, {2, 0, 1}, {2, 1, 0}}
	for _, cs := range cases {
		for _, pm := range perms {
			ks := []sx.Sexp{}
			ok := true
			for _, i := range pm {
				if i >= len(cs.keys) {
					if i == 2 && len(cs.keys) == 2 {
						continue
					}
					ok = false
					break
				}
				ks = append(ks, plain(cs.keys[i], cs.dirs[i]))
			}
			if !ok {
				continue
			}
			for _, v := range cs.vals {
				emitFmt(g, sx.T("tmmap", ks...), v)
				emitFmt(g, sx.T("tmap", ks...), v)
			}
		}
	}
	// Hash => %a: the entries are formatted as arrays under the string_formats of the Array format
	sf := sx.L(plain("Array[2, 2]", "%<a"), plain("Array", "%(a"), plain("Array[Integer, 1, 3]", "%|a"))
	sf2 := sx.L(plain("Array", "%(a"), plain("Array[2, 2]", "%<a"))
	for _, inner := range []sx.Sexp{sf, sf2} {
		arr := sx.L(key("Array"), sx.L(sx.Str("%a"), sx.A("-"), sx.A("-"), inner))
		for _, hk := range []string{"Hash", "Collection", "Hash[String, Any]"} {
			for _, v := range []sx.Sexp{vh(vs("a"), vi(1)), vh(vs("a"), vi(1), vs("b"), vi(2)), vh(vi(1), vs("x")), vh(), va(vh(vi(1), vi(2)))} {
				emitFmt(g, sx.T("tmmap", plain(hk, "%a"), arr), v)
				emitFmt(g, sx.T("tmap", arr, plain(hk, "%a")), v)
			}
		}
	}
}

func genTyped(g *core.G) {
	r := g.Rng
	pool := typedKeys()
	genTypedFixed(g, pool)
	genTypedGroups(g, pool)
	lg := &lat.Gen{R: r}
	// values: witnesses of the key types of the map (so that its entries apply), pool values, random lattice values
	plain := []sx.Sexp{vi(0), vi(5), vi(7), vi(15), vi(-3), vi(100), vs("a"), vs("ab"), vs("hello"), vs(""), vs("abcdefg"), vb(true), vu, vd, vr("a"), vx("ab"),
		vn(1500000000), vn(30000000000), vz(vs("s")), va(), va(vi(1), vi(2)), va(vi(5), vi(50)), va(vs("a"), vs("b")), va(vi(1), vs("a")), va(va(vi(1)), va(vi(2), vi(3))),
		vh(), vh(vs("a"), vi(1)), vh(vs("a"), vi(1), vs("b"), vi(2)), vh(vi(1), vs("x")), vh(vs("a"), va(vi(1), vi(2))), vh(vs("a"), vs("x")), va(vh(vs("a"), vi(1)), vi(3)),
		va(vi(0), vi(9), vu), vh(vs("a"), vi(1), vs("b"), vs("x"))}
	n := 2500 * g.Scale
	for i := 0; i < n; i++ {
		ks := typedEntries(r, pool, 1+r.Intn(4), 2)
		var v sx.Sexp
		ok := false
		switch r.Intn(4) {
		case 0, 1:
			// a witness of one of the keys
			k := ks[r.Intn(len(ks))]
			t, err := lat.ParseTy(k.List[0].List[0])
			if err == nil {
				if w, wok := lg.Witness(t); wok {
					v, ok = ofLatVal(w)
				}
			}
		case 2:
			v, ok = ofLatVal(lg.Val(2))
		}
		if !ok {
			v = plain[r.Intn(len(plain))]
		}
		mode := "tmmap"
		if r.Intn(3) == 0 {
			mode = "tmap"
		}
		emitFmt(g, sx.T(mode, ks...), v)
	}
}

// ---- Timespan.Format: op span ---------------------------------------------------------------------------------------------------------

func genSpan(g *core.G) {
	r := g.Rng
	emit := func(f string, ns int64) {
		line := "span " + sx.Str(f).Atom + " " + strconv.FormatInt(ns, 10)
		if !utf8.ValidString(f) {
			line = "@" + line // a format is a sequence of characters in the model
		}
		g.Emit(line)
	}
	spans := append([]int64{}, spanPool...)
	spans = append(spans, math.MinInt64, 90061501234567, -90061501234567, 50000000, 5000000, 1000, 999, 59999999999, 3599999999999, 86399999999999, 1234567890123456789)
	// exhaustive small universe: every letter x every flag x widths {-,0,1,2,3,5,9,12}, alone and after a higher / lower unit
	letters := "DHMSLN"
	for i := 0; i < len(letters); i++ {
		for _, fl := range []string{"", "-", "_", "0"} {
			for _, w := range []string{"", "0", "1", "2", "3", "5", "9", "12"} {
				d := "%" + fl + w + string(letters[i])
				for _, ns := range spans {
					emit(d, ns)
					if !g.Thorough() && ns != 90061501234567 && ns != -90061500000000 && ns != 50000000 {
						continue
					}
					emit("%D " + d, ns)
					emit(d + ":%N", ns)
				}
			}
		}
	}
	for _, f := range []string{"%D-%H:%M:%S.%N", "%D-%H:%M:%S.%-N", "%H:%M:%S.%-N", "%M:%S.%-N", "%S.%-N", "%D-%H:%M:%S", "%H:%M:%S", "%D-%H:%M", "%S", "%S.%L", "%S.%-L",
		"%H:%M", "%_5H|%-H|%05H", "%-N|%N|%_N|%3N|%-12N|", "%%", "%5%x", "a%Db", "é%Hé", "%0H", "%00H", "%D%D", "%H%H", "100%% %S", "", "no directive",
		"%20000000D", "%S %-20000000N", "%_30000000H", "%1000001S.%N"} {
		for _, ns := range spans {
			emit(f, ns)
		}
	}
	// malformed
	for _, f := range []string{"%", "%5", "%-", "%-_H", "%x", "%_-H", "%5-H", "%H%", "%d", "%h", "% H", "%.3N", "%+H", "%5_H", "%--H", "%_", "%0", "%00", "x%", "%\xffH", "\xff%H"} {
		emit(f, 90061501234567)
	}
	// random formats: literals, directives with random flags and widths, now and then a malformed piece
	n := 1500 * g.Scale
	lits := []string{"", ":", "-", ".", " ", "d ", "é", "%%", "h", "T"}
	for i := 0; i < n; i++ {
		f := ""
		for j := 1 + r.Intn(5); j > 0; j-- {
			f += lits[r.Intn(len(lits))]
			d := "%" + []string{"", "", "-", "_", "0"}[r.Intn(5)]
			if r.Intn(3) == 0 {
				d += strconv.Itoa(r.Intn(15))
			}
			d += string(letters[r.Intn(len(letters))])
			if r.Intn(25) == 0 {
				d = []string{"%", "%-", "%q", "%5", "%_-D", "%1_H"}[r.Intn(6)]
			}
			f += d
		}
		f += lits[r.Intn(len(lits))]
		ns := spans[r.Intn(len(spans))]
		if r.Intn(3) == 0 {
			ns = r.Int63n(1<<uint(1+r.Intn(62))) * int64(1-2*r.Intn(2))
		}
		emit(f, ns)
	}
}

// ---- contexts with the property expanded (what String() of an object type and px.ToString2(v, types.Expanded) use) ------------------------

func genExpanded(g *core.G) {
	r := g.Rng
	pool := expandedPool()
	// types.Expanded: DefaultFormats with the property
	plainE := func(k, d string) sx.Sexp { return sx.L(sx.A(k), sx.L(sx.Str(d), sx.A("-"), sx.A("-"), sx.A("-"))) }
	dfl := sx.T("xmap", plainE("object", "%(p"), plainE("type", "%(p"), plainE("float", "%f"), plainE("numeric", "%d"), plainE("arr", "%[a"),
		plainE("hash", "%{h"), plainE("bin", "%B"), plainE("any", "%s"))
	for _, v := range pool {
		emitFmt(g, dfl, v)
		for _, d := range []string{"%s", "%p", "%#p", "%#s", "%30p", "%-12s", "%.9p", "%d", "%a", "%<p"} {
			emitFmt(g, ctx1("xkind", d), v)
		}
		emitFmt(g, sx.T("xmap"), v)
		emitFmt(g, sx.T("xmap", plainE("type", "%#p")), v)
		emitFmt(g, sx.T("xmap", plainE("type", "%#p"), plainE("arr", "%#a"), plainE("hash", "%#h")), v)
		emitFmt(g, sx.T("xmap", plainE("any", "%#p")), v)
	}
	n := 600 * g.Scale
	for i := 0; i < n; i++ {
		v := pool[r.Intn(len(pool))]
		if r.Intn(2) == 0 {
			emitFmt(g, ctx1("xkind", randDirective(r, "j")), v)
		} else {
			es := randMapEntriesX(r, 2)
			emitFmt(g, sx.T("xmap", es.List...), v)
		}
	}
}
