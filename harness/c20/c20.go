// Package c20: string formatting is total and faithful to the format directive (property C20).
//
// op (model + implementation; a leading '@' = implementation only):
//
//	fmt <ctx> <value>
//
// value syntax:  (i N) (f BITS) (s xHEX) (b t|f) (u) (d) (x xHEX) (r xHEX) (a v*) (h (k v)*)
//   op fmtx only (the extended model, lean/Pcore/Model/FormatX.lean; executed here exactly as fmt):
//	             (v xVERSION)  SemVer      (w xRANGE xNORMALIZED)  SemVerRange      (y xURI)  URI      (n NANOSECONDS)  Timespan
//	             (m SEC NSEC xTEXT)  Timestamp, TEXT = time.Format of Go's time package with the default layout (a parameter of the model)
//	             (z v)  Sensitive      (t xSOURCE xNAME param*)  a Type: SOURCE is parsed here, (NAME, params) = (Name(), Parameters()) is
//	             what the model formats (checked against the parsed type by the predicate type-decomposition)
//	             (o xTYPENAME (k v)*)  an instance of an object type of the catalogue with that init hash
//	             (j xSOURCE t|f (xKEY v)*)  an object type in a context with the property `expanded` (ctx xkind / xmap): a container there,
//	             written expanded from its init hash (which holds its name) unless it is the default Object type (flag t)
//	ctx (xkind xDIRECTIVE) / (xmap (KEY FMT)*): as kind / map, the context carrying the property expanded = true (what px.ToString2(v,
//	             types.Expanded) and String() of an object type use); values then hold (j …) wherever an object type occurs outside the
//	             init hash of another one
//	             (l xSOURCE xNAME RESOLVED)  a type alias used as a value (RESOLVED: its resolved type as a value, name only)
//	             (q xSOURCE xNAME (xKEY v)*)  an object type used as a value; NAME = "" for an anonymous one, then with the entries of
//	             its init hash (InitHash(): what basicTypeToString writes)
// ctx syntax:    (kind xDIRECTIVE)   px.NewFormatContext(<default type of the value's kind>, NewFormat(directive), indentation)
//
//	             (self xDIRECTIVE)   px.NewFormatContext(v.PType(), NewFormat(directive), indentation)
//	             (new  xDIRECTIVE)   px.New(c, String, v, directive)  — the String constructor
//	             (map (KEY FMT)*)    px.NewFormatContext2(indentation, types.NewFormatMap({KEY => FMT …}), nil)
//	FMT ::= (xDIRECTIVE SEP SEP2 CF)   SEP, SEP2 ::= - | xHEX     CF ::= - | ((KEY FMT)*)
//	KEY ::= any scalar numeric int float str bool bin arr hash coll undef dflt regexp object type  (the parameterless types)
//	        | semver semverrange uri timespan timestamp sensitive   (op fmtx only)
//   op fmtt (maps keyed by ARBITRARY types):  ctx ::= (tmap ((T xNAME) FMT)*) | (tmmap ((T xNAME) FMT)*)  — as map / mmap; T is a
//	             type term of the lattice model (harness/lat/doc.go) built here by lat.BuildCtor, NAME its String() (what the
//	             merged map is ordered by last; checked against the built type by the predicate payload-mismatch)
//   op keysubx A B : px.IsAssignable on the 22 default types
//   op span xFORMAT NS : types.WrapTimespan(NS).Format(FORMAT) — the format strings of a Timespan (%D %H %M %S %L %N, the flags - _ 0, a width)
//	             out: `text xHEX` | `reported PCORE_TIMESPAN_BAD_FORMAT_SPEC` | `fault`
//
// out: `text xHEX` | `reported <CODE>` | `fault` | `timeout`
package c20

import (
	"fmt"
	"math"
	"os"
	"regexp"
	"runtime"
	"strconv"
	"strings"
	"sync"
	"time"
	"unicode/utf8"

	"verif/harness/core"
	"verif/harness/lat"
	"verif/harness/sx"

	"github.com/lyraproj/issue/issue"
	"github.com/lyraproj/pcore/px"
	"github.com/lyraproj/pcore/types"
	"github.com/lyraproj/semver/semver"
)

func init() {
	core.Register(&core.Prop{
		ID:   "C20",
		Rule: "distinct op lines; non-trivial = the directive carries a flag, width or precision, or the value is a container, or the context is a per-type format map",
		Gen:  gen,
		Exec: exec,
	})
}

const unsupported = "PCORE_UNSUPPORTED_STRING_FORMAT"

// ---- directives: an independent reading of the grammar %[flags][width][.prec]letter ---------------------------

type dir struct {
	raw                             string
	ok                              bool // in the grammar, no repeated flag, at most one delimiter
	plus, space, minus, sharp, zero bool
	delim                           byte // 0 = none
	width, prec                     int  // -1 = none
	letter                          byte
}

func isLetter(c byte) bool { return c >= 'a' && c <= 'z' || c >= 'A' && c <= 'Z' }

func parseDir(s string) dir {
	d := dir{raw: s, width: -1, prec: -1}
	if len(s) < 2 || s[0] != '%' {
		return d
	}
	i := 1
	seen := map[byte]bool{}
	rep := false
	delims := 0
	for ; i < len(s); i++ {
		c := s[i]
		if strings.IndexByte(" [+#0{<(|-", c) < 0 {
			break
		}
		if seen[c] {
			rep = true
		}
		seen[c] = true
		switch c {
		case '+':
			d.plus = true
		case ' ':
			d.space = true
		case '-':
			d.minus = true
		case '#':
			d.sharp = true
		case '0':
			d.zero = true
		case '[', '{', '<', '(', '|':
			if d.delim == 0 || d.delim != c {
				delims++
			}
			d.delim = c
		}
	}
	if i < len(s) && s[i] >= '1' && s[i] <= '9' {
		j := i
		for j < len(s) && s[j] >= '0' && s[j] <= '9' {
			j++
		}
		d.width, _ = strconv.Atoi(s[i:j])
		i = j
	}
	if i < len(s) && s[i] == '.' {
		j := i + 1
		for j < len(s) && s[j] >= '0' && s[j] <= '9' {
			j++
		}
		if j == i+1 {
			return d
		}
		d.prec, _ = strconv.Atoi(s[i+1 : j])
		i = j
	}
	if i != len(s)-1 || !isLetter(s[i]) {
		return d
	}
	d.letter = s[i]
	// a width or precision beyond what fmt accepts (10^6) is not a directive
	d.ok = !rep && delims <= 1 && d.width <= 1000000 && d.prec <= 1000000
	return d
}

// ldelim as the Format record holds it: the delimiter flag, else ' ' when the space flag is given, else 0
func (d dir) ldelim() byte {
	if d.delim != 0 {
		return d.delim
	}
	if d.space {
		return ' '
	}
	return 0
}

func (d dir) plain() bool { // no flag, width or precision
	return !(d.plus || d.space || d.minus || d.sharp || d.zero) && d.delim == 0 && d.width < 0 && d.prec < 0
}

type dirSpec struct {
	flags  string
	width  int
	prec   int
	letter byte
}

func (s dirSpec) String() string {
	b := "%" + s.flags
	if s.width >= 0 {
		b += strconv.Itoa(s.width)
	}
	if s.prec >= 0 {
		b += "." + strconv.Itoa(s.prec)
	}
	return b + string(s.letter)
}

const letters = "abcdefghijklmnopqrstuvwxyzABCDEFGHIJKLMNOPQRSTUVWXYZ"

var widths = []int{-1, 1, 5, 12}
var precs = []int{-1, 0, 1, 3, 8}
var delimFlags = []string{"", "[", "{", "<", "(", "|"}

func flagSubset(mask int) string {
	s := ""
	for i, c := range " +#0-" {
		if mask&(1<<uint(i)) != 0 {
			s += string(c)
		}
	}
	return s
}

// ---- documented letter sets, per value kind ---------------------------------------------------------------------------
//
// The documented set of a kind is the literal the code hands to UnsupportedFormat (argument `supported_formats` of the
// reported error).  It is read from the implementation under test by provoking that error once per kind; the table
// below is what the doc comments / the Puppet specification list and is used for kinds that never raise the error.

var documentedDoc = map[string]string{
	"i": "dxXobBeEfgGaAspc",
	"f": "dxXobBeEfgGaAsp",
	"s": "cCudspt",
	"b": "tTyYdxXobBeEfgGaAsp",
	"x": "bButTsp",
	"d": "dDsp",
	"a": "asp",
	"h": "hasp",
	"u": letters, // Undef and Regexp never reject a letter: nothing is documented for them
	"r": letters,
	"v": "sp",
	"w": "ps",
	"y": "sp",
	"t": "sp",
	"o": "hasp",
	"q": "sp",
	"j": "sp",
	"l": letters, // a type alias writes its name whatever the format says
	"n": letters, // Timespan, Timestamp and Sensitive ignore the format altogether
	"m": letters,
	"z": letters,
}

var documentedMu sync.Mutex
var documentedSeen = map[string]string{}

func documentedOf(tag string, v px.Value) string {
	documentedMu.Lock()
	defer documentedMu.Unlock()
	if s, ok := documentedSeen[tag]; ok {
		return s
	}
	found := documentedDoc[tag]
	ch := make(chan string, 1)
	go func() {
		for i := len(letters) - 1; i >= 0; i-- {
			lit := ""
			func() {
				defer func() {
					if e := recover(); e != nil {
						if r, ok := e.(issue.Reported); ok && string(r.Code()) == unsupported {
							if a, ok := r.Argument("supported_formats").(string); ok {
								lit = a
							}
						}
					}
				}()
				px.ToString2(v, px.NewFormatContext(keyType(kindKey(tag)), px.NewFormat("%"+string(letters[i])), px.NewIndentation(false, 0)))
			}()
			if lit != "" {
				ch <- lit
				return
			}
		}
		ch <- ""
	}()
	select {
	case lit := <-ch:
		if lit != "" {
			found = lit
		}
	case <-time.After(2 * time.Second):
	}
	documentedSeen[tag] = found
	return found
}

// ---- values -------------------------------------------------------------------------------------------------

func valOf(e sx.Sexp) px.Value {
	a := e.Args()
	switch e.Tag() {
	case "i":
		return types.WrapInteger(a[0].MustInt())
	case "f":
		u, err := strconv.ParseUint(a[0].Atom, 10, 64)
		if err != nil {
			panic(err)
		}
		return types.WrapFloat(math.Float64frombits(u))
	case "s":
		return types.WrapString(a[0].MustStr())
	case "b":
		return types.WrapBoolean(a[0].MustBool())
	case "u":
		return px.Undef
	case "d":
		return types.WrapDefault()
	case "x":
		return types.WrapBinary([]byte(a[0].MustStr()))
	case "r":
		return types.WrapRegexp(a[0].MustStr())
	case "a":
		vs := make([]px.Value, len(a))
		for i, k := range a {
			vs[i] = valOf(k)
		}
		return types.WrapValues(vs)
	case "h":
		es := make([]*types.HashEntry, len(a))
		for i, kv := range a {
			es[i] = types.WrapHashEntry(valOf(kv.List[0]), valOf(kv.List[1]))
		}
		return types.WrapHash(es)
	case "v":
		return types.WrapSemVer(semver.MustParseVersion(a[0].MustStr()))
	case "w":
		return types.WrapSemVerRange(semver.MustParseVersionRange(a[0].MustStr()))
	case "y":
		return types.WrapURI2(a[0].MustStr())
	case "n":
		return types.WrapTimespan(time.Duration(a[0].MustInt()))
	case "m":
		return types.WrapTimestamp(time.Unix(a[0].MustInt(), a[1].MustInt()).UTC())
	case "z":
		return types.WrapSensitive(valOf(a[0]))
	case "t", "l", "q", "j":
		ensureCatalogue(curCtx)
		return curCtx.ParseType(a[0].MustStr())
	case "o":
		ensureCatalogue(curCtx)
		es := make([]*types.HashEntry, len(a)-1)
		for i, kv := range a[1:] {
			es[i] = types.WrapHashEntry(valOf(kv.List[0]), valOf(kv.List[1]))
		}
		tn := a[0].MustStr()
		if tn == "" {
			// an instance of an anonymous object type (written as the Hash of its init hash)
			tn = anonymousObjectType
		}
		return px.New(curCtx, curCtx.ParseType(tn), types.WrapHash(es))
	}
	panic(fmt.Errorf("bad value %s", e))
}

// the anonymous object type whose instances `(o x (k v)*)` are
const anonymousObjectType = `Object[{attributes => {a => Any, b => {type => Any, value => undef}}}]`

// the context of the op being executed (type sources and object instances are built inside it)
var curCtx px.Context

// the properties of the format contexts of the op being executed (nil, or expanded = true for ctx xkind / xmap)
var curProps map[string]string

// newCtx1: px.NewFormatContext(t, f, ind), with the properties of the op
func newCtx1(t px.Type, f px.Format, ind px.Indentation) px.FormatContext {
	if curProps == nil {
		return px.NewFormatContext(t, f, ind)
	}
	return px.NewFormatContext2(ind, px.FormatMap(types.WrapHash([]*types.HashEntry{types.WrapHashEntry(t, f)})), curProps)
}

// the object types whose instances the ops format
var catalogue = []string{
	`Object[{name => 'Verif::Pair', attributes => {a => Any, b => Any}}]`,
	`Object[{name => 'Verif::One', attributes => {v => Any}}]`,
	`Object[{name => 'Verif::Unit'}]`,
}

func ensureCatalogue(c px.Context) {
	if _, ok := px.Load(c, px.NewTypedName(px.NsType, "Verif::Pair")); ok {
		return
	}
	ts := []px.Type{}
	for _, t := range catalogue {
		ts = append(ts, c.ParseType(t))
	}
	ts = append(ts, types.NewTypeAliasType("Verif::Ints", nil, c.ParseType("Array[Integer]")))
	px.AddTypes(c, ts...)
}

// entriesOfValue: the (key value) pairs of a hash or of an object instance's init hash, as written in the op
func entriesOfValue(e sx.Sexp) []sx.Sexp {
	if e.Tag() == "o" {
		return e.Args()[1:]
	}
	return e.Args()
}

// Array, Hash and object instances (isContainer in types/arraytype.go)
func isContainerTag(t string) bool { return t == "a" || t == "h" || t == "o" || t == "j" }

// the kinds of the extended model (op fmtx)
func isNewTag(t string) bool { return strings.Contains("vwynmztolqj", t) }

// ---- format nodes: the harness-side twin of a px.Format tree ------------------------------------------------------

type node struct {
	d               dir
	sep, sep2       string
	hasSep, hasSep2 bool
	ld              byte // left delimiter of the Format record
	cf              []entry
	hasCf           bool
}

type entry struct {
	key  string  // any … regexp, "self", or "ty:<String() of the type>" for a key given as a type term
	typ  px.Type // the key type
	term sx.Sexp // the type term of a "ty:" key
	n    *node
}

func (e entry) typed() bool { return strings.HasPrefix(e.key, "ty:") }

func newNode(directive string) *node {
	d := parseDir(directive)
	return &node{d: d, ld: d.ldelim()}
}

var keyNames = []string{"any", "scalar", "numeric", "int", "float", "str", "bool", "bin", "arr", "hash", "coll", "undef", "dflt", "regexp"}

// the default types of the kinds of the extended model (op fmtx; "object" and "type" are among the 16 keys already)
var newKeyNames = []string{"semver", "semverrange", "uri", "timespan", "timestamp", "sensitive"}

func isNewKey(k string) bool {
	for _, n := range newKeyNames {
		if n == k {
			return true
		}
	}
	return false
}

// allKeyNames: with the two keys of DefaultFormats no generated value is an instance of (merged maps only)
var allKeyNames = append(append([]string{}, keyNames...), "object", "type")

func keyType(k string) px.Type {
	switch k {
	case "any":
		return types.DefaultAnyType()
	case "scalar":
		return types.DefaultScalarType()
	case "numeric":
		return types.DefaultNumericType()
	case "int":
		return types.DefaultIntegerType()
	case "float":
		return types.DefaultFloatType()
	case "str":
		return types.DefaultStringType()
	case "bool":
		return types.DefaultBooleanType()
	case "bin":
		return types.DefaultBinaryType()
	case "arr":
		return types.DefaultArrayType()
	case "hash":
		return types.DefaultHashType()
	case "coll":
		return types.DefaultCollectionType()
	case "undef":
		return types.DefaultUndefType()
	case "dflt":
		return types.DefaultDefaultType()
	case "regexp":
		return types.DefaultRegexpType()
	case "object":
		return types.DefaultObjectType()
	case "type":
		return types.DefaultTypeType()
	case "semver":
		return types.DefaultSemVerType()
	case "semverrange":
		return types.DefaultSemVerRangeType()
	case "uri":
		return types.DefaultUriType()
	case "timespan":
		return types.DefaultTimespanType()
	case "timestamp":
		return types.DefaultTimestampType()
	case "sensitive":
		return types.DefaultSensitiveType()
	}
	panic("bad key " + k)
}

// which value kinds a parameterless key type accepts (Go twin of the model's `Key.accepts`)
var keyAccepts = map[string]string{
	"any": "ifsbudxrahvwynmztolqj", "scalar": "ifsbrvnm", "numeric": "if", "int": "i", "float": "f", "str": "s", "bool": "b",
	"bin": "x", "arr": "a", "hash": "h", "coll": "ah", "undef": "u", "dflt": "d", "regexp": "r", "object": "o", "type": "tlqj",
	"semver": "v", "semverrange": "w", "uri": "y", "timespan": "n", "timestamp": "m", "sensitive": "z",
}

func kindKey(tag string) string {
	switch tag {
	case "i":
		return "int"
	case "f":
		return "float"
	case "s":
		return "str"
	case "b":
		return "bool"
	case "u":
		return "undef"
	case "d":
		return "dflt"
	case "x":
		return "bin"
	case "r":
		return "regexp"
	case "a":
		return "arr"
	case "h":
		return "hash"
	case "v":
		return "semver"
	case "w":
		return "semverrange"
	case "y":
		return "uri"
	case "n":
		return "timespan"
	case "m":
		return "timestamp"
	case "z":
		return "sensitive"
	case "t", "l", "q", "j":
		return "type"
	case "o":
		return "object"
	}
	panic("bad tag " + tag)
}

func (e entry) accepts(tag string, v px.Value) bool {
	if e.key == "self" || e.typed() {
		return px.IsAssignable(e.typ, v.PType())
	}
	return strings.Contains(keyAccepts[e.key], tag)
}

// px.DefaultFormat: `%s` with no delimiter of its own — a container formatted by it uses its own default delimiters
var defaultNode = &node{d: parseDir("%s"), sep: ",", hasSep: true}

func progNode(sep2 string, ld byte) *node {
	return &node{d: parseDir("%p"), sep: ",", hasSep: true, sep2: sep2, hasSep2: sep2 != "", ld: ld}
}

// types.DefaultContainerFormats
var defaultCF = []entry{
	{key: "object", n: progNode(" => ", '(')},
	{key: "type", n: progNode(" => ", '(')},
	{key: "float", n: progNode("", 0)},
	{key: "numeric", n: progNode("", 0)},
	{key: "arr", n: progNode(",", '[')},
	{key: "hash", n: progNode(" => ", '{')},
	{key: "bin", n: progNode("", 0)},
	{key: "any", n: progNode("", 0)},
}

func lookup(m []entry, tag string, v px.Value) *node {
	for _, e := range m {
		if e.accepts(tag, v) {
			return e.n
		}
	}
	return defaultNode
}

func strOpt(e sx.Sexp) (string, bool) {
	if !e.IsList && e.Atom == "-" {
		return "", false
	}
	return e.MustStr(), true
}

func nodeOf(e sx.Sexp) *node {
	n := newNode(e.List[0].MustStr())
	n.sep, n.hasSep = strOpt(e.List[1])
	n.sep2, n.hasSep2 = strOpt(e.List[2])
	if e.List[3].IsList {
		n.hasCf = true
		n.cf = entriesOf(e.List[3].List)
	}
	return n
}

func entriesOf(xs []sx.Sexp) []entry {
	m := make([]entry, len(xs))
	for i, kv := range xs {
		if kv.List[0].IsList {
			// (T xNAME): a key given as a type term of the lattice model
			term, err := lat.ParseTy(kv.List[0].List[0])
			if err != nil {
				panic(err)
			}
			t, err := lat.EnvOf(curCtx).BuildCtor(term)
			if err != nil {
				panic(err)
			}
			m[i] = entry{key: "ty:" + kv.List[0].List[1].MustStr(), typ: t, term: kv.List[0].List[0], n: nodeOf(kv.List[1])}
			continue
		}
		k := kv.List[0].Atom
		m[i] = entry{key: k, typ: keyType(k), n: nodeOf(kv.List[1])}
	}
	return m
}

// keyPayloadMismatch: the String() the op line gives the model for a typed key against the type built from its term
func keyPayloadMismatch(m []entry) string {
	for _, e := range m {
		if e.typed() && e.typ.String() != e.key[3:] {
			return fmt.Sprintf("the key type %s prints as %q, the op says %q", e.term.String(), e.typ.String(), e.key[3:])
		}
		if e.n.hasCf {
			if why := keyPayloadMismatch(e.n.cf); why != "" {
				return why
			}
		}
	}
	return ""
}

// the px value handed to types.NewFormatMap
func formatMapValue(m []entry) *types.Hash {
	es := make([]*types.HashEntry, len(m))
	for i, e := range m {
		n := e.n
		var fv px.Value
		if !n.hasSep && !n.hasSep2 && !n.hasCf {
			fv = types.WrapString(n.d.raw)
		} else {
			hs := []*types.HashEntry{types.WrapHashEntry2("format", types.WrapString(n.d.raw))}
			if n.hasSep {
				hs = append(hs, types.WrapHashEntry2("separator", types.WrapString(n.sep)))
			}
			if n.hasSep2 {
				hs = append(hs, types.WrapHashEntry2("separator2", types.WrapString(n.sep2)))
			}
			if n.hasCf {
				hs = append(hs, types.WrapHashEntry2("string_formats", formatMapValue(n.cf)))
			}
			fv = types.WrapHash(hs)
		}
		es[i] = types.WrapHashEntry(e.typ, fv)
	}
	return types.WrapHash(es)
}

// ---- contexts -------------------------------------------------------------------------------------------------------

type fctx struct {
	mode  string // kind self new map mmap
	typed bool   // tmap / tmmap: keys are type terms
	expanded bool // xkind / xmap: the context carries the property expanded
	top   *node  // the single directive of kind/self/new
	m     []entry
}

func ctxOf(e sx.Sexp, tag string, v px.Value) *fctx {
	c := &fctx{mode: e.Tag()}
	switch c.mode {
	case "kind":
		c.top = newNode(e.Args()[0].MustStr())
		k := kindKey(tag)
		c.m = []entry{{key: k, typ: keyType(k), n: c.top}}
	case "self", "new":
		c.top = newNode(e.Args()[0].MustStr())
		c.m = []entry{{key: "self", typ: v.PType(), n: c.top}}
	case "map", "mmap":
		c.m = entriesOf(e.Args())
	case "tmap", "tmmap":
		c.mode = c.mode[1:]
		c.typed = true
		c.m = entriesOf(e.Args())
	case "xkind":
		c.mode = "kind"
		c.expanded = true
		c.top = newNode(e.Args()[0].MustStr())
		k := kindKey(tag)
		c.m = []entry{{key: k, typ: keyType(k), n: c.top}}
	case "xmap":
		c.mode = "map"
		c.expanded = true
		c.m = entriesOf(e.Args())
	default:
		panic("bad ctx " + e.String())
	}
	return c
}

func indentAt(level int) px.Indentation {
	if level == 0 {
		return px.NewIndentation(false, 0)
	}
	return px.NewIndentation(false, level).Subsequent()
}

// pxMap builds the px.FormatMap for a harness-side entry list (may raise a reported error for a bad directive)
func pxMap(m []entry) px.FormatMap {
	if isDefaultCF(m) {
		return types.DefaultContainerFormats
	}
	if len(m) == 1 && m[0].key == "self" {
		return px.FormatMap(types.WrapHash([]*types.HashEntry{types.WrapHashEntry(m[0].typ, px.NewFormat(m[0].n.d.raw))}))
	}
	return types.NewFormatMap(formatMapValue(m))
}

func isDefaultCF(m []entry) bool { return len(m) > 0 && len(defaultCF) > 0 && &m[0] == &defaultCF[0] }

// ---- running the implementation under a deadline ---------------------------------------------------------------------

var hung bool
var watchdog sync.Once

func classify(e interface{}) string {
	switch e := e.(type) {
	case issue.Reported:
		if strings.Contains(e.Error(), "runtime error:") {
			return "fault"
		}
		return "reported " + string(e.Code())
	default:
		return "fault"
	}
}

// run f under a 2 s deadline (plus one grace period against starvation); "timeout" = it does not terminate
func deadline(f func() string) string {
	ch := make(chan string, 1)
	go func() {
		defer func() {
			if e := recover(); e != nil {
				if os.Getenv("VERIF_DEBUG") != "" {
					buf := make([]byte, 8192)
					fmt.Fprintf(os.Stderr, "panic: %v\n%s\n", e, buf[:runtime.Stack(buf, false)])
				}
				ch <- classify(e)
			}
		}()
		if curCtx != nil {
			// the goroutine needs the op's context as its current one (object instances and some types ask for it)
			px.DoWithContext(curCtx, func(px.Context) { ch <- f() })
		} else {
			ch <- f()
		}
	}()
	select {
	case r := <-ch:
		return r
	case <-time.After(2 * time.Second):
	}
	// not finished within the deadline: on a loaded machine a goroutine can simply have been starved, so it gets one
	// grace period before the call is declared non-terminating (a real hang is still there after it)
	select {
	case r := <-ch:
		return r
	case <-time.After(2 * time.Second):
		hung = true
		return "timeout"
	}
}

func textOut(s string) string { return "text " + sx.Str(s).Atom }

func renderMap(c px.Context, v px.Value, m []entry, level int) string {
	return deadline(func() string {
		return textOut(px.ToString2(v, px.NewFormatContext2(indentAt(level), pxMap(m), curProps)))
	})
}

// mmapInModel: what the model of mergeFormats covers — at most 4 entries per map (the sort is modelled for the 12 entries
// that 8 defaults and 4 user entries make), nesting at most 3 (the cyclic default tables are unrolled), distinct keys
func mmapInModel(m []entry, depth int) bool {
	if len(m) > 4 || depth > 3 {
		return false
	}
	seen := map[string]bool{}
	for _, e := range m {
		if seen[e.key] {
			return false
		}
		seen[e.key] = true
		if e.n.hasCf && !mmapInModel(e.n.cf, depth+1) {
			return false
		}
	}
	return true
}

// renderMerged: the user's per-type format map as new(String, v, map) takes it: px.NewFormatContext3 merges it with
// DefaultFormats
func renderMerged(c px.Context, v px.Value, m []entry) string {
	if !mmapInModel(m, 1) {
		return "out-of-model"
	}
	return deadline(func() string {
		ctx, err := px.NewFormatContext3(v, formatMapValue(m))
		if err != nil {
			if rep, ok := err.(issue.Reported); ok {
				return "reported " + string(rep.Code())
			}
			return "fault"
		}
		return textOut(px.ToString2(v, ctx))
	})
}

func renderTop(c px.Context, fc *fctx, tag string, v px.Value) string {
	if fc.mode == "mmap" {
		return renderMerged(c, v, fc.m)
	}
	switch fc.mode {
	case "kind":
		return deadline(func() string {
			return textOut(px.ToString2(v, newCtx1(keyType(kindKey(tag)), px.NewFormat(fc.top.d.raw), px.NewIndentation(false, 0))))
		})
	case "self":
		return deadline(func() string {
			return textOut(px.ToString2(v, newCtx1(v.PType(), px.NewFormat(fc.top.d.raw), px.NewIndentation(false, 0))))
		})
	case "new":
		return deadline(func() string {
			r := px.New(c, types.DefaultStringType(), v, types.WrapString(fc.top.d.raw))
			return textOut(r.String())
		})
	}
	return renderMap(c, v, fc.m, 0)
}

func isText(out string) (string, bool) {
	if strings.HasPrefix(out, "text x") {
		b, err := sx.A(out[5:]).AsBytes()
		if err == nil {
			return string(b), true
		}
	}
	return "", false
}

// ---- the reference renderer for d x X o, written from the printf specification (C99 7.19.6.1) with the one
//      convention that all four conversions are signed (sign-magnitude, as Ruby/Puppet print with an explicit sign) ------

func refDigits(mag uint64, base uint64, upper bool) string {
	const lo = "0123456789abcdef"
	const up = "0123456789ABCDEF"
	if mag == 0 {
		return "0"
	}
	s := ""
	for mag > 0 {
		dg := mag % base
		if upper {
			s = string(up[dg]) + s
		} else {
			s = string(lo[dg]) + s
		}
		mag /= base
	}
	return s
}

func magnitude(i int64) uint64 {
	if i < 0 {
		return uint64(-(i + 1)) + 1
	}
	return uint64(i)
}

func refInt(i int64, d dir) string {
	base := uint64(10)
	switch d.letter {
	case 'x', 'X':
		base = 16
	case 'o':
		base = 8
	case 'b', 'B':
		base = 2
	}
	mag := magnitude(i)
	// "The result of converting a zero value with a precision of zero is no characters."
	digits := ""
	if !(mag == 0 && d.prec == 0) {
		digits = refDigits(mag, base, d.letter == 'X')
	}
	// "The precision specifies the minimum number of digits to appear"
	for d.prec >= 0 && len(digits) < d.prec {
		digits = "0" + digits
	}
	prefix := ""
	if d.sharp {
		switch d.letter {
		case 'x', 'X', 'b', 'B':
			// "a nonzero result has 0x (or 0X) prefixed to it" (likewise 0b, 0B: C23)
			if mag != 0 {
				prefix = "0" + string(d.letter)
			}
		case 'o':
			// "it increases the precision, if and only if necessary, to force the first digit of the result to be a zero
			//  (if the value and precision are both 0, a single 0 is printed)"
			if !strings.HasPrefix(digits, "0") {
				digits = "0" + digits
			}
		}
	}
	sign := ""
	if i < 0 {
		sign = "-"
	} else if d.plus {
		sign = "+" // "If the space and + flags both appear, the space flag is ignored."
	} else if d.space {
		sign = " "
	}
	n := len(sign) + len(prefix) + len(digits)
	if d.width < 0 || n >= d.width {
		return sign + prefix + digits
	}
	pad := d.width - n
	switch {
	case d.minus: // "If the 0 and - flags both appear, the 0 flag is ignored."
		return sign + prefix + digits + strings.Repeat(" ", pad)
	case d.zero && d.prec < 0: // "if a precision is specified, the 0 flag is ignored"; zeros follow the sign / base prefix
		return sign + prefix + strings.Repeat("0", pad) + digits
	default:
		return strings.Repeat(" ", pad) + sign + prefix + digits
	}
}

// readRadix: [spaces][sign][radix prefix]digits[spaces] → integer
func readRadix(s string, letter byte) (int64, bool) {
	s = strings.Trim(s, " ")
	neg := false
	if strings.HasPrefix(s, "-") {
		neg = true
		s = s[1:]
	} else if strings.HasPrefix(s, "+") {
		s = s[1:]
	}
	base := 10
	switch letter {
	case 'x', 'X':
		base = 16
		if strings.HasPrefix(s, "0x") || strings.HasPrefix(s, "0X") {
			s = s[2:]
		}
	case 'o':
		base = 8
	case 'b', 'B':
		base = 2
		if strings.HasPrefix(s, "0b") || strings.HasPrefix(s, "0B") {
			s = s[2:]
		}
	}
	if s == "" || s[0] == '-' || s[0] == '+' {
		return 0, false
	}
	u, err := strconv.ParseUint(s, base, 64)
	if err != nil {
		return 0, false
	}
	if neg {
		if u > 1<<63 {
			return 0, false
		}
		return int64(-u), true
	}
	if u >= 1<<63 {
		return 0, false
	}
	return int64(u), true
}

// ---- predicates ----------------------------------------------------------------------------------------------------------

func hasPercent(e sx.Sexp) bool {
	if !e.IsList {
		if strings.HasPrefix(e.Atom, "x") {
			if b, err := e.AsBytes(); err == nil {
				return strings.Contains(string(b), "%")
			}
		}
		return false
	}
	for _, k := range e.List {
		if hasPercent(k) {
			return true
		}
	}
	return false
}

const numericLetters = "dxXobBeEfgGaA"

func numericRendering(tag string, letter byte) bool {
	return strings.IndexByte("ifb", tag[0]) >= 0 && strings.IndexByte(numericLetters, letter) >= 0
}

func isPadOf(out, core string, d dir, numeric bool) (bool, string) {
	no, nc := utf8.RuneCountInString(out), utf8.RuneCountInString(core)
	if no == nc {
		if out == core {
			return true, ""
		}
		return false, "pad-core"
	}
	if no < nc {
		return false, "pad-core"
	}
	pad := no - nc
	if d.minus {
		if out == core+strings.Repeat(" ", pad) {
			return true, ""
		}
		if out == strings.Repeat(" ", pad)+core {
			return false, "pad-side-left-ignored"
		}
		return false, "pad-side"
	}
	if out == strings.Repeat(" ", pad)+core {
		return true, ""
	}
	// zeros: after the sign and the radix prefix
	k := 0
	for k < len(core) && strings.IndexByte("+- ", core[k]) >= 0 {
		k++
	}
	if k+1 < len(core) && core[k] == '0' && strings.IndexByte("xXbB", core[k+1]) >= 0 {
		k += 2
	}
	zeroOK := numeric && d.zero && !d.minus
	if out == core[:k]+strings.Repeat("0", pad)+core[k:] {
		if zeroOK {
			return true, ""
		}
		return false, "pad-zero-nonnumeric"
	}
	if out == strings.Repeat("0", pad)+core {
		if zeroOK && k == 0 {
			return true, ""
		}
		if zeroOK {
			return false, "pad-zero-before-sign"
		}
		return false, "pad-zero-nonnumeric"
	}
	if out == core+strings.Repeat(" ", pad) {
		return false, "pad-side-right"
	}
	return false, "pad-side"
}

// strip width, '-' and '0' from a directive
func unpadded(d dir) string {
	b := "%"
	for i := 1; i < len(d.raw); i++ {
		c := d.raw[i]
		if strings.IndexByte(" [+#0{<(|-", c) < 0 {
			break
		}
		if c != '-' && c != '0' {
			b += string(c)
		}
	}
	if d.prec >= 0 {
		b += "." + strconv.Itoa(d.prec)
	}
	return b + string(d.letter)
}

// expected outcome (canonical out string) of a value under a format map: containers decomposed by the documented
// law (delimiters, separators, element formats, errors of the container letter first, then of the children in order),
// scalars rendered by the implementation.  ok=false → not applicable (alt container format, hang/fault in a child)
func expect(c px.Context, e sx.Sexp, v px.Value, m []entry, level int, entryMode bool) (string, bool) {
	return expect2(c, e, v, m, level, entryMode, false)
}

// first: the value is rendered with an indentation whose IsFirst() holds (the key or value of a hash entry; an element of an
// array gets Subsequent()) — it matters to a Type, whose parameter list breaks the line under an alt Array format unless first
func expect2(c px.Context, e sx.Sexp, v px.Value, m []entry, level int, entryMode bool, first bool) (string, bool) {
	if e.Tag() == "j" {
		return "", false // an expanded object type is not decomposed by this predicate
	}
	if !entryMode && e.Tag() == "o" && e.Args()[0].MustStr() == "" {
		// an instance of an anonymous object type is written as the Hash of its init hash
		return expect2(c, sx.T("h", e.Args()[1:]...), v.(px.PuppetObject).InitHash().(*types.Hash), m, level, false, first)
	}
	tag := e.Tag()
	if !isContainerTag(tag) && !entryMode {
		out := deadline(func() string {
			ind := indentAt(level)
			if first {
				ind = px.NewIndentation(false, level)
			}
			return textOut(px.ToString2(v, px.NewFormatContext2(ind, pxMap(m), curProps)))
		})
		return out, out != "timeout" && out != "fault"
	}
	ltag := tag
	if entryMode {
		ltag = "a"
	}
	n := lookup(m, ltag, v)
	if !n.d.ok || n.d.sharp {
		return "", false
	}
	cf := defaultCF
	if n.hasCf {
		cf = n.cf
	}
	sep := ","
	if n.hasSep {
		sep = n.sep
	}
	childFirst := !(tag == "a" || entryMode)
	child := func(ce sx.Sexp, cv px.Value) (string, bool) {
		if isContainerTag(ce.Tag()) {
			return expect2(c, ce, cv, m, level+1, false, childFirst)
		}
		return expect2(c, ce, cv, cf, level+1, false, childFirst)
	}
	join := func(l, r string, parts []string) (string, bool) {
		txt := make([]string, len(parts))
		for i, p := range parts {
			t, ok := isText(p)
			if !ok {
				return p, true // the first child that raises decides
			}
			txt[i] = t
		}
		return textOut(l + strings.Join(txt, sep+" ") + r), true
	}
	if tag == "a" || entryMode {
		if strings.IndexByte("asp", n.d.letter) < 0 {
			return "reported " + unsupported, true
		}
		l, r := delimPair(n.ld, '[')
		var kids []sx.Sexp
		var kv []px.Value
		if entryMode {
			kids = e.List[:2]
			he := v.(*types.HashEntry)
			kv = []px.Value{he.Key(), he.Value()}
		} else {
			kids = e.Args()
			v.(*types.Array).Each(func(x px.Value) { kv = append(kv, x) })
		}
		parts := make([]string, 0, len(kids))
		for i := range kids {
			s, ok := child(kids[i], kv[i])
			if !ok {
				return "", false
			}
			parts = append(parts, s)
			if _, isT := isText(s); !isT {
				break
			}
		}
		return join(l, r, parts)
	}
	// hash, or the init hash of an object instance: the type name, then the hash between ( and ) whatever the format's delimiter
	var hv *types.Hash
	prefix := ""
	if tag == "o" {
		po := v.(px.PuppetObject)
		hv = po.InitHash().(*types.Hash)
		prefix = po.PType().Name()
	} else {
		hv = v.(*types.Hash)
	}
	withPrefix := func(s string, ok bool) (string, bool) {
		if t, isT := isText(s); ok && isT {
			return textOut(prefix + t), true
		}
		return s, ok
	}
	kvs := entriesOfValue(e)
	if n.d.letter == 'a' {
		// as an array of entries, under the same map
		an := lookup(m, "a", types.WrapArray3(hv))
		if !an.d.ok || an.d.sharp {
			return "", false
		}
		if strings.IndexByte("asp", an.d.letter) < 0 {
			return "reported " + unsupported, true
		}
		acf := defaultCF
		if an.hasCf {
			acf = an.cf
		}
		sep = ","
		if an.hasSep {
			sep = an.sep
		}
		l, r := delimPair(an.ld, '[')
		parts := make([]string, 0, hv.Len())
		okAll := true
		stop := false
		idx := 0
		hv.Each(func(x px.Value) {
			if !stop && okAll {
				s, ok := expect(c, kvs[idx], x, acf, level+1, true)
				okAll = okAll && ok
				parts = append(parts, s)
				if _, isT := isText(s); !isT {
					stop = true
				}
			}
			idx++
		})
		if !okAll {
			return "", false
		}
		return withPrefix(join(l, r, parts))
	}
	if strings.IndexByte("hsp", n.d.letter) < 0 {
		return "reported " + unsupported, true
	}
	l, r := delimPair(n.ld, '{')
	if tag == "o" {
		l, r = "(", ")"
	}
	assoc := " => "
	if n.hasSep2 {
		assoc = n.sep2
	}
	parts := make([]string, 0, hv.Len())
	okAll := true
	stop := false
	idx := 0
	hv.EachPair(func(k, x px.Value) {
		if !stop && okAll {
			kve := kvs[idx]
			ks, ok1 := child(kve.List[0], k)
			kt, isT1 := isText(ks)
			if !ok1 {
				okAll = false
			} else if !isT1 {
				parts = append(parts, ks)
				stop = true
			} else {
				vs, ok2 := child(kve.List[1], x)
				vt, isT2 := isText(vs)
				if !ok2 {
					okAll = false
				} else if !isT2 {
					parts = append(parts, vs)
					stop = true
				} else {
					parts = append(parts, textOut(kt+assoc+vt))
				}
			}
		}
		idx++
	})
	if !okAll {
		return "", false
	}
	return withPrefix(join(l, r, parts))
}

func delimPair(ld, dflt byte) (string, string) {
	if ld == 0 {
		ld = dflt
	}
	switch ld {
	case '[':
		return "[", "]"
	case '{':
		return "{", "}"
	case '(':
		return "(", ")"
	case '<':
		return "<", ">"
	case '|':
		return "|", "|"
	}
	return "", ""
}

func sepHasPercent(m []entry) bool {
	for _, e := range m {
		if strings.Contains(e.n.sep, "%") || strings.Contains(e.n.sep2, "%") || (e.n.hasCf && sepHasPercent(e.n.cf)) {
			return true
		}
	}
	return false
}

func anyInvalid(m []entry) bool {
	for _, e := range m {
		if !e.n.d.ok || (e.n.hasCf && anyInvalid(e.n.cf)) {
			return true
		}
	}
	return false
}

func exec(c px.Context, op string, args []sx.Sexp) core.Result {
	if hung {
		// a formatting goroutine of an earlier op is still spinning (and may be allocating): do not go on in this
		// process; the frame re-runs the remaining ops in a fresh one
		os.Exit(3)
	}
	watchdog.Do(func() {
		go func() {
			var ms runtime.MemStats
			for {
				time.Sleep(200 * time.Millisecond)
				runtime.ReadMemStats(&ms)
				if ms.HeapAlloc > 3<<30 {
					fmt.Fprintln(os.Stderr, "c20: heap exceeds 3 GiB (a formatting call does not terminate and allocates); exiting")
					os.Exit(3)
				}
			}
		}()
	})
	if op == "back" && len(args) == 2 {
		return execBack(c, args[0].MustStr(), args[1].MustInt())
	}
	if op == "span" && len(args) == 2 {
		return execSpan(args[0].MustStr(), args[1].MustInt())
	}
	if op == "keysubx" && len(args) == 2 {
		return core.Result{Out: sx.B(px.IsAssignable(keyType(args[0].Atom), keyType(args[1].Atom))), Pred: "ok", Tags: []string{"op:keysubx"}}
	}
	if op == "keysub" && len(args) == 2 {
		// px.IsAssignable on the key types of format maps (the relation mergeFormats sorts and rejects by)
		return core.Result{Out: sx.B(px.IsAssignable(keyType(args[0].Atom), keyType(args[1].Atom))), Pred: "ok", Tags: []string{"op:keysub"}}
	}
	// fmtf = fmt with an oracle of fmt.Sprintf results for the Lean driver (ignored here); fmtx = fmt for the driver of the
	// extended model (every value kind)
	if !(((op == "fmt" || op == "fmtx" || op == "fmtt") && len(args) == 2) || (op == "fmtf" && len(args) == 4)) {
		return core.Result{Out: "bad-op", Pred: "FAIL harness-bad-op " + op}
	}
	curCtx = c
	ve := args[1]
	tag := ve.Tag()
	v := valOf(ve)
	if why := payloadMismatch(ve, v); why != "" {
		// the texts / decompositions the op line carries for the model are not those of the value built from it
		return core.Result{Out: "payload-mismatch", Pred: "FAIL payload-mismatch " + oneLine(why)}
	}
	fc := ctxOf(args[0], tag, v)
	curProps = nil
	if fc.expanded {
		curProps = map[string]string{"expanded": "true"}
	}
	if why := keyPayloadMismatch(fc.m); why != "" {
		return core.Result{Out: "payload-mismatch", Pred: "FAIL payload-mismatch " + oneLine(why)}
	}
	out := renderTop(c, fc, tag, v)

	if fc.mode == "mmap" {
		return execMerged(c, fc, tag, ve, v, out)
	}
	n := fc.top
	if n == nil {
		n = lookup(fc.m, tag, v)
	}
	d := n.d
	nt := !d.plain() || isContainerTag(tag) || fc.mode == "map"
	tags := []string{"kind:" + tag, "ctx:" + fc.mode, "out:" + strings.SplitN(out, " ", 2)[0]}
	if d.ok {
		tags = append(tags, "letter:"+string(d.letter))
	}
	res := func(pred string) core.Result { return core.Result{Out: out, Pred: pred, NonTrivial: nt, Tags: tags} }
	fail := func(class, detail string) core.Result {
		r := core.Fail(out, class, oneLine(detail))
		r.Tags = tags
		return r
	}

	if out == "timeout" {
		return fail("hang", "formatting did not finish within 2s")
	}
	if out == "fault" {
		return fail("fault", "formatting raised a runtime fault")
	}
	if anyInvalid(fc.m) {
		// outside the property's quantifier (not a syntactically valid directive); model and implementation must still agree
		if strings.HasPrefix(out, "reported PCORE_INVALID_STRING_FORMAT") || fc.mode == "map" || (fc.mode == "new" && strings.HasPrefix(out, "reported ")) {
			return res("n/a")
		}
		return fail("invalid-accepted", "a directive outside the grammar was not rejected: "+out)
	}
	text, isT := isText(out)
	if isT && strings.Contains(text, "%!") && !hasPercent(ve) && !sepHasPercent(fc.m) {
		return fail("go-fmt-leak", fmt.Sprintf("%s: a Go fmt error marker in the output: %q", d.raw, text))
	}

	if isContainerTag(tag) {
		want, ok := expect(c, ve, v, fc.m, 0, false)
		if !ok {
			return res("n/a")
		}
		if want != out {
			wt, _ := isText(want)
			return fail("container", fmt.Sprintf("got %q (%s), the element renderings compose to %q (%s)", text, out, wt, want))
		}
		if !isT && out != "reported "+unsupported && !(out == "reported PCORE_FAILURE" && hasBadBinary(ve)) {
			return fail("other-error", "formatting raised "+out)
		}
		return res("ok")
	}

	if tag == "f" {
		if fl := v.(px.Float).Float(); math.IsNaN(fl) || math.IsInf(fl, 0) {
			// NaN and ±Inf are not instances of Float (its range is ±MaxFloat64) and no Float format entry applies to them
			return res("n/a")
		}
	}
	docs := documentedOf(tag, v)
	inDoc := strings.IndexByte(docs, d.letter) >= 0
	if !isT {
		if out == "reported "+unsupported {
			if inDoc && tag == "t" && len(ve.Args()) > 2 {
				// the parameters of a Type are formatted as an Array under the same map: its letter is checked like any Array's
				ps := ve.Args()[2:]
				pv := make([]px.Value, len(ps))
				for i, p := range ps {
					pv[i] = valOf(p)
				}
				want, ok := expect(c, va(ps...), types.WrapValues(pv), fc.m, 0, false)
				if !ok {
					return res("n/a")
				}
				if want == out {
					return res("ok")
				}
			}
			if inDoc && ((tag == "q" && ve.Args()[1].MustStr() == "") || (tag == "l" && d.sharp && d.letter == 'b')) {
				// an anonymous object type formats the values of its init hash under the same map; `%#b` of an alias formats the
				// resolved type under the same context, where a type rejects the letter b: the error may be a nested value's
				return res("n/a")
			}
			if inDoc {
				cls := "unsupported-mismatch"
				if (d.letter == 'a' || d.letter == 'A') && strings.IndexByte("ifb", tag[0]) >= 0 {
					cls = "unsupported-mismatch-aA"
				}
				return fail(cls, fmt.Sprintf("letter %c is in the documented set %q of kind %s but is rejected", d.letter, docs, tag))
			}
			return res("ok")
		}
		if tag == "x" && d.letter == 's' && out == "reported PCORE_FAILURE" && hasBadBinary(ve) {
			return res("n/a") // documented: %s of a Binary that is not UTF-8 is an error
		}
		return fail("other-error", "formatting raised "+out)
	}
	if !inDoc {
		return fail("unsupported-mismatch", fmt.Sprintf("letter %c is outside the documented set %q of kind %s but was accepted", d.letter, docs, tag))
	}

	// scalar laws (top-level directive d)
	if tag == "i" || tag == "b" {
		var i int64
		if tag == "i" {
			i = ve.Args()[0].MustInt()
		} else if ve.Args()[0].MustBool() {
			i = 1
		}
		// b and B are pcore's own code; the one point where it deliberately follows Ruby rather than C is the value 0
		// with precision 0 (Ruby prints the digit 0, which also reads back)
		if strings.IndexByte("dxXo", d.letter) >= 0 || (strings.IndexByte("bB", d.letter) >= 0 && !(i == 0 && d.prec == 0)) {
			want := refInt(i, d)
			if want != text {
				cls := "int-ref-mismatch"
				switch {
				case i == 0 && (d.sharp || (d.prec == 0 && (d.plus || d.space))):
					// Go's fmt: %#x of 0 is "0x0", %#.0o of 0 is "", %+.0d of 0 has no sign
					cls = "int-ref-zero"
				case d.sharp && d.zero && !d.minus && d.prec < 0 && d.width >= 0 && (d.letter == 'x' || d.letter == 'X'):
					// Go's fmt: zero padding to the width does not count the 0x prefix
					cls = "int-ref-alt-zeropad"
				}
				return fail(cls, fmt.Sprintf("%s of %d: got %q, the printf reference gives %q", d.raw, i, text, want))
			}
		}
		if strings.IndexByte("dxXobB", d.letter) >= 0 && !(i == 0 && d.prec == 0) {
			back, ok := readRadix(text, d.letter)
			if !ok || back != i {
				return fail("radix-roundtrip", fmt.Sprintf("%s of %d renders %q which does not read back (got %d, %v)", d.raw, i, text, back, ok))
			}
		}
	}
	if tag == "f" && d.width < 0 && !d.plus && !d.space && fc.mode != "map" &&
		(strings.IndexByte("eEfgG", d.letter) >= 0 || (strings.IndexByte("ps", d.letter) >= 0 && d.prec < 0 && !d.sharp)) {
		// the text of a negative float is the sign and the text of its magnitude (digits are restored independently of the sign)
		if fl := v.(px.Float).Float(); fl > 0 {
			neg := types.WrapFloat(-fl)
			nout := renderTop(c, &fctx{mode: "kind", top: fc.top, m: []entry{{key: "float", typ: keyType("float"), n: fc.top}}}, "f", neg)
			if ntext, ok := isText(nout); ok && fc.top != nil && ntext != "-"+text {
				return fail("float-sign-digits", fmt.Sprintf("%s: %v renders %q but %v renders %q", d.raw, fl, text, -fl, ntext))
			}
		}
	}
	if d.width >= 0 && utf8.RuneCountInString(text) < d.width {
		cls := "too-narrow"
		if tag == "u" || tag == "r" {
			cls = "too-narrow-format-ignored"
		}
		if flagsIgnored(tag, d.letter) {
			// Timespan, Timestamp, Sensitive: the code never consults width, precision or `-` (known finding C20-width-ignored)
			cls = "width-ignored"
		}
		return fail(cls, fmt.Sprintf("%s: %d runes, width %d requested: %q", d.raw, utf8.RuneCountInString(text), d.width, text))
	}
	if d.width >= 0 && tag != "u" && tag != "r" && fc.mode != "map" && !(tag == "q" && ve.Args()[1].MustStr() == "") {
		// (an anonymous object type hands the format on to the values of its init hash: they are padded too)
		// padding law, relative to the same directive without width, '-' and '0'
		u := newNode(unpadded(d))
		coreOut := renderTop(c, &fctx{mode: fc.mode, top: u, m: []entry{{key: fc.m[0].key, typ: fc.m[0].typ, n: u}}}, tag, v)
		if coreText, ok := isText(coreOut); ok {
			if good, cls := isPadOf(text, coreText, d, numericRendering(tag, d.letter)); !good {
				return fail(cls, fmt.Sprintf("%s: got %q, without width/-/0 it is %q", d.raw, text, coreText))
			}
		}
	}
	return res("ok")
}

// flagsIgnored: the arm of the kind's ToString that formats this letter never calls ApplyStringFlags
func flagsIgnored(tag string, letter byte) bool {
	switch tag {
	case "n", "m", "z", "l":
		// Timespan, Timestamp, Sensitive, a type alias: the ToString never looks at the width (SemVer / URI %p and SemVerRange did the same
		// before fix 5c2f826: there a narrow rendering is class too-narrow now)
		return true
	}
	return false
}

// payloadMismatch: what the op line tells the MODEL about a value (the text of a SemVer / SemVerRange / URI / Timestamp, the
// name and parameters of a Type, the init hash of an object) against the value the implementation side built from the line
func payloadMismatch(e sx.Sexp, v px.Value) string {
	a := e.Args()
	switch e.Tag() {
	case "v":
		if got := v.(*types.SemVer).Version().String(); got != a[0].MustStr() {
			return fmt.Sprintf("SemVer %q has the text %q", a[0].MustStr(), got)
		}
	case "w":
		vr := v.(*types.SemVerRange).VersionRange()
		if vr.String() != a[0].MustStr() || vr.NormalizedString() != a[1].MustStr() {
			return fmt.Sprintf("SemVerRange %q/%q has the texts %q/%q", a[0].MustStr(), a[1].MustStr(), vr.String(), vr.NormalizedString())
		}
	case "y":
		if got := v.(*types.UriValue).URL().String(); got != a[0].MustStr() {
			return fmt.Sprintf("URI %q has the text %q", a[0].MustStr(), got)
		}
	case "m":
		if got := time.Unix(a[0].MustInt(), a[1].MustInt()).UTC().Format(timestampLayout); got != a[2].MustStr() {
			return fmt.Sprintf("Timestamp %d.%d: time.Format gives %q, the op says %q", a[0].MustInt(), a[1].MustInt(), got, a[2].MustStr())
		}
	case "z":
		return payloadMismatch(a[0], v.(*types.Sensitive).Unwrap())
	case "t":
		t := v.(px.Type)
		if t.Name() != a[1].MustStr() {
			return fmt.Sprintf("type %s has the name %q, the op says %q", a[0].MustStr(), t.Name(), a[1].MustStr())
		}
		var ps []px.Value
		if pt, ok := t.(px.ParameterizedType); ok {
			ps = pt.Parameters()
		}
		if len(ps) != len(a)-2 {
			return fmt.Sprintf("type %s has %d parameters, the op says %d", a[0].MustStr(), len(ps), len(a)-2)
		}
		for i, p := range ps {
			w := valOf(a[i+2])
			if !sameValue(p, w) {
				return fmt.Sprintf("type %s: parameter %d is %s, the op says %s", a[0].MustStr(), i, p.String(), w.String())
			}
			if why := payloadMismatch(a[i+2], p); why != "" {
				return why
			}
		}
	case "l":
		t, ok := v.(*types.TypeAliasType)
		if !ok || t.Name() != a[1].MustStr() || t.ResolvedType().Name() != a[2].Args()[1].MustStr() {
			return fmt.Sprintf("alias %s: not an alias of that name and resolved type", a[0].MustStr())
		}
	case "j":
		t, ok := v.(px.ObjectType)
		if !ok || t.Equals(types.DefaultObjectType(), nil) != a[1].MustBool() {
			return fmt.Sprintf("object type %s: not an object type / the default Object flag is wrong", a[0].MustStr())
		}
		if !a[1].MustBool() {
			ih := t.(px.PuppetObject).InitHash().(*types.Hash)
			if ih.Len() != len(a)-2 {
				return fmt.Sprintf("object type %s: %d init entries", a[0].MustStr(), ih.Len())
			}
			why := ""
			idx := 0
			ih.EachPair(func(k, x px.Value) {
				kv := a[idx+2]
				idx++
				if why == "" && (k.String() != kv.List[0].MustStr() || !sameValue(x, valOf(kv.List[1]))) {
					why = fmt.Sprintf("object type %s: init entry %d is %s => %s", a[0].MustStr(), idx-1, k.String(), x.String())
				}
				if why == "" {
					why = payloadMismatch(kv.List[1], x)
				}
			})
			return why
		}
	case "q":
		t, ok := v.(px.ObjectType)
		if !ok || t.Name() != a[1].MustStr() {
			return fmt.Sprintf("object type %s: name %q", a[0].MustStr(), v.(px.Type).Name())
		}
		if t.Name() == "" {
			ih := t.(px.PuppetObject).InitHash().(*types.Hash)
			if ih.Len() != len(a)-2 {
				return fmt.Sprintf("object type %s: %d init entries", a[0].MustStr(), ih.Len())
			}
			why := ""
			idx := 0
			ih.EachPair(func(k, x px.Value) {
				kv := a[idx+2]
				idx++
				if why == "" && (k.String() != kv.List[0].MustStr() || !sameValue(x, valOf(kv.List[1]))) {
					why = fmt.Sprintf("object type %s: init entry %d is %s => %s", a[0].MustStr(), idx-1, k.String(), x.String())
				}
				if why == "" {
					why = payloadMismatch(kv.List[1], x)
				}
			})
			return why
		}
	case "o":
		po := v.(px.PuppetObject)
		ih := po.InitHash().(*types.Hash)
		if po.PType().Name() != a[0].MustStr() || ih.Len() != len(a)-1 {
			return fmt.Sprintf("object %s: name %q, %d init entries", a[0].MustStr(), po.PType().Name(), ih.Len())
		}
		why := ""
		idx := 0
		ih.EachPair(func(k, x px.Value) {
			kv := a[idx+1]
			idx++
			if why == "" && (!sameValue(k, valOf(kv.List[0])) || !sameValue(x, valOf(kv.List[1]))) {
				why = fmt.Sprintf("object %s: init entry %d is %s => %s", a[0].MustStr(), idx-1, k.String(), x.String())
			}
			if why == "" {
				why = payloadMismatch(kv.List[1], x)
			}
		})
		return why
	case "a":
		i := 0
		why := ""
		v.(*types.Array).Each(func(x px.Value) {
			if why == "" {
				why = payloadMismatch(a[i], x)
			}
			i++
		})
		return why
	case "h":
		i := 0
		why := ""
		v.(*types.Hash).EachPair(func(k, x px.Value) {
			if why == "" {
				why = payloadMismatch(a[i].List[0], k)
			}
			if why == "" {
				why = payloadMismatch(a[i].List[1], x)
			}
			i++
		})
		return why
	}
	return ""
}

// sameValue: equality of the values the ops build, looking inside Sensitive (which never equals anything) and object instances
func sameValue(x, y px.Value) bool {
	switch a := x.(type) {
	case *types.Sensitive:
		b, ok := y.(*types.Sensitive)
		return ok && sameValue(a.Unwrap(), b.Unwrap())
	case *types.Array:
		b, ok := y.(*types.Array)
		if !ok || a.Len() != b.Len() {
			return false
		}
		for i := 0; i < a.Len(); i++ {
			if !sameValue(a.At(i), b.At(i)) {
				return false
			}
		}
		return true
	case *types.Hash:
		b, ok := y.(*types.Hash)
		if !ok || a.Len() != b.Len() {
			return false
		}
		same := true
		i := 0
		a.EachPair(func(k, v px.Value) {
			e := b.At(i).(*types.HashEntry)
			same = same && sameValue(k, e.Key()) && sameValue(v, e.Value())
			i++
		})
		return same
	case px.Type:
		return a.Equals(y, nil)
	case px.Float:
		b, ok := y.(px.Float)
		return ok && math.Float64bits(a.Float()) == math.Float64bits(b.Float())
	case px.PuppetObject:
		b, ok := y.(px.PuppetObject)
		return ok && a.PType().Name() == b.PType().Name() && sameValue(a.InitHash().(*types.Hash), b.InitHash().(*types.Hash))
	}
	return x.Equals(y, nil)
}

// the layout of DefaultTimestampFormats[0] (`%FT%T.%N %Z`) in the notation of Go's time package
const timestampLayout = "2006-01-02T15:04:05.000000000 MST"

// hasNonFinite: a NaN or an infinity somewhere in the value
func hasNonFinite(e sx.Sexp) bool {
	switch e.Tag() {
	case "f":
		u, _ := strconv.ParseUint(e.Args()[0].Atom, 10, 64)
		fl := math.Float64frombits(u)
		return math.IsNaN(fl) || math.IsInf(fl, 0)
	case "a":
		for _, k := range e.Args() {
			if hasNonFinite(k) {
				return true
			}
		}
	case "h":
		for _, kv := range e.Args() {
			if hasNonFinite(kv.List[0]) || hasNonFinite(kv.List[1]) {
				return true
			}
		}
	}
	return false
}

// kindsIn: the kind letters of every value inside e (e included)
func kindsIn(e sx.Sexp, into map[byte]bool) {
	into[e.Tag()[0]] = true
	switch e.Tag() {
	case "a":
		for _, k := range e.Args() {
			kindsIn(k, into)
		}
	case "h", "o":
		if e.Tag() == "o" && e.Args()[0].MustStr() == "" {
			into['h'] = true // an instance of an anonymous object type is written as a Hash
		}
		for _, kv := range entriesOfValue(e) {
			kindsIn(kv.List[0], into)
			kindsIn(kv.List[1], into)
		}
	case "q", "j":
		// an anonymous / expanded object type formats the values of its init hash
		for _, kv := range e.Args()[2:] {
			kindsIn(kv.List[1], into)
		}
	case "t":
		// the parameters of a Type are formatted as an Array
		if len(e.Args()) > 2 {
			into['a'] = true
			for _, k := range e.Args()[2:] {
				kindsIn(k, into)
			}
		}
	}
}

// the keys of DefaultFormats and of DefaultContainerFormats whose entries carry container formats of their own (the
// entries of the other default keys have none: there is nothing the user's string_formats could refine)
var defaultKeys = map[string]bool{"object": true, "type": true, "arr": true, "hash": true}

// prune removes (at every level) the entries whose key type accepts none of the kinds; changed reports whether any went
func prune(m []entry, kinds map[byte]bool, mergedLevel bool) (out []entry, changed bool) {
	for _, e := range m {
		keep := false
		for i := 0; i < len(keyAccepts[e.key]); i++ {
			keep = keep || kinds[keyAccepts[e.key][i]]
		}
		if !keep {
			changed = true
			continue
		}
		if e.n.hasCf {
			// this map is merged with a default map (DefaultFormats at the top, DefaultContainerFormats below an entry
			// that was itself merged with a default container entry)
			refines := mergedLevel && defaultKeys[e.key]
			for _, o := range m {
				if o.key != e.key && px.IsAssignable(keyType(o.key), keyType(e.key)) {
					refines = false
				}
			}
			cf, ch := prune(e.n.cf, kinds, refines)
			// an entry whose key the defaults map too is MERGED with the default entry (unless another user key accepts
			// the key, which drops the default): its string_formats refine the default element formats, so when they
			// hold no relevant entry they say nothing — the same as none given.  (For any other key an empty
			// string_formats is taken literally: no element formats at all.)
			if ch || (len(cf) == 0 && refines) {
				n := *e.n
				n.cf = cf
				if len(cf) == 0 && refines {
					n.hasCf = false
				}
				e.n = &n
				changed = true
			}
		}
		out = append(out, e)
	}
	return out, changed
}

// execMerged: `fmt (mmap …) v` — the text is compared with the model of mergeFormats; directly on the implementation:
// total; only the documented errors; the user's directive for the exact type of a scalar is the one applied; and an
// entry whose key type accepts no value inside v (v included) never changes the rendering of v
func execMerged(c px.Context, fc *fctx, tag string, ve sx.Sexp, v px.Value, out string) core.Result {
	tags := []string{"kind:" + tag, "ctx:mmap", "out:" + strings.SplitN(out, " ", 2)[0]}
	res := func(pred string) core.Result { return core.Result{Out: out, Pred: pred, NonTrivial: true, Tags: tags} }
	fail := func(class, detail string) core.Result {
		r := core.Fail(out, class, oneLine(detail))
		r.Tags = tags
		return r
	}
	switch {
	case out == "timeout":
		return fail("hang", "formatting did not finish within 2s")
	case out == "fault":
		return fail("fault", "formatting raised a runtime fault")
	case out == "out-of-model":
		return res("n/a")
	}
	if anyInvalid(fc.m) {
		if strings.HasPrefix(out, "reported PCORE_INVALID_STRING_FORMAT") {
			return res("n/a")
		}
		return fail("invalid-accepted", "a directive outside the grammar was not rejected: "+out)
	}
	text, isT := isText(out)
	if !isT {
		if out == "reported "+unsupported || (out == "reported PCORE_FAILURE" && hasBadBinary(ve)) {
			return res("ok")
		}
		return fail("other-error", "formatting raised "+out)
	}
	if strings.Contains(text, "%!") && !hasPercent(ve) && !sepHasPercent(fc.m) {
		return fail("go-fmt-leak", fmt.Sprintf("a Go fmt error marker in the output: %q", text))
	}
	if hasNonFinite(ve) {
		// NaN and ±Inf are not instances of Float (its range is ±MaxFloat64): no Float entry applies to them
		return res("n/a")
	}
	if fc.typed {
		return execMergedTyped(c, fc, tag, ve, v, out, res, fail)
	}
	// the user's directive for the exact type of a scalar applies to it
	if !isContainerTag(tag) && !(tag == "t" && len(ve.Args()) > 2) && !(tag == "q" && ve.Args()[1].MustStr() == "") {
		// (a Type with parameters and an anonymous object type format nested values, to which other entries apply)
		for _, e := range fc.m {
			if e.key == kindKey(tag) && !e.n.hasSep && !e.n.hasSep2 && !e.n.hasCf {
				want := renderTop(c, &fctx{mode: "kind", top: e.n, m: []entry{{key: e.key, typ: e.typ, n: e.n}}}, tag, v)
				if want != out {
					wt, _ := isText(want)
					return fail("exact-key-ignored", fmt.Sprintf("the map gives %s for %s, which alone renders %q (%s); got %q", e.n.d.raw, e.key, wt, want, text))
				}
			}
		}
	}
	// an entry for a type that has no instance inside the value does not matter
	kinds := map[byte]bool{}
	kindsIn(ve, kinds)
	if kinds['h'] || kinds['o'] {
		kinds['a'] = true // a hash (or the init hash of an object) formatted with %a is rendered as the array of its entries
	}
	if pm, changed := prune(fc.m, kinds, true); changed {
		other := renderMerged(c, v, pm)
		if other != out {
			ot, _ := isText(other)
			tags = append(tags, "pruned")
			return fail("irrelevant-entry-matters", fmt.Sprintf("got %q; without the entries whose type has no instance in the value: %q (%s)", text, ot, other))
		}
		tags = append(tags, "pruned")
	}
	return res("ok")
}

// the keys of types.DefaultFormats
var defaultFormatKeys = []string{"object", "type", "float", "numeric", "arr", "hash", "bin", "any"}

// execMergedTyped: `fmtt (tmmap …) v` — the user's map keyed by arbitrary types, merged with the defaults.  Directly on the
// implementation (px.IsAssignable as the oracle of the order): among the keys of the merged map — the user's keys and the
// default keys that no different user key accepts — that accept a scalar v, when one is the most specific (every other accepting
// key accepts it) and it is a user key with a plain directive that is not a default's key, v is rendered by that directive
func execMergedTyped(c px.Context, fc *fctx, tag string, ve sx.Sexp, v px.Value, out string, res func(string) core.Result,
	fail func(string, string) core.Result) core.Result {
	if isContainerTag(tag) || tag == "t" {
		return res("ok")
	}
	type cand struct {
		t    px.Type
		user *entry
	}
	var cands []cand
	for i := range fc.m {
		cands = append(cands, cand{fc.m[i].typ, &fc.m[i]})
	}
	for _, dk := range defaultFormatKeys {
		dt := keyType(dk)
		dropped, same := false, false
		for _, e := range fc.m {
			if e.typ.Equals(dt, nil) {
				same = true
			} else if px.IsAssignable(e.typ, dt) {
				dropped = true
			}
		}
		if !dropped && !same {
			cands = append(cands, cand{dt, nil})
		}
		if same {
			// merged with the default entry: the user's directive, but not a plain entry any more
			for i := range cands {
				if cands[i].user != nil && cands[i].t.Equals(dt, nil) {
					cands[i].user = nil
				}
			}
		}
	}
	vt := v.PType()
	var acc []cand
	for _, k := range cands {
		if px.IsAssignable(k.t, vt) {
			acc = append(acc, k)
		}
	}
	for _, k := range acc {
		least := true
		for _, o := range acc {
			if !px.IsAssignable(o.t, k.t) {
				least = false
			}
		}
		if !least {
			continue
		}
		// strictly below every other accepting key?
		strict := true
		for _, o := range acc {
			if o.t != k.t && px.IsAssignable(k.t, o.t) {
				strict = false
			}
		}
		if !strict || k.user == nil || k.user.n.hasSep || k.user.n.hasSep2 || k.user.n.hasCf {
			return res("ok")
		}
		want := deadline(func() string {
			return textOut(px.ToString2(v, px.NewFormatContext(k.t, px.NewFormat(k.user.n.d.raw), px.NewIndentation(false, 0))))
		})
		if want != out {
			wt, _ := isText(want)
			text, _ := isText(out)
			return fail("most-specific-ignored", fmt.Sprintf("the map gives %s for %s, the most specific key that accepts the value; alone it renders %q (%s); got %q",
				k.user.n.d.raw, k.t.String(), wt, want, text))
		}
		return res("ok")
	}
	return res("ok")
}

// ---- Timespan.Format -------------------------------------------------------------------------------------------------------------

type spanSeg struct {
	lit      string
	kind     byte // D H M S L N, 0 = literal
	pad      byte // 0 (no padding), '0', ' '
	width    int  // -1 = none
	useTotal bool
}

// widths above this are not part of the format language (fmt does not accept them; fix 5257aa1)
const spanMaxWidth = 1000000

// an independent reading of the format language: %[-_0][width]{D,H,M,S,L,N} and %%; ok = false: not a format (a width above
// spanMaxWidth makes it one; such segments are still returned so that the defect class of the tree before the fix can be named)
func parseSpanFormat(f string) ([]spanSeg, bool) {
	segs, ok, over := parseSpanFormat2(f)
	return segs, ok && !over
}

func parseSpanFormat2(f string) ([]spanSeg, bool, bool) {
	over := false
	var segs []spanSeg
	rs := []rune(f)
	highest := -1
	ord := map[byte]int{'N': 0, 'L': 1, 'S': 2, 'M': 3, 'H': 4, 'D': 5}
	lit := func(r rune) {
		if n := len(segs); n > 0 && segs[n-1].kind == 0 {
			segs[n-1].lit += string(r)
		} else {
			segs = append(segs, spanSeg{lit: string(r)})
		}
	}
	for i := 0; i < len(rs); i++ {
		if rs[i] != '%' {
			lit(rs[i])
			continue
		}
		i++
		seg := spanSeg{pad: '0', width: -1}
		first := true
		for ; ; i++ {
			if i >= len(rs) {
				return nil, false, over
			}
			c := rs[i]
			switch {
			case c == '%':
				lit('%')
			case (c == '-' || c == '_') && first:
				if c == '-' {
					seg.pad = 0
				} else {
					seg.pad = ' '
				}
				first = false
				continue
			case c == '0' && first:
				seg.pad = '0'
				first = false
				continue
			case c >= '0' && c <= '9':
				if seg.width < 0 {
					seg.width = 0
				}
				if seg.width <= spanMaxWidth {
					seg.width = seg.width*10 + int(c-'0')
				}
				if seg.width > spanMaxWidth {
					over = true
				}
				first = false
				continue
			case strings.ContainsRune("DHMSLN", c):
				seg.kind = byte(c)
				if c == 'D' || highest < ord[byte(c)] {
					highest = ord[byte(c)]
				}
				segs = append(segs, seg)
			default:
				return nil, false, over
			}
			break
		}
	}
	for i := range segs {
		if segs[i].kind != 0 && ord[segs[i].kind] == highest {
			segs[i].useTotal = true
		}
	}
	return segs, true, over
}

// span xFORMAT NS: Timespan(NS).Format(FORMAT).  Direct predicates on the implementation: total (text or the reported bad-format
// error, no fmt marker); a format inside the language is accepted and one outside is rejected; the literal text appears verbatim
// and in order; a padded value segment (0 or blank, not a fraction) is at least as wide as requested; and the segments of the
// full format %D-%H:%M:%S.%N add up to the value
func execSpan(format string, ns int64) core.Result {
	out := deadline(func() string { return textOut(types.WrapTimespan(time.Duration(ns)).Format(format)) })
	segs, wellFormed, over := parseSpanFormat2(format)
	valid := wellFormed && !over
	tags := []string{"op:span", "out:" + strings.SplitN(out, " ", 2)[0]}
	res := func(pred string) core.Result {
		return core.Result{Out: out, Pred: pred, NonTrivial: strings.Count(format, "%") > 1 || len(format) > 2, Tags: tags}
	}
	fail := func(class, detail string) core.Result {
		r := core.Fail(out, class, oneLine(detail))
		r.Tags = tags
		return r
	}
	if out == "timeout" {
		return fail("hang", "Timespan.Format did not finish within 2s")
	}
	if out == "fault" {
		for _, sg := range segs {
			if valid && sg.kind == 'N' && sg.width == 0 && !sg.useTotal {
				// utils.Int64Pow(10, 0) was 0: the remainder of a nanosecond segment of width 0 divided by zero
				// (fixed finding C20-span-nano-width-zero, 03fcfad)
				return fail("span-nano-width-zero", fmt.Sprintf("%q of %d: runtime error (integer divide by zero)", format, ns))
			}
		}
		return fail("fault", "Timespan.Format raised a runtime fault")
	}
	text, isT := isText(out)
	if isT && (strings.Contains(text, "%!(NOVERB)") || strings.Contains(text, "%!(BADWIDTH)")) {
		// the width of a segment is beyond what fmt accepts and reached it (fixed finding C20-span-width-limit, 5257aa1)
		out = "fault"
		if wellFormed && over {
			return fail("span-width-limit", fmt.Sprintf("%q: a Go fmt error marker in the output: %.60q", format, text))
		}
		return fail("go-fmt-leak", fmt.Sprintf("%q: a Go fmt error marker in the output: %.60q", format, text))
	}
	if !utf8.ValidString(format) {
		return res("n/a")
	}
	if !valid {
		if out != "reported PCORE_TIMESPAN_BAD_FORMAT_SPEC" {
			return fail("span-invalid-accepted", fmt.Sprintf("%q is outside the format language but gives %s", format, out))
		}
		return res("n/a")
	}
	if !isT {
		return fail("span-valid-rejected", fmt.Sprintf("%q is a format but gives %s", format, out))
	}
	if strings.Contains(text, "%!") {
		return fail("go-fmt-leak", fmt.Sprintf("%q: a Go fmt error marker in the output: %q", format, text))
	}
	// literals in order; padded segments wide enough
	rest := text
	if ns < 0 && ns != math.MinInt64 {
		if !strings.HasPrefix(rest, "-") {
			return fail("span-sign", fmt.Sprintf("%q of %d: no leading sign in %q", format, ns, text))
		}
		rest = rest[1:]
	}
	for i, sg := range segs {
		if sg.kind == 0 {
			j := strings.Index(rest, sg.lit)
			if j < 0 || (i == 0 && j != 0) {
				return fail("span-literal", fmt.Sprintf("%q of %d: the literal %q is not where it belongs in %q", format, ns, sg.lit, text))
			}
			rest = rest[j+len(sg.lit):]
		}
	}
	if ns != math.MinInt64 && len(segs) == 1 && segs[0].kind != 0 && segs[0].pad != 0 && segs[0].width > 0 && strings.IndexByte("DHMS", segs[0].kind) >= 0 {
		if utf8.RuneCountInString(rest) < segs[0].width {
			return fail("span-too-narrow", fmt.Sprintf("%q of %d: %q is narrower than %d", format, ns, text, segs[0].width))
		}
	}
	if format == "%D-%H:%M:%S.%N" && ns != math.MinInt64 {
		var d, h, m, s, n int64
		body := strings.TrimPrefix(text, "-")
		if k, err := fmt.Sscanf(body, "%d-%d:%d:%d.%d", &d, &h, &m, &s, &n); err != nil || k != 5 {
			return fail("span-sum", fmt.Sprintf("%q does not read as D-H:M:S.N", text))
		}
		abs := ns
		if abs < 0 {
			abs = -abs
		}
		if ((d*24+h)*60+m)*60*1000000000+s*1000000000+n != abs || h > 23 || m > 59 || s > 59 || n > 999999999 {
			return fail("span-sum", fmt.Sprintf("%d renders %q, whose segments do not add up to it", ns, text))
		}
	}
	return res("ok")
}

// back <directive> <int>: render the integer, then read the text back with the Integer constructor and the radix of
// the letter: new(Integer, text, radix).  out: `int N` | `reported CODE` | `render <outcome>` when rendering gave no text
func execBack(c px.Context, directive string, i int64) core.Result {
	d := parseDir(directive)
	v := types.WrapInteger(i)
	out := deadline(func() string {
		return textOut(px.ToString2(v, px.NewFormatContext(types.DefaultIntegerType(), px.NewFormat(directive), px.NewIndentation(false, 0))))
	})
	text, isT := isText(out)
	tags := []string{"op:back"}
	if !isT {
		return core.Result{Out: "render " + out, Pred: "n/a", Tags: tags}
	}
	radix := int64(10)
	switch d.letter {
	case 'x', 'X':
		radix = 16
	case 'o':
		radix = 8
	case 'b', 'B':
		radix = 2
	}
	res := deadline(func() string {
		r := px.New(c, types.DefaultIntegerType(), types.WrapString(text), types.WrapInteger(radix))
		if iv, ok := r.(px.Integer); ok {
			return "int " + strconv.FormatInt(iv.Int(), 10)
		}
		return "other"
	})
	r := core.Result{Out: res, Pred: "ok", NonTrivial: !d.plain(), Tags: tags}
	if res == "timeout" {
		return core.Fail(res, "hang", "the Integer constructor did not finish within 2s")
	}
	if res == "fault" {
		return core.Fail(res, "fault", "the Integer constructor raised a runtime fault")
	}
	if !d.ok || strings.IndexByte("dxXobB", d.letter) < 0 || d.width >= 0 || (i == 0 && d.prec == 0 && strings.IndexByte("dxXo", d.letter) >= 0) {
		r.Pred = "n/a" // padded, blank-signed or empty renderings are not what the constructor is documented to read
		return r
	}
	if res != "int "+strconv.FormatInt(i, 10) {
		cls := "ctor-roundtrip"
		if (d.letter == 'x' || d.letter == 'X') && !d.sharp && !convertiblePattern.MatchString(text) {
			// the signature of the constructor (Convertible) admits hexadecimal digits only after the 0x prefix, as
			// Puppet's does: %x renderings with a digit a-f are not read back, %#x renderings are
			// (known finding C20-integer-ctor-hex)
			cls = "ctor-hex-unprefixed"
		}
		return core.Fail(res, cls, oneLine(fmt.Sprintf("%s of %d renders %q; new(Integer, %q, %d) gives %s", directive, i, text, text, radix, res)))
	}
	return r
}

// the Convertible pattern of the Integer constructor's signature, as documented in types/types.go (IntegerPattern)
var convertiblePattern = regexp.MustCompile(`\A[+-]?\s*(?:(?:\d+)|(?:0[xX][0-9A-Fa-f]+)|(?:0[bB][01]+))\z`)

func oneLine(s string) string {
	return strings.Map(func(r rune) rune {
		if r < 0x20 || r == 0x7f || r == 0x85 || r == 0x2028 || r == 0x2029 {
			return '?'
		}
		return r
	}, s)
}

func hasContainerChild(e sx.Sexp) bool {
	for _, k := range e.Args() {
		if e.Tag() == "a" && isContainerTag(k.Tag()) {
			return true
		}
		if e.Tag() == "h" && (isContainerTag(k.List[0].Tag()) || isContainerTag(k.List[1].Tag())) {
			return true
		}
	}
	return false
}

func hasBadBinary(e sx.Sexp) bool {
	if e.Tag() == "x" {
		return !utf8.ValidString(e.Args()[0].MustStr())
	}
	if e.IsList {
		for _, k := range e.List {
			if k.IsList && hasBadBinary(k) {
				return true
			}
		}
	}
	return false
}
