package c15

import (
	"fmt"
	"io/ioutil"
	"os"
	"path/filepath"
	"strings"

	"verif/harness/core"
	"verif/harness/sx"

	"github.com/lyraproj/pcore/loader"
	"github.com/lyraproj/pcore/px"
)

// ops on the smart path alone (no file system):
//
//	tn <xMOD> (xSEG …)    smartPath.TypedNames of the relative path SEG/…  (MOD = x: the global loader)
//	ep <xMOD> xNAME       smartPath.EffectivePath of NAME: `path <p>` (relative to the scratch root) | none | invalid
//
// direct predicate: the two directions agree (name → path → name up to letter case; path → name → lower-cased path),
// except for the reserved top-level files `init` / `init_typeset` of a module.

// op on the constructor:
//
//	ctor <xMOD> (xPATHTYPE …)   px.NewFileBasedLoader(sys, <tmp>, MOD, PATHTYPE…) over a directory that holds
//	                            types/probe.pp and types/Q/probe.pp (Q = MOD, or `nomod` for the empty name):
//	                            `reported <CODE>` when the constructor panics, else `ok <t|f> <t|f> <t|f>` = HasEntry of
//	                            Probe, Q::Probe, Q::Q::Probe — which shows the moduleNameRelative flag the CONSTRUCTOR gave
//	                            its smart paths (the ops tn / ep build their own smart path and never see it)
//
// direct predicate (`ctor-path-kind`): a loader without the data-type path indexes nothing; a global loader (module name
// `` or `environment`) keys the two files Probe and Q::Probe, any other loader Q::Probe and Q::Q::Probe.

func execCtor(args []sx.Sexp) (res core.Result) {
	defer func() {
		if e := recover(); e != nil {
			res = core.Result{Out: "bad-op", Pred: "FAIL harness-bad-op " + fmt.Sprint(e)}
		}
	}()
	if len(args) != 2 {
		panic("two arguments expected")
	}
	mod := args[0].MustStr()
	if mod != "" && !modRx.MatchString(mod) {
		return core.Result{Out: "bad-tree", Pred: "n/a"}
	}
	pts := strs(args[1])
	q := mod
	if q == "" {
		q = "nomod"
	}
	root, err := ioutil.TempDir("", "c15ctor-")
	if err != nil {
		panic(err)
	}
	defer os.RemoveAll(root)
	for _, rel := range [][]string{{"types", "probe.pp"}, {"types", q, "probe.pp"}} {
		p := filepath.Join(append([]string{root}, rel...)...)
		if err := os.MkdirAll(filepath.Dir(p), 0755); err != nil {
			panic(err)
		}
		if err := ioutil.WriteFile(p, []byte("type X = Integer\n"), 0644); err != nil {
			panic(err)
		}
	}
	lds := make([]px.PathType, len(pts))
	hasData := false
	for i, pt := range pts {
		lds[i] = px.PathType(pt)
		hasData = hasData || lds[i] == px.PuppetDataTypePath
	}
	var ml px.ModuleLoader
	out := func() (o string) {
		defer func() {
			if e := recover(); e != nil {
				o = classify(root, e).String()
			}
		}()
		ml = px.NewFileBasedLoader(px.NewParentedLoader(px.StaticLoader()), root, mod, lds...)
		return "ok"
	}()
	if ml == nil {
		// the constructor refused: legitimate exactly when some path type has no factory
		known := true
		for _, pt := range lds {
			known = known && pt == px.PuppetDataTypePath
		}
		if known {
			return core.Fail(out, "ctor-path-kind", "constructor refused registered path types")
		}
		return core.Result{Out: out, Pred: "ok", NonTrivial: true, Tags: []string{"ctor-refused"}}
	}
	capQ := capSeg(q)
	names := []string{"Probe", capQ + "::Probe", capQ + "::" + capQ + "::Probe"}
	global := mod == "" || mod == "environment"
	want := []bool{global, true, !global}
	if !hasData {
		want = []bool{false, false, false}
	}
	for i, n := range names {
		got := ml.HasEntry(px.NewTypedName(px.NsType, n))
		out += " " + sx.B(got)
		if got != want[i] && res.Pred == "" {
			res = core.Fail("", "ctor-path-kind", fmt.Sprintf("loader %q built with %v: HasEntry(%s) = %v", mod, pts, n, got))
		}
	}
	if res.Pred != "" {
		res.Out = out
		return res
	}
	return core.Result{Out: out, Pred: "ok", NonTrivial: true, Tags: []string{"ctor"}}
}

const fakeRoot = "/c15root"

func smartPathFor(mod string) (loader.SmartPath, string) {
	sys := px.NewParentedLoader(px.StaticLoader())
	root := filepath.Join(fakeRoot, "env")
	if mod != "" {
		root = filepath.Join(fakeRoot, "modules", mod)
	}
	ml := px.NewFileBasedLoader(sys, root, mod, px.PuppetDataTypePath)
	rel := !(mod == "" || mod == "environment")
	return loader.NewSmartPath("types", ".pp", ml, []px.Namespace{px.NsType}, rel, false, nil), root
}

func effective(sp loader.SmartPath, name string) (out string) {
	defer func() {
		if e := recover(); e != nil {
			out = "invalid"
		}
	}()
	p := sp.EffectivePath(px.NewTypedName(px.NsType, name))
	if p == "" {
		return "none"
	}
	if r, ok := relTo(fakeRoot, p); ok {
		return "path " + r
	}
	return "path ?" + p
}

func reservedRel(mod string, rel []string) bool {
	if mod == "" || mod == "environment" || len(rel) != 1 {
		return false
	}
	return rel[0] == "init.pp" || rel[0] == "init_typeset.pp"
}

func execPath(op string, args []sx.Sexp) (res core.Result) {
	defer func() {
		if e := recover(); e != nil {
			res = core.Result{Out: "bad-op", Pred: "FAIL harness-bad-op " + fmt.Sprint(e)}
		}
	}()
	if len(args) != 2 {
		panic("two arguments expected")
	}
	mod := args[0].MustStr()
	if mod != "" && !modRx.MatchString(mod) {
		return core.Result{Out: "bad-tree", Pred: "n/a"}
	}
	sp, root := smartPathFor(mod)
	generic, _ := relTo(fakeRoot, filepath.Join(root, "types"))
	switch op {
	case "tn":
		rel := strs(args[1])
		if len(rel) == 0 || !strings.HasSuffix(rel[len(rel)-1], ".pp") {
			return core.Result{Out: "bad-tree", Pred: "n/a"}
		}
		for _, g := range rel {
			if !segRx.MatchString(g) || g == "." || g == ".." {
				return core.Result{Out: "bad-tree", Pred: "n/a"}
			}
		}
		tns := sp.TypedNames(px.RuntimeNameAuthority, strings.Join(rel, "/"))
		outs := make([]string, len(tns))
		for i, tn := range tns {
			outs[i] = sx.Str(tn.Name()).Atom
		}
		out := strings.Join(outs, " ")
		if reservedRel(mod, rel) {
			return core.Result{Out: out, Pred: "n/a", Tags: []string{"tn-reserved"}}
		}
		for _, tn := range tns {
			back := effective(sp, tn.Name())
			if back == "invalid" {
				// a file name that is not an identifier: no name can address it through a module loader
				return core.Result{Out: out, Pred: "n/a", Tags: []string{"tn-invalid-part"}}
			}
			want := "path " + generic + "/" + strings.ToLower(strings.Join(rel, "/"))
			if back != want {
				return core.Fail(out, "path-name-roundtrip", fmt.Sprintf("TypedNames(%s) = %s but EffectivePath of it = %s", strings.Join(rel, "/"), tn.Name(), back))
			}
		}
		return core.Result{Out: out, Pred: "ok", NonTrivial: len(rel) > 1 || mod != "", Tags: []string{"tn"}}
	case "ep":
		name := args[1].MustStr()
		if !nameOK(name) {
			return core.Result{Out: "bad-tree", Pred: "n/a"}
		}
		out := effective(sp, name)
		if !strings.HasPrefix(out, "path ") {
			return core.Result{Out: out, Pred: "ok", Tags: []string{"ep-" + out}}
		}
		p := out[5:]
		if !strings.HasPrefix(p, generic+"/") {
			return core.Fail(out, "path-name-roundtrip", "effective path outside the generic path")
		}
		rel := strings.Split(p[len(generic)+1:], "/")
		if reservedRel(mod, rel) {
			return core.Result{Out: out, Pred: "n/a", NonTrivial: true, Tags: []string{"ep-reserved"}}
		}
		tns := sp.TypedNames(px.RuntimeNameAuthority, strings.Join(rel, "/"))
		want := px.NewTypedName(px.NsType, name).MapKey()
		if len(tns) != 1 || tns[0].MapKey() != want {
			return core.Fail(out, "path-name-roundtrip", fmt.Sprintf("EffectivePath(%s) = %s whose TypedNames differ", name, p))
		}
		return core.Result{Out: out, Pred: "ok", NonTrivial: true, Tags: []string{"ep-path"}}
	}
	panic("unreachable")
}
