// Package c15: file-based loading maps names to definition files faithfully (property C15).
//
// ops: `tree` (model + implementation), `@nsprobe` (implementation only: `tree` with every name also looked up in the
// namespaces no smart path serves), `@strict` (implementation only: the same op judged with the demands the known
// findings fail) and `@forked` (implementation only; the same arguments, every lookup made under a
// fresh child loader of the context's loader — what a forked context has), plus `tn` / `ep` / `ctor` (path.go):
//
//	tree <mods> <files> <via> <lookups>
//
//	mods    = (xNAME …)                       module directories <root>/modules/NAME (created even when empty)
//	files   = (((xSEG …) BODY) …)             path segments relative to the scratch root; the global loader's root is
//	                                          <root>/env (types below env/types), a module's root is <root>/modules/NAME
//	BODY    = (alias xN)                      `type N = Variant[String,Integer]` preceded by comment lines
//	        | (object xN)                     `type N = Object[{attributes => {a => Integer}}]`
//	        | (typeset xN (xT …))             `type N = TypeSet[{… types => {T => …, …}}]` (odd positions aliases, even objects)
//	        | (bare)                          `Variant[String,Integer]`   (no name in the file: takes the requested name)
//	        | (malformed L)                   L-1 comment lines, then a syntax error on line L
//	        | (literal L)                     L-1 comment lines, then `type Bad = 3` (not a type: PARSE_ERROR on line L)
//	        | (empty)                         zero bytes
//	        | (unreadable)                    a file whose read fails (chmod 000; a dangling symlink when that has no
//	                                          effect because the process is privileged)
//	via     = g | d | (m xNAME) | e | (f xNAME) the context's loader: global file loader, dependency loader, one module loader;
//	                                          e = the dependency loader of the FLAT topology: the global loader is its first
//	                                          member and every file loader is a child of the system loader;
//	                                          (f xNAME) = the loader of module NAME in the flat topology: a TOP-LEVEL file
//	                                          loader (parent = system loader) that carries a module name
//
// A module may be called `environment`: newFileBasedLoader gives such a loader smart paths that are NOT module-name
// relative (like the loader with the empty module name) while `find` still filters qualified names by that module name.
// The three kinds of loader the constructor distinguishes are therefore all built: module name "" (g), `environment`
// ((m x656e7669726f6e6d656e74), (f …), member of d / e) and an ordinary module name.
//	lookups = ((load xNAME) | (has xNAME) | (discover) | (def g xNAME) | (def (m xMOD) xNAME) …)
//	          def = a definition made BETWEEN lookups through another loader's DefiningLoader, without any file:
//	          px.AddTypes(c, px.NewNamedType(NAME, "Variant[String,Integer]")) under c.DoWithLoader(<that file loader>)
//
// The loaders are built the way internal/runtime.go and loader/filebased_test.go do it: a fresh system-like parented loader
// over the static loader, `px.NewFileBasedLoader(sys, root/env, "", PuppetDataTypePath)` for the global loader, one
// `px.NewFileBasedLoader(global, root/modules/M, M, PuppetDataTypePath)` per module, `px.NewDependencyLoader(modules)`.
//
// Output: one item per lookup joined by " ; ", then " | reads" and the per-path counts of GetContent calls:
//
//	load      found <a|o|s|?> <xNAME-as-defined> | notfound | reported <CODE> <file-relative|-> <line> | fault
//	          each followed by " +<file>" for every read the lookup caused (sorted, repeated when read twice)
//	has       has t|f
//	discover  names n1,n2,…   (lower-cased names, core types left out)
package c15

import (
	"fmt"
	"io/ioutil"
	"os"
	"path/filepath"
	"regexp"
	"sort"
	"strings"

	"verif/harness/core"
	"verif/harness/sx"

	"github.com/lyraproj/issue/issue"
	"github.com/lyraproj/pcore/loader"
	"github.com/lyraproj/pcore/px"
)

func init() {
	core.Register(&core.Prop{
		ID:   "C15",
		Rule: "distinct op lines; non-trivial = at least one lookup is answered by reading a file (found or reported)",
		Gen:  gen,
		Exec: exec,
	})
}

// ---- op syntax -------------------------------------------------------------------------------------------------

type body struct {
	kind  string // alias object typeset bare malformed empty unreadable; xref op only: bareobject barehash
	name  string
	types []string
	line  int
	// the extended forms of the implementation-only op `xref` (xref.go): definitions that REFER to other definitions
	ext    bool
	refs   []string // type names the definition (every member of a type set) refers to
	tsrefs []tsref  // type set only: the `references` of the type set
}

// tsref: one entry of a type set's `references` (alias RefI => {name => set, version_range => '1.x'}); member != "": the
// first object member of the referring type set has an attribute of type RefI::member
type tsref struct {
	set, member string
	major       int // 0 or 1: version_range => '1.x' (every generated type set has version 1.0.0); 2: '2.x', a mismatch
}

type file struct {
	segs []string
	body body
}

type lookup struct {
	op   string // load has discover def
	name string
	in   string // def: the loader whose DefiningLoader gets the definition ("g" or "m:<name>")
}

type spec struct {
	mods    []string
	files   []file
	via     string // "g", "d", "e", "m:<name>" or "f:<name>"
	lookups []lookup
}

func strs(e sx.Sexp) []string {
	if !e.IsList {
		panic(fmt.Errorf("list expected: %s", e))
	}
	out := make([]string, len(e.List))
	for i, x := range e.List {
		out[i] = x.MustStr()
	}
	return out
}

func bodyOf(e sx.Sexp) body {
	a := e.Args()
	switch e.Tag() {
	case "alias", "object":
		if len(a) == 2 {
			return body{kind: e.Tag(), name: a[0].MustStr(), ext: true, refs: strs(a[1])}
		}
		return body{kind: e.Tag(), name: a[0].MustStr()}
	case "typeset":
		if len(a) == 4 {
			b := body{kind: "typeset", name: a[0].MustStr(), types: strs(a[1]), ext: true, refs: strs(a[2])}
			if !a[3].IsList {
				panic(fmt.Errorf("bad body %s", e))
			}
			for _, r := range a[3].List {
				if !r.IsList || (len(r.List) != 2 && len(r.List) != 3) {
					panic(fmt.Errorf("bad body %s", e))
				}
				t := tsref{set: r.List[0].MustStr(), member: r.List[1].MustStr()}
				if len(r.List) == 3 {
					t.major = int(r.List[2].MustInt())
					if t.major != 2 {
						panic(fmt.Errorf("bad body %s", e))
					}
				}
				b.tsrefs = append(b.tsrefs, t)
			}
			return b
		}
		return body{kind: "typeset", name: a[0].MustStr(), types: strs(a[1])}
	case "bareobject", "barehash":
		if len(a) != 0 {
			panic(fmt.Errorf("bad body %s", e))
		}
		return body{kind: e.Tag(), ext: true}
	case "bare", "empty", "unreadable":
		if len(a) != 0 {
			panic(fmt.Errorf("bad body %s", e))
		}
		return body{kind: e.Tag()}
	case "malformed", "literal":
		l := a[0].MustInt()
		if l < 1 || l > 1000 {
			panic(fmt.Errorf("bad line %s", e))
		}
		return body{kind: e.Tag(), line: int(l)}
	}
	panic(fmt.Errorf("bad body %s", e))
}

func strList(ss []string) sx.Sexp {
	out := make([]sx.Sexp, len(ss))
	for i, s := range ss {
		out[i] = sx.Str(s)
	}
	return sx.L(out...)
}

func (b body) sexp() sx.Sexp {
	switch b.kind {
	case "alias", "object":
		if b.ext {
			return sx.T(b.kind, sx.Str(b.name), strList(b.refs))
		}
		return sx.T(b.kind, sx.Str(b.name))
	case "typeset":
		ts := make([]sx.Sexp, len(b.types))
		for i, t := range b.types {
			ts[i] = sx.Str(t)
		}
		if b.ext {
			rs := make([]sx.Sexp, len(b.tsrefs))
			for i, r := range b.tsrefs {
				rs[i] = sx.L(sx.Str(r.set), sx.Str(r.member))
				if r.major == 2 {
					rs[i] = sx.L(sx.Str(r.set), sx.Str(r.member), sx.Int(2))
				}
			}
			return sx.T("typeset", sx.Str(b.name), sx.L(ts...), strList(b.refs), sx.L(rs...))
		}
		return sx.T("typeset", sx.Str(b.name), sx.L(ts...))
	case "malformed", "literal":
		return sx.T(b.kind, sx.Int(int64(b.line)))
	}
	return sx.T(b.kind)
}

func specOf(args []sx.Sexp) (s spec, err error) {
	defer func() {
		if e := recover(); e != nil {
			err = fmt.Errorf("%v", e)
		}
	}()
	if len(args) != 4 {
		panic("tree takes 4 arguments")
	}
	s.mods = strs(args[0])
	if !args[1].IsList {
		panic("files: list expected")
	}
	for _, f := range args[1].List {
		if !f.IsList || len(f.List) != 2 {
			panic("file: (segs body) expected")
		}
		s.files = append(s.files, file{segs: strs(f.List[0]), body: bodyOf(f.List[1])})
	}
	switch {
	case !args[2].IsList && (args[2].Atom == "g" || args[2].Atom == "d" || args[2].Atom == "e"):
		s.via = args[2].Atom
	case (args[2].Tag() == "m" || args[2].Tag() == "f") && len(args[2].List) == 2:
		s.via = args[2].Tag() + ":" + args[2].List[1].MustStr()
	default:
		panic("bad via")
	}
	if !args[3].IsList {
		panic("lookups: list expected")
	}
	for _, l := range args[3].List {
		switch {
		case (l.Tag() == "load" || l.Tag() == "has") && len(l.List) == 2:
			s.lookups = append(s.lookups, lookup{op: l.Tag(), name: l.List[1].MustStr()})
		case l.Tag() == "discover" && len(l.List) == 1:
			s.lookups = append(s.lookups, lookup{op: "discover"})
		case l.Tag() == "def" && len(l.List) == 3:
			in := ""
			switch {
			case !l.List[1].IsList && l.List[1].Atom == "g":
				in = "g"
			case l.List[1].Tag() == "m" && len(l.List[1].List) == 2:
				in = "m:" + l.List[1].List[1].MustStr()
			default:
				panic("bad def loader")
			}
			s.lookups = append(s.lookups, lookup{op: "def", name: l.List[2].MustStr(), in: in})
		default:
			panic("bad lookup")
		}
	}
	return
}

func (s spec) String() string {
	ms := make([]sx.Sexp, len(s.mods))
	for i, m := range s.mods {
		ms[i] = sx.Str(m)
	}
	fs := make([]sx.Sexp, len(s.files))
	for i, f := range s.files {
		segs := make([]sx.Sexp, len(f.segs))
		for j, g := range f.segs {
			segs[j] = sx.Str(g)
		}
		fs[i] = sx.L(sx.L(segs...), f.body.sexp())
	}
	var via sx.Sexp
	if strings.HasPrefix(s.via, "m:") || strings.HasPrefix(s.via, "f:") {
		via = sx.T(s.via[:1], sx.Str(s.via[2:]))
	} else {
		via = sx.A(s.via)
	}
	ls := make([]sx.Sexp, len(s.lookups))
	for i, l := range s.lookups {
		if l.op == "discover" {
			ls[i] = sx.T("discover")
		} else if l.op == "def" {
			var in sx.Sexp = sx.A("g")
			if strings.HasPrefix(l.in, "m:") {
				in = sx.T("m", sx.Str(l.in[2:]))
			}
			ls[i] = sx.T("def", in, sx.Str(l.name))
		} else {
			ls[i] = sx.T(l.op, sx.Str(l.name))
		}
	}
	return "tree " + sx.L(ms...).String() + " " + sx.L(fs...).String() + " " + via.String() + " " + sx.L(ls...).String()
}

// ---- well-formedness of a tree spec (the same test is made by the Lean driver: both print `bad-tree`) ----------------

var segRx = regexp.MustCompile(`\A[A-Za-z0-9_.]+\z`)
var modRx = regexp.MustCompile(`\A[a-z][a-z0-9_]*\z`)
var typeSegRx = regexp.MustCompile(`\A[A-Z][A-Za-z0-9_]*\z`)

func isPrefix(a, b []string) bool {
	if len(a) > len(b) {
		return false
	}
	for i := range a {
		if a[i] != b[i] {
			return false
		}
	}
	return true
}

// splitName: the segments of a name the way typedName sees them (one leading `::` dropped)
func splitName(n string) []string {
	return strings.Split(strings.TrimPrefix(n, "::"), "::")
}

// nameOK: printable ASCII and no `:` inside a segment
func nameOK(n string) bool {
	for i := 0; i < len(n); i++ {
		if n[i] < 0x20 || n[i] > 0x7e {
			return false
		}
	}
	for _, seg := range splitName(n) {
		if strings.Contains(seg, ":") {
			return false
		}
	}
	return true
}

func typeNameOK(n string) bool {
	for _, seg := range strings.Split(n, "::") {
		if !typeSegRx.MatchString(seg) {
			return false
		}
	}
	return true
}

// wellFormed: segments are plain file names, module names are valid and distinct, no path is a prefix of (or equal to)
// another, no file sits where a module directory must be, the via loader exists, definitions carry parseable names,
// lookup names stay inside the alphabet on which string and segment operations coincide.
func (s spec) wellFormed() bool {
	seen := map[string]bool{}
	for _, m := range s.mods {
		// `environment` (the pseudo module name the code treats as global) is a module name like any other here
		if !modRx.MatchString(m) || seen[m] {
			return false
		}
		seen[m] = true
	}
	if (strings.HasPrefix(s.via, "m:") || strings.HasPrefix(s.via, "f:")) && !seen[s.via[2:]] {
		return false
	}
	if s.via == "d" && len(s.mods) == 0 {
		return false
	}
	for i, f := range s.files {
		if len(f.segs) == 0 {
			return false
		}
		for _, g := range f.segs {
			if !segRx.MatchString(g) || g == "." || g == ".." {
				return false
			}
		}
		for j, o := range s.files {
			if i != j && isPrefix(f.segs, o.segs) {
				return false
			}
		}
		if len(f.segs) == 1 && (f.segs[0] == "env" || f.segs[0] == "modules") {
			return false
		}
		if len(f.segs) == 2 && f.segs[0] == "modules" && seen[f.segs[1]] {
			return false
		}
		switch f.body.kind {
		case "alias", "object":
			if !typeNameOK(f.body.name) {
				return false
			}
		case "typeset":
			if !typeNameOK(f.body.name) || len(f.body.types) == 0 {
				return false
			}
			ts := map[string]bool{}
			for _, t := range f.body.types {
				if !typeSegRx.MatchString(t) || ts[strings.ToLower(t)] {
					return false
				}
				ts[strings.ToLower(t)] = true
			}
		}
		for _, r := range f.body.refs {
			if !typeNameOK(r) {
				return false
			}
		}
		for _, r := range f.body.tsrefs {
			// member: a member of the referenced set, or a path through ITS references (Ref0::Tx)
			if !typeNameOK(r.set) || (r.member != "" && !typeNameOK(r.member)) {
				return false
			}
		}
	}
	for _, l := range s.lookups {
		if l.op != "discover" && !nameOK(l.name) {
			return false
		}
		if l.op == "def" && (!typeNameOK(l.name) || (strings.HasPrefix(l.in, "m:") && !seen[l.in[2:]])) {
			return false
		}
	}
	return true
}

// ---- materialising a tree -----------------------------------------------------------------------------------------

func (b body) text() string {
	if b.ext {
		return b.extText()
	}
	switch b.kind {
	case "alias":
		return "# a definition\n\ntype " + b.name + " = Variant[String,Integer]\n# trailing comment\n"
	case "object":
		return "type " + b.name + " = Object[{\n  attributes => {\n    a => Integer\n  }\n}]\n"
	case "typeset":
		var sb strings.Builder
		sb.WriteString("type " + b.name + " = TypeSet[{\n  pcore_version => '1.0.0',\n  version => '1.0.0',\n  types => {\n")
		for i, t := range b.types {
			if i > 0 {
				sb.WriteString(",\n")
			}
			if i%2 == 0 {
				sb.WriteString("    " + t + " => Variant[String,Integer]")
			} else {
				sb.WriteString("    " + t + " => Object[{attributes => {a => Integer}}]")
			}
		}
		sb.WriteString("\n  }\n}]\n")
		return sb.String()
	case "bare":
		return "Variant[String,Integer]\n"
	case "malformed":
		return strings.Repeat("# filler\n", b.line-1) + "type Bad = Variant[String Integer]\n"
	case "literal":
		// no trailing newline: the error is raised when the parser stands at the end of the input
		return strings.Repeat("# filler\n", b.line-1) + "type Bad = 3"
	}
	return ""
}

// chmodWorks: does mode 000 make a file unreadable for this process?  (Not when privileged.)
var chmodWorks = func() bool {
	f, err := ioutil.TempFile("", "c15probe")
	if err != nil {
		return false
	}
	defer os.Remove(f.Name())
	f.Close()
	if os.Chmod(f.Name(), 0) != nil {
		return false
	}
	_, err = ioutil.ReadFile(f.Name())
	return err != nil
}()

func materialise(root string, s spec) error {
	if err := os.MkdirAll(filepath.Join(root, "env"), 0755); err != nil {
		return err
	}
	if err := os.MkdirAll(filepath.Join(root, "modules"), 0755); err != nil {
		return err
	}
	for _, m := range s.mods {
		if err := os.MkdirAll(filepath.Join(root, "modules", m), 0755); err != nil {
			return err
		}
	}
	for _, f := range s.files {
		p := filepath.Join(append([]string{root}, f.segs...)...)
		if err := os.MkdirAll(filepath.Dir(p), 0755); err != nil {
			return err
		}
		if f.body.kind == "unreadable" {
			if chmodWorks {
				if err := ioutil.WriteFile(p, []byte("type X = Integer\n"), 0000); err != nil {
					return err
				}
			} else if err := os.Symlink(filepath.Join(root, "no", "such", "file"), p); err != nil {
				return err
			}
			continue
		}
		if err := ioutil.WriteFile(p, []byte(f.body.text()), 0644); err != nil {
			return err
		}
	}
	return nil
}

// ---- running the lookups ------------------------------------------------------------------------------------------

type outcome struct {
	kind  string // found notfound reported fault has names
	tkind string // a o s ?
	name  string // found: the name the loaded type carries
	code  string // reported: issue code
	file  string // reported: file named by the error ("-" when none below the root)
	line  int
	has   bool
	names []string
	reads []string // files read during this lookup (relative, sorted, with repetitions)
}

func (o outcome) String() string {
	var s string
	switch o.kind {
	case "found":
		s = "found " + o.tkind + " " + sx.Str(o.name).Atom
	case "reported":
		s = fmt.Sprintf("reported %s %s %d", o.code, o.file, o.line)
	case "unprintable":
		s = "unprintable " + o.code
	case "has":
		return "has " + sx.B(o.has)
	case "names":
		return "names " + strings.Join(o.names, ",")
	default:
		s = o.kind
	}
	for _, r := range o.reads {
		s += " +" + r
	}
	return s
}

func relTo(root, p string) (string, bool) {
	if strings.HasPrefix(p, root+string(filepath.Separator)) {
		return filepath.ToSlash(p[len(root)+1:]), true
	}
	return "", false
}

// classify a recovered panic value: a reported issue with the file it names (location first, then the `source` / `path`
// arguments) or a runtime fault
func classify(root string, e interface{}) outcome {
	if r, ok := e.(issue.Reported); ok {
		msg, printable := errorText(r)
		if !printable {
			// a reported error whose own message cannot be formatted (Error() panics): the error is of no use to the caller
			return outcome{kind: "unprintable", code: string(r.Code())}
		}
		if strings.Contains(msg, "runtime error:") || strings.Contains(msg, "interface conversion") {
			return outcome{kind: "fault"}
		}
		o := outcome{kind: "reported", code: string(r.Code()), file: "-"}
		if loc := r.Location(); loc != nil {
			if rel, ok := relTo(root, loc.File()); ok {
				o.file, o.line = rel, loc.Line()
				return o
			}
		}
		for _, k := range []string{"source", "path"} {
			if v, ok := r.Argument(k).(string); ok {
				if rel, ok := relTo(root, v); ok {
					o.file = rel
					return o
				}
			}
		}
		return o
	}
	return outcome{kind: "fault"}
}

// errorText: the message of a reported issue; printable = false when formatting it panics
func errorText(r issue.Reported) (msg string, printable bool) {
	defer func() {
		if recover() != nil {
			msg, printable = "", false
		}
	}()
	return r.Error(), true
}

type world struct {
	root   string
	sys    px.Loader
	global px.ModuleLoader
	mods   map[string]px.ModuleLoader
	dep    px.Loader
	via    px.Loader
	forked bool
}

// flat: the topology in which every file loader is a child of the system loader
func (s spec) flat() bool { return s.via == "e" || strings.HasPrefix(s.via, "f:") }

func build(root string, s spec) *world {
	w := &world{root: root, mods: map[string]px.ModuleLoader{}}
	w.sys = px.NewParentedLoader(px.StaticLoader())
	w.global = px.NewFileBasedLoader(w.sys, filepath.Join(root, "env"), "", px.PuppetDataTypePath)
	mls := make([]px.ModuleLoader, 0, len(s.mods)+1)
	var parent px.Loader = w.global
	if s.flat() {
		// flat topology: the global loader is the first member of the dependency loader, nobody's parent
		parent = w.sys
		mls = append(mls, w.global)
	}
	for _, m := range s.mods {
		ml := px.NewFileBasedLoader(parent, filepath.Join(root, "modules", m), m, px.PuppetDataTypePath)
		w.mods[m] = ml
		mls = append(mls, ml)
	}
	w.dep = px.NewDependencyLoader(mls)
	switch {
	case s.via == "g":
		w.via = w.global
	case s.via == "d" || s.via == "e":
		w.via = w.dep
	default:
		w.via = w.mods[s.via[2:]]
	}
	return w
}

func readsNow(root string) map[string]int {
	m := map[string]int{}
	for p, n := range loader.VerifReads() {
		if rel, ok := relTo(root, p); ok {
			m[rel] = n
		}
	}
	return m
}

func typeKind(v interface{}) (string, string) {
	t, ok := v.(px.Type)
	if !ok {
		return "?", fmt.Sprintf("%T", v)
	}
	switch t.(type) {
	case px.TypeSet:
		return "s", t.Name()
	case px.ObjectType:
		return "o", t.Name()
	}
	if _, ok := t.(px.ResolvableType); ok {
		return "a", t.Name()
	}
	return "?", t.Name()
}

func (w *world) run(c px.Context, l lookup) (o outcome) {
	before := readsNow(w.root)
	defer func() {
		if e := recover(); e != nil {
			o = classify(w.root, e)
			if os.Getenv("VERIF_DEBUG") != "" {
				func() {
					defer func() { recover() }()
					fmt.Fprintf(os.Stderr, "C15 %s %s: %v\n", l.op, l.name, e)
				}()
			}
		}
		after := readsNow(w.root)
		for p, n := range after {
			for i := before[p]; i < n; i++ {
				o.reads = append(o.reads, p)
			}
		}
		sort.Strings(o.reads)
	}()
	ctxLoader := w.via
	if w.forked {
		ctxLoader = px.NewParentedLoader(w.via)
	}
	c.DoWithLoader(ctxLoader, func() {
		switch l.op {
		case "load":
			v, ok := px.Load(c, px.NewTypedName(px.NsType, l.name))
			if !ok {
				o = outcome{kind: "notfound"}
				return
			}
			k, n := typeKind(v)
			o = outcome{kind: "found", tkind: k, name: n}
		case "def":
			// handled by the caller's loader switch below: the definition goes to ANOTHER loader's DefiningLoader
			var dl px.Loader = w.global
			if strings.HasPrefix(l.in, "m:") {
				dl = w.mods[l.in[2:]]
			}
			c.DoWithLoader(dl, func() {
				px.AddTypes(c, px.NewNamedType(l.name, "Variant[String,Integer]"))
			})
			o = outcome{kind: "defined"}
		case "loadfunction", "loadtask", "loadplan":
			// the same name in a namespace no smart path serves
			_, ok := px.Load(c, px.NewTypedName(px.Namespace(l.op[4:]), l.name))
			if ok {
				o = outcome{kind: "found", tkind: "?", name: l.name}
			} else {
				o = outcome{kind: "notfound"}
			}
		case "has":
			o = outcome{kind: "has", has: ctxLoader.HasEntry(px.NewTypedName(px.NsType, l.name))}
		case "discover":
			static := px.StaticLoader()
			tns := ctxLoader.Discover(c, func(tn px.TypedName) bool { return tn.Namespace() == px.NsType && !static.HasEntry(tn) })
			ns := make([]string, len(tns))
			for i, tn := range tns {
				ns[i] = strings.ToLower(tn.Name())
			}
			o = outcome{kind: "names", names: ns}
		}
	})
	return
}

func exec(c px.Context, op string, args []sx.Sexp) core.Result {
	forked, strict, nsprobe, xref := false, false, false, false
	switch op {
	case "tree":
	case "nsprobe":
		// implementation-only (`@C15 nsprobe …`): before every type lookup the same name is looked up in the namespaces
		// function, task and plan — which no smart path serves (only the data-type path has a factory): those lookups must
		// answer not-found (or refuse the name) without reading a file, and the type lookups are judged as in `tree`
		nsprobe = true
	case "strict":
		// implementation-only (`@C15 strict …`): a `tree` op judged with the two demands the known findings fail (a line
		// for a misnamed file, no redefinition error for a name defined twice)
		strict = true
	case "forked":
		// implementation-only (`@C15 forked …`): every lookup runs under a fresh px.NewParentedLoader(via), the loader a
		// forked context (pcore.DoWithParent, px.Fork) has
		forked = true
	case "xref":
		// implementation-only (`@C15 xref …`, xref.go): a `tree` op whose definitions refer to each other — across files,
		// inside a type set, through the `references` of a type set — and bare Object / hash bodies; judged by the same oracle
		xref = true
	case "tn", "ep":
		return execPath(op, args)
	case "ctor":
		return execCtor(args)
	default:
		return core.Result{Out: "bad-op", Pred: "FAIL harness-bad-op " + op}
	}
	s, err := specOf(args)
	if err != nil {
		return core.Result{Out: "bad-op", Pred: "FAIL harness-bad-op " + err.Error()}
	}
	if !xref {
		for _, f := range s.files {
			if f.body.ext {
				// the extended bodies have no model counterpart
				return core.Result{Out: "bad-op", Pred: "FAIL harness-bad-op extended body outside xref"}
			}
		}
	}
	if !s.wellFormed() {
		return core.Result{Out: "bad-tree", Pred: "n/a"}
	}
	root, err := ioutil.TempDir("", "c15-")
	if err != nil {
		return core.Result{Out: "bad-op", Pred: "FAIL harness-bad-op " + err.Error()}
	}
	if rr, err := filepath.EvalSymlinks(root); err == nil {
		root = rr
	}
	defer os.RemoveAll(root)
	if err := materialise(root, s); err != nil {
		return core.Result{Out: "bad-op", Pred: "FAIL harness-bad-op " + err.Error()}
	}
	loader.VerifResetReads()
	w := build(root, s)
	w.forked = forked
	outs := make([]outcome, len(s.lookups))
	items := make([]string, len(s.lookups))
	nsLeak := ""
	for i, l := range s.lookups {
		if nsprobe && l.op == "load" {
			for _, ns := range []string{"function", "task", "plan"} {
				o := w.run(c, lookup{op: "load" + ns, name: l.name})
				okKind := o.kind == "notfound" || (o.kind == "reported" && o.code == "PCORE_INVALID_CHARACTERS_IN_NAME")
				if (!okKind || len(o.reads) > 0) && nsLeak == "" {
					nsLeak = fmt.Sprintf("lookup of %s in namespace %s: %s", l.name, ns, o.String())
				}
			}
		}
		outs[i] = w.run(c, l)
		items[i] = outs[i].String()
	}
	total := readsNow(root)
	paths := make([]string, 0, len(total))
	for p := range total {
		paths = append(paths, p)
	}
	sort.Strings(paths)
	out := strings.Join(items, " ; ") + " | reads"
	for _, p := range paths {
		out += fmt.Sprintf(" %s=%d", p, total[p])
	}
	res := judge(s, outs, total, out, strict)
	if nsprobe {
		res.Tags = append(res.Tags, "nsprobe")
		if nsLeak != "" && !strings.HasPrefix(res.Pred, "FAIL") {
			res = core.Fail(out, "namespace-leak", nsLeak)
		}
	}
	if xref {
		res.Tags = append(res.Tags, "xref")
		// DependencyLoader.LoaderFor (what rt.Loader(key) answers): the member that carries the module name, nil otherwise
		if dl, ok := w.dep.(px.DependencyLoader); ok && !strings.HasPrefix(res.Pred, "FAIL") {
			bad := ""
			for _, m := range s.mods {
				if got := dl.LoaderFor(m); got == nil || got != w.mods[m] {
					bad = "LoaderFor(" + m + ") is not the loader of module " + m
				}
			}
			for _, m := range []string{"", "nomod", "Mymod"} {
				if _, isMod := w.mods[m]; !isMod && dl.LoaderFor(m) != nil {
					bad = "LoaderFor(" + m + ") answers a loader although no module has that name"
				}
			}
			if bad != "" {
				res = core.Fail(out, "loaderfor-mismatch", bad)
			}
		}
	}
	if forked {
		// the same oracle; a definition that is lost with the fork that loaded it gets its own class
		for _, c := range []string{"missing-with-file", "case-sensitive", "unstable"} {
			if strings.HasPrefix(res.Pred, "FAIL "+c+" ") {
				res.Pred = "FAIL forked-lost-definition " + res.Pred[len("FAIL "):]
			}
		}
		res.Tags = append(res.Tags, "forked")
	}
	return res
}

