package c15

import (
	"math/rand"
	"strconv"
	"strings"

	"verif/harness/core"
)

// Implementation-only op `xref`: a `tree` op whose definitions REFER to other definitions, so that resolving the definition
// a lookup found makes further lookups — through the context's loader, while the first file is still being instantiated
// (the placeholder fileBasedLoader.instantiate installs is what stops the recursion A → B → A):
//
//	(alias xN (xR …))                     `type N = Variant[String,Integer,R…]`
//	(object xN (xR …))                    `type N = Object[{attributes => {a => Integer, r0 => R, …}}]`
//	(typeset xN (xT …) (xR …) ((xSET xM) …))
//	                                      a type set whose members refer to their predecessor by its SIMPLE name (answered by
//	                                      the typeSetLoader from typeSet.GetType), to every R, and whose `references` name
//	                                      other type sets (typeSetReference.resolve loads SET through the context's loader);
//	                                      M != "": member 0 uses RefI::M (typeSet.GetType through the reference; M may itself
//	                                      run through a reference of SET: Ref0::Tx)
//	(bareobject) (barehash)               `Object[{…}]` / `{attributes => …}` without a name: the definition takes the
//	                                      requested name, and is an Object (the px.OrderedMap arm of InstantiatePuppetType)
//
// Judged by the oracle of judge.go, whose closure (the files a lookup may touch) follows the references: every file is
// read at most once however the references run (cycles, diamonds, self reference), a name is found iff its file exists,
// an error names the defective file — also when that file was reached through a reference.

func (b body) extText() string {
	refs := func(attr bool) string {
		var sb strings.Builder
		for i, r := range b.refs {
			if attr {
				sb.WriteString(", r" + strconv.Itoa(i) + " => " + r)
			} else {
				sb.WriteString("," + r)
			}
		}
		return sb.String()
	}
	switch b.kind {
	case "alias":
		return "# a definition that refers to others\ntype " + b.name + " = Variant[String,Integer" + refs(false) + "]\n"
	case "object":
		return "type " + b.name + " = Object[{\n  attributes => {\n    a => Integer" + refs(true) + "\n  }\n}]\n"
	case "bareobject":
		return "Object[{\n  attributes => {\n    a => Integer\n  }\n}]\n"
	case "barehash":
		return "# a bare hash is the init hash of an Object\n{\n  attributes => {\n    a => Integer\n  }\n}\n"
	case "typeset":
		var sb strings.Builder
		sb.WriteString("type " + b.name + " = TypeSet[{\n  pcore_version => '1.0.0',\n  version => '1.0.0',\n  types => {\n")
		for i, t := range b.types {
			if i > 0 {
				sb.WriteString(",\n")
			}
			var uses []string // what member i refers to besides b.refs: its predecessor, and (member 0) the referenced sets
			if i > 0 {
				uses = append(uses, b.types[i-1])
			}
			if i == 0 {
				for j, r := range b.tsrefs {
					if r.member != "" {
						uses = append(uses, "Ref"+strconv.Itoa(j)+"::"+r.member)
					}
				}
			}
			if i%2 == 0 {
				sb.WriteString("    " + t + " => Variant[String,Integer")
				for _, u := range uses {
					sb.WriteString("," + u)
				}
				sb.WriteString(refs(false) + "]")
			} else {
				sb.WriteString("    " + t + " => Object[{attributes => {a => Integer")
				for k, u := range uses {
					sb.WriteString(", u" + strconv.Itoa(k) + " => " + u)
				}
				sb.WriteString(refs(true) + "}}]")
			}
		}
		sb.WriteString("\n  }")
		if len(b.tsrefs) > 0 {
			sb.WriteString(",\n  references => {\n")
			for j, r := range b.tsrefs {
				if j > 0 {
					sb.WriteString(",\n")
				}
				rng := "1.x"
				if r.major == 2 {
					rng = "2.x"
				}
				sb.WriteString("    Ref" + strconv.Itoa(j) + " => { name => '" + r.set + "', version_range => '" + rng + "' }")
			}
			sb.WriteString("\n  }")
		}
		sb.WriteString("\n}]\n")
		return sb.String()
	}
	return ""
}

// xrefMismatch: generate `references` that ask for version 2.x of a type set (every generated set has 1.0.0).  Found by this
// stream: the message template of PCORE_TYPESET_REFERENCE_MISMATCH in px/issues.go was unterminated (`got %{version`),
// formatting that error panicked with a plain string (class error-unprintable) — repaired by /repo d2664c5, fixed finding
// C15-typeset-reference-mismatch-template.
const xrefMismatch = true

func xAlias(n string, refs ...string) body {
	return body{kind: "alias", name: n, ext: true, refs: refs}
}
func xObject(n string, refs ...string) body {
	return body{kind: "object", name: n, ext: true, refs: refs}
}
func xSet(n string, types, refs []string, ts ...tsref) body {
	return body{kind: "typeset", name: n, ext: true, types: types, refs: refs, tsrefs: ts}
}

// the pool of the small universe.  Alternatives for one path (b.pp good / malformed, other.pp a type set / an alias) never
// meet in one tree (wellFormed refuses a repeated path: such subsets are skipped).
var xrefPool = []file{
	{segs: []string{"env", "types", "a.pp"}, body: xAlias("A", "B")},
	{segs: []string{"env", "types", "b.pp"}, body: xAlias("B", "A")},
	{segs: []string{"env", "types", "b.pp"}, body: body{kind: "malformed", line: 2}},
	{segs: []string{"env", "types", "c.pp"}, body: xObject("C", "A", "Nope")},
	{segs: []string{"env", "types", "d.pp"}, body: body{kind: "bareobject", ext: true}},
	{segs: []string{"env", "types", "e.pp"}, body: body{kind: "barehash", ext: true}},
	{segs: []string{"env", "types", "set.pp"}, body: xSet("Set", []string{"Ta", "Tb", "Tc"}, []string{"C"}, tsref{set: "Other", member: "Tx"})},
	{segs: []string{"env", "types", "other.pp"}, body: xSet("Other", []string{"Tx", "Ty"}, nil)},
	{segs: []string{"env", "types", "other.pp"}, body: xAlias("Other")},
	{segs: []string{"env", "types", "ns", "deep.pp"}, body: xObject("Ns::Deep", "Set::Tb", "D")},
	{segs: []string{"env", "types", "vers.pp"}, body: xSet("Vers", []string{"Ta"}, nil, tsref{set: "Other", major: 2})},
	{segs: []string{"env", "types", "twice.pp"}, body: xSet("Twice", []string{"Ta", "Tb"}, nil, tsref{set: "Other", member: "Tx"}, tsref{set: "Other"})},
	{segs: []string{"env", "types", "both.pp"}, body: xSet("Both", []string{"Ta"}, nil, tsref{set: "Other", member: "Ty"}, tsref{set: "Other", major: 2})},
	// names that COLLIDE with what a type set resolves internally: a file for Ref0::Tx (inside Set the alias Ref0 is the
	// reference to Other: typeSet.GetType answers, the file is not consulted) and a global Ta (inside a set its member Ta)
	{segs: []string{"env", "types", "ref0", "tx.pp"}, body: xAlias("Ref0::Tx")},
	{segs: []string{"env", "types", "ta.pp"}, body: xObject("Ta")},
	{segs: []string{"env", "types", "self.pp"}, body: xAlias("Self", "Self", "E")},
	{segs: []string{"modules", "mymod", "types", "thing.pp"}, body: xAlias("Mymod::Thing", "A", "Mymod::Sub::X")},
	{segs: []string{"modules", "mymod", "types", "sub", "x.pp"}, body: xObject("Mymod::Sub::X", "Mymod::Thing", "Mymod::Tb")},
	{segs: []string{"modules", "mymod", "types", "init_typeset.pp"}, body: xSet("Mymod", []string{"Ta", "Tb"}, []string{"B"}, tsref{set: "Set", member: "Ref0::Tx"}, tsref{set: "Other", member: "Ty"})},
}

var xrefNames = []string{"A", "B", "C", "D", "E", "Set", "Set::Ta", "Set::Tb", "SET::TC", "Set::Ref0", "Set::Ref0::Tx", "Other", "Other::Tx",
	"other::ty", "Ns::Deep", "Self", "Mymod::Thing", "Mymod::Sub::X", "Mymod", "Mymod::Tb", "MYMOD::ta", "Mymod::Ref1::Ty", "Nope", "a", "d", "E", "Vers", "Vers::Ta", "Twice", "Twice::Tb", "Both", "Both::Ta", "Other", "Ref0::Tx", "Ta"}

var xrefVias = []string{"g", "d", "m:mymod"}

func samePath(a, b file) bool { return strings.Join(a.segs, "/") == strings.Join(b.segs, "/") }

func genXref(g *core.G) {
	emit := func(s spec) { g.Emit("@xref" + strings.TrimPrefix(s.String(), "tree")) }
	var ls, rev []lookup
	for _, n := range xrefNames {
		ls = append(ls, lookup{op: "load", name: n})
		rev = append([]lookup{{op: "load", name: n}}, rev...)
	}
	mods := []string{"mymod", "other"}
	for _, via := range xrefVias {
		for _, lk := range [][]lookup{ls, rev} {
			// the whole pool, in its four consistent variants
			for _, skip := range [][2]int{{2, 8}, {1, 8}, {2, 7}, {1, 7}} {
				var fs []file
				for i, f := range xrefPool {
					if i != skip[0] && i != skip[1] && (xrefMismatch || f.body.name != "Vers") {
						fs = append(fs, f)
					}
				}
				emit(spec{mods: mods, files: fs, via: via, lookups: lk})
			}
			// every tree of at most two files
			for i := range xrefPool {
				if !xrefMismatch && xrefPool[i].body.name == "Vers" {
					continue
				}
				emit(spec{mods: mods, files: []file{xrefPool[i]}, via: via, lookups: lk})
				for j := i + 1; j < len(xrefPool); j++ {
					if !samePath(xrefPool[i], xrefPool[j]) && (xrefMismatch || xrefPool[j].body.name != "Vers") {
						emit(spec{mods: mods, files: []file{xrefPool[i], xrefPool[j]}, via: via, lookups: lk})
					}
				}
			}
		}
	}
	n := 120
	if g.Thorough() {
		n = 2000
	}
	for i := 0; i < n; i++ {
		emit(randXref(g.Rng))
	}
}

// randXref: a random reference graph over k names — global names and names of module mymod, plain and nested — each with a
// file (alias / object / type set / bare / now and then defective or missing), references drawn at random (cycles, self
// references, references to members of type sets, to names without a file), lookups over all names and members
func randXref(r *rand.Rand) spec {
	s := spec{mods: []string{"mymod", "other"}, via: xrefVias[r.Intn(len(xrefVias))]}
	type node struct {
		name    string
		segs    []string
		members []string
		set     bool
	}
	globalNames := []string{"A", "B", "C", "Ns::D", "Ns::E", "Ns::Sub::F"}
	modNames := []string{"Mymod::G", "Mymod::H", "Mymod::Sub::I"}
	var nodes []node
	pathOf := func(n string) []string {
		parts := lowerSegs(strings.Split(n, "::"))
		if parts[0] == "mymod" {
			if len(parts) == 1 {
				return []string{"modules", "mymod", "types", "init_typeset.pp"}
			}
			parts[len(parts)-1] += ".pp"
			return append([]string{"modules", "mymod", "types"}, parts[1:]...)
		}
		parts[len(parts)-1] += ".pp"
		return append([]string{"env", "types"}, parts...)
	}
	for _, n := range append(append([]string{}, globalNames...), modNames...) {
		if r.Intn(3) != 0 {
			nodes = append(nodes, node{name: n, segs: pathOf(n)})
		}
	}
	if r.Intn(3) == 0 {
		nodes = append(nodes, node{name: "Mymod", segs: pathOf("Mymod"), set: true})
	}
	for i := range nodes {
		if nodes[i].set || r.Intn(4) == 0 {
			nodes[i].set = true
			k := 1 + r.Intn(3)
			nodes[i].members = append([]string{}, memberPool[:k]...)
		}
	}
	// what a definition may refer to: any node, a member of a type-set node, a name nobody defines
	target := func() string {
		if len(nodes) == 0 || r.Intn(8) == 0 {
			return []string{"Nope", "Ns::Nope", "Mymod::Nope"}[r.Intn(3)]
		}
		t := nodes[r.Intn(len(nodes))]
		if t.set && r.Intn(2) == 0 {
			return t.name + "::" + t.members[r.Intn(len(t.members))]
		}
		return t.name
	}
	var names []string
	for i, nd := range nodes {
		var refs []string
		for k := r.Intn(3); k > 0; k-- {
			refs = append(refs, target())
		}
		var b body
		switch k := r.Intn(20); {
		case nd.set:
			var ts []tsref
			// referenced type sets come from EARLIER nodes only (a cycle of `references` cannot be resolved by design)
			for j := 0; j < i; j++ {
				if nodes[j].set && r.Intn(2) == 0 {
					m := ""
					if r.Intn(2) == 0 {
						m = nodes[j].members[r.Intn(len(nodes[j].members))]
					}
					t := tsref{set: nodes[j].name, member: m}
					if r.Intn(12) == 0 && xrefMismatch {
						t.major = 2 // MISMATCH
					}
					ts = append(ts, t)
					if r.Intn(12) == 0 {
						ts = append(ts, tsref{set: nodes[j].name, major: 2 * r.Intn(2)}) // the same set twice: OVERLAP unless the ranges differ
					}
				}
			}
			if len(ts) == 0 && i > 0 && r.Intn(6) == 0 {
				ts = append(ts, tsref{set: nodes[r.Intn(i)].name}) // possibly no type set: BAD_TYPE
			}
			if r.Intn(10) == 0 {
				ts = append(ts, tsref{set: "Nope"}) // UNRESOLVED
			}
			b = xSet(nd.name, nd.members, refs, ts...)
		case k == 0:
			b = body{kind: "malformed", line: 1 + r.Intn(4)}
		case k == 1:
			b = xAlias(nd.name+"x", refs...) // misnamed
		case k == 2:
			b = body{kind: "bareobject", ext: true}
		case k == 3:
			b = body{kind: "barehash", ext: true}
		case k == 4:
			b = body{kind: "bare"}
		case k < 12:
			b = xObject(nd.name, refs...)
		default:
			b = xAlias(nd.name, refs...)
		}
		s.files = append(s.files, file{segs: nd.segs, body: b})
		names = append(names, nd.name)
		for j, m := range nd.members {
			names = append(names, nd.name+"::"+m)
			if j == 0 {
				names = append(names, nd.name+"::Ref0", nd.name+"::Nope")
			}
		}
	}
	// files whose names collide with what a type set resolves internally (reference alias Ref0::M, sibling member M)
	added := map[string]bool{}
	for _, f := range append([]file{}, s.files...) {
		if f.body.kind != "typeset" {
			continue
		}
		if len(f.body.tsrefs) > 0 && f.body.tsrefs[0].member != "" && r.Intn(3) == 0 {
			m := f.body.tsrefs[0].member
			if p := "ref0/" + strings.ToLower(m); !added[p] {
				added[p] = true
				s.files = append(s.files, file{segs: []string{"env", "types", "ref0", strings.ToLower(m) + ".pp"}, body: xAlias("Ref0::" + m)})
				names = append(names, "Ref0::"+m)
			}
		}
		if r.Intn(4) == 0 {
			m := f.body.types[0]
			if p := strings.ToLower(m); !added[p] {
				added[p] = true
				s.files = append(s.files, file{segs: []string{"env", "types", strings.ToLower(m) + ".pp"}, body: xObject(m)})
				names = append(names, m)
			}
		}
	}
	names = append(names, "Nope", "Mymod::Nope", "Integer")
	for i := 0; i < 24; i++ {
		n := names[r.Intn(len(names))]
		if r.Intn(4) == 0 {
			n = caseVariant(r, n)
		}
		s.lookups = append(s.lookups, lookup{op: "load", name: n})
	}
	return s
}
