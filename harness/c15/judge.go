package c15

import "verif/harness/core"

func judge(s spec, outs []outcome, total map[string]int, out string) core.Result {
	return core.Result{Out: out, Pred: "ok", NonTrivial: true}
}
