package c15

import (
	"fmt"
	"regexp"
	"sort"
	"strings"

	"verif/harness/core"
)

// The property's predicate evaluated directly on the implementation's observations.  The oracle below is written from
// the property text (derived paths, case folding, type sets), not from the model:
//
//   * the *derived path* of a name under the global loader is env/types/<lower-cased segments>.pp; under module M it is
//     modules/M/types/<lower-cased segments after M>.pp for a name M::…, and modules/M/types/init_typeset.pp for the
//     name M itself; a file matches when its lower-cased path equals the derived path (file-name case is irrelevant);
//   * a name is also *provided* by a type set: a file that sits at the derived path of TS, defines the type set TS and
//     lists T provides TS::T;
//   * the loaders that can see a name: the global loader always; module M when the context's loader is M's loader or the
//     dependency loader, and the name starts with M.
//
// classes: missing-with-definition (a definition made between lookups), has-without-file, has-misses-file, discover-mismatch (HasEntry / Discover of a file loader against the derived paths), found-without-file, missing-with-file, case-sensitive, wrong-name, parsed-twice, absent-side-effect,
// error-not-located, error-unprintable, definition-not-from-file, unstable, fault; misnamed-no-line and duplicate-redefine (known findings) are
// failures of the `strict` op only.

type cand struct {
	f      *file
	path   string // relative path, as on disk
	loader string // "g" or module name
}

type oracle struct {
	s     spec
	paths map[*file]string
}

func lowerSegs(n []string) []string {
	out := make([]string, len(n))
	for i, s := range n {
		out[i] = strings.ToLower(s)
	}
	return out
}

func (o *oracle) isModule(m string) bool {
	for _, x := range o.s.mods {
		if x == m {
			return true
		}
	}
	return false
}

func moduleRelative(m string) bool { return !(m == "" || m == "environment") }

// visible file loaders for a name (lower-cased segments), in the order they are asked: "g" first wherever it is a parent
// (or the first member), then the module loaders that can answer.  A module loader answers names that start with its
// module name; a module called `environment` is not module-relative (isGlobal): it serves unqualified names as well, and
// qualified ones only when they start with `environment`.
func (o *oracle) loadersFor(key []string) []string {
	if len(key) == 0 {
		return []string{"g"}
	}
	modCan := func(m string) bool { return key[0] == m || (m == "environment" && len(key) == 1) }
	var ls []string
	switch {
	case o.s.via == "g":
		ls = []string{"g"}
	case strings.HasPrefix(o.s.via, "m:"):
		ls = []string{"g"}
		if m := o.s.via[2:]; modCan(m) {
			ls = append(ls, m)
		}
	case strings.HasPrefix(o.s.via, "f:"):
		// a top-level module loader: nobody above it but the system loader
		if m := o.s.via[2:]; modCan(m) {
			ls = append(ls, m)
		}
	default:
		// the dependency loader.  A qualified name that starts with a module name is routed to that module ONLY (in the
		// flat topology `e` the global loader is a sibling, not a parent, and is not asked at all); every other name is
		// offered to the members in order — the global loader first — of which only the module the name is the name of
		// (its init_typeset) and a module called `environment` can answer an unqualified name, and none a qualified one
		if len(key) >= 2 {
			if o.isModule(key[0]) {
				if o.s.via == "e" {
					return []string{key[0]}
				}
				return []string{"g", key[0]}
			}
			return []string{"g"}
		}
		ls = []string{"g"}
		for _, m := range o.s.mods {
			if modCan(m) {
				ls = append(ls, m)
			}
		}
	}
	return ls
}

// defVisible: is a definition held by file loader `ld` ("g" or a module name) on the route of the key?  The loaders that
// are asked for the key, plus the context's own module loader (its cache is consulted before any routing)
func (o *oracle) defVisible(ld string, key []string) bool {
	for _, l := range o.loadersFor(key) {
		if l == ld {
			return true
		}
	}
	if (strings.HasPrefix(o.s.via, "m:") || strings.HasPrefix(o.s.via, "f:")) && o.s.via[2:] == ld {
		return true
	}
	return false
}

// loaderOf: which file loader indexes the path ("" = none: not below a types directory, or another extension)
func loaderOf(path string) string {
	segs := strings.Split(path, "/")
	if !strings.HasSuffix(path, ".pp") {
		return ""
	}
	switch {
	case len(segs) >= 3 && segs[0] == "env" && segs[1] == "types":
		return "g"
	case len(segs) >= 4 && segs[0] == "modules" && segs[2] == "types":
		return segs[1]
	}
	return ""
}

// candidates of a key: the files whose path implies it, parent loader first, in walk order per loader.  (The derived
// path of the property read backwards: path → lower-cased name; the top-level files `init.pp` and `init_typeset.pp` of a
// module — spelled exactly so — are reserved: the latter stands for the module's own name.)
func (o *oracle) candidates(key []string) []cand {
	var out []cand
	for _, ld := range o.loadersFor(key) {
		var cs []cand
		for i := range o.s.files {
			f := &o.s.files[i]
			p := o.paths[f]
			if loaderOf(p) == ld && keyEq(o.impliedKey(p), key) {
				cs = append(cs, cand{f, p, ld})
			}
		}
		sort.Slice(cs, func(i, j int) bool { return segLess(cs[i].f.segs, cs[j].f.segs) })
		out = append(out, cs...)
	}
	return out
}

// kindFor: the kind letter of the definition this candidate holds for the key (own name, or a member of its type set)
func (c cand) kindFor(key []string) string {
	b := c.f.body
	if b.kind == "typeset" && !b.defines(key) {
		for i, t := range b.types {
			if len(key) > 0 && strings.ToLower(t) == key[len(key)-1] {
				if i%2 == 0 {
					return "a"
				}
				return "o"
			}
		}
	}
	switch b.kind {
	case "object", "bareobject", "barehash":
		return "o"
	case "typeset":
		return "s"
	}
	return "a"
}

func segLess(a, b []string) bool {
	for i := 0; i < len(a) && i < len(b); i++ {
		if a[i] != b[i] {
			return a[i] < b[i]
		}
	}
	return len(a) < len(b)
}

func keyEq(a, b []string) bool { return strings.Join(a, "::") == strings.Join(b, "::") }

// good: the body defines (or takes) the name with this key
func (b body) defines(key []string) bool {
	switch b.kind {
	case "alias", "object", "typeset":
		return keyEq(lowerSegs(strings.Split(b.name, "::")), key)
	case "bare", "bareobject", "barehash":
		return true
	}
	return false
}

// providers of a key through type sets: the *effective* candidate (parent loader first, then walk order; defective files
// aside) of the prefix TS,
// when it defines the type set TS and lists the last segment
func (o *oracle) providers(key []string) []cand {
	if len(key) < 2 {
		return nil
	}
	ts := key[:len(key)-1]
	last := key[len(key)-1]
	// a defective candidate (reported once, then skipped through its placeholder) does not shadow the next one
	var cs []cand
	for _, c := range o.prefixCandidates(key) {
		if code, _ := o.defect(c.f, c.path); code == "" {
			cs = append(cs, c)
		}
	}
	if len(cs) == 0 {
		return nil
	}
	c := cs[0]
	if c.f.body.kind == "typeset" && c.f.body.defines(ts) {
		for _, t := range c.f.body.types {
			if strings.ToLower(t) == last {
				return []cand{c}
			}
		}
	}
	return nil
}

// shadowedProvider: some candidate of the prefix (not only the effective one) is a type set that lists the last segment
func (o *oracle) shadowedProvider(key []string) bool {
	ts := key[:len(key)-1]
	last := key[len(key)-1]
	for _, c := range o.prefixCandidates(key) {
		if c.f.body.kind == "typeset" && c.f.body.defines(ts) {
			for _, t := range c.f.body.types {
				if strings.ToLower(t) == last {
					return true
				}
			}
		}
	}
	return false
}

// routeSplit: some prefix of the name is the derived name of a type-set file that lists the next segment, in a loader
// that answers the PREFIX but is not on the route of the full name.  (Flat topology: a name M::…::T that starts with a
// module name is routed to module M only, the type set sits below the sibling global loader.  A module called
// `environment`: it serves the unqualified name TS but no qualified name TS::T.)  Whether the member is visible then
// depends on whether that type set has been loaded before.
func (o *oracle) routeSplit(key []string) bool {
	if len(key) < 2 {
		return false
	}
	vis := map[string]bool{}
	for _, l := range o.loadersFor(key) {
		vis[l] = true
	}
	for n := 1; n < len(key); n++ {
		for _, c := range o.candidates(key[:n]) {
			if vis[c.loader] || c.f.body.kind != "typeset" {
				continue
			}
			for _, t := range c.f.body.types {
				if strings.ToLower(t) == key[n] {
					return true
				}
			}
		}
		if o.s.via == "e" && o.isModule(key[0]) {
			// any type-set file of the sibling global loader at a prefix (it may have been loaded as a member of another set)
			for i := range o.s.files {
				f := &o.s.files[i]
				p := o.paths[f]
				if loaderOf(p) == "g" && keyEq(o.impliedKey(p), key[:n]) && f.body.kind == "typeset" {
					for _, t := range f.body.types {
						if strings.ToLower(t) == key[n] {
							return true
						}
					}
				}
			}
		}
	}
	return false
}

// prefixCandidates: the candidates of the prefix TS of the key TS::T that a lookup of TS::T can reach — the type set is
// searched by the loaders the FULL name is routed to (in the flat topology a name that starts with a module name never
// reaches the global loader, although the module's own name does)
func (o *oracle) prefixCandidates(key []string) []cand {
	vis := map[string]bool{}
	for _, l := range o.loadersFor(key) {
		vis[l] = true
	}
	var cs []cand
	for _, c := range o.candidates(key[:len(key)-1]) {
		if vis[c.loader] {
			cs = append(cs, c)
		}
	}
	return cs
}

// ambiguous: the key has two definition sources that do not shadow each other cleanly — files of two different loaders,
// or a file and a member of some type set (of any candidate of the prefix)
func (o *oracle) ambiguous(key []string) bool {
	lds := map[string]bool{}
	for _, c := range o.candidates(key) {
		lds[c.loader] = true
	}
	n := len(lds)
	if len(key) >= 2 {
		ts := key[:len(key)-1]
		last := key[len(key)-1]
		for _, c := range o.prefixCandidates(key) {
			if c.f.body.kind == "typeset" && c.f.body.defines(ts) {
				for _, t := range c.f.body.types {
					if strings.ToLower(t) == last {
						n++
					}
				}
			}
		}
	}
	return n >= 2
}

// closure: every file the search for `key` may legitimately touch: own candidates, the candidates of every ancestor
// (parent type-set search), and — for every type set among them — the files on the routes of its members
func (o *oracle) closure(key []string) (map[string]*file, [][]string) {
	files := map[string]*file{}
	seen := map[string]bool{}
	var keys [][]string
	var visit func(k []string)
	visit = func(k []string) {
		id := strings.Join(k, "::")
		if len(k) == 0 || seen[id] {
			return
		}
		seen[id] = true
		keys = append(keys, k)
		for _, c := range o.candidates(k) {
			files[c.path] = c.f
			if c.f.body.kind == "typeset" {
				base := lowerSegs(strings.Split(c.f.body.name, "::"))
				for _, t := range c.f.body.types {
					visit(append(append([]string{}, base...), strings.ToLower(t)))
				}
			}
			// op xref: the definitions this one refers to are loaded (through the context's loader) when it is resolved
			for _, r := range c.f.body.refs {
				visit(lowerSegs(strings.Split(r, "::")))
			}
			for _, r := range c.f.body.tsrefs {
				rk := lowerSegs(strings.Split(r.set, "::"))
				visit(rk)
				if r.member != "" {
					visit(append(append([]string{}, rk...), strings.ToLower(r.member)))
				}
			}
		}
		visit(k[:len(k)-1])
	}
	visit(key)
	return files, keys
}

// danglingTsref: does a type-set file among `files` refer (references => …) to a name that cannot be had — no loadable
// file answers it, or its definition leads back to the referring file (UNRESOLVED)?  badType: … to a name whose loadable
// file defines something that is no type set (BAD_TYPE; the two codes are not interchangeable)
func (o *oracle) danglingTsref(files map[string]*file, badType bool) bool {
	for _, f := range files {
		for _, r := range f.body.tsrefs {
			rk := lowerSegs(strings.Split(r.set, "::"))
			var eff *cand
			for _, c := range o.candidates(rk) {
				if code, _ := o.defect(c.f, c.path); code == "" {
					c := c
					eff = &c
					break
				}
			}
			if badType {
				if eff != nil && eff.f.body.kind != "typeset" {
					return true
				}
				if eff == nil && len(o.providers(rk)) > 0 {
					return true // a member of another type set
				}
			} else if eff == nil {
				return true // UNRESOLVED: nothing loadable answers the name (a good file that defines no type set is BAD_TYPE)
			} else if cl, _ := o.closure(rk); cl[o.paths[f]] != nil {
				return true // the referenced definition leads back to the referring one: it cannot be had while that one is loaded
			}
		}
	}
	return false
}

// defect of a file with respect to the name its path implies: the issue code a load of it must report ("" = none)
func (o *oracle) defect(f *file, path string) (code string, line int) {
	switch f.body.kind {
	case "malformed", "literal":
		return "PARSE_ERROR", f.body.line
	case "empty":
		return "PCORE_NO_DEFINITION", 0
	case "unreadable":
		return "PCORE_UNABLE_TO_READ_FILE", 0
	case "alias", "object", "typeset":
		if !f.body.defines(o.impliedKey(path)) {
			return "PCORE_WRONG_DEFINITION", 0
		}
	}
	return "", 0
}

// the key a path implies (which name addresses it); nil when no name does
func (o *oracle) impliedKey(path string) []string {
	ld := loaderOf(path)
	if ld == "" {
		return nil
	}
	raw := strings.Split(strings.TrimSuffix(path, ".pp"), "/")
	segs := lowerSegs(raw)
	if ld == "g" {
		return segs[2:]
	}
	rest := segs[3:]
	if !moduleRelative(ld) {
		return rest
	}
	if len(rest) == 1 {
		switch raw[3] {
		case "init_typeset":
			return []string{ld}
		case "init":
			return nil
		}
	}
	return append([]string{ld}, rest...)
}

// indexKey: the key under which the loader that owns the path indexes it (what HasEntry / Discover consult): like
// impliedKey, except that the reserved top-level files of a module keep their bare names `init` / `init_typeset`
func (o *oracle) indexKey(path string) []string {
	ld := loaderOf(path)
	if ld == "" {
		return nil
	}
	segs := lowerSegs(strings.Split(strings.TrimSuffix(path, ".pp"), "/"))
	if ld == "g" {
		return segs[2:]
	}
	rest := segs[3:]
	if !moduleRelative(ld) {
		return rest
	}
	raw := strings.Split(strings.TrimSuffix(path, ".pp"), "/")
	if len(rest) == 1 && (raw[3] == "init" || raw[3] == "init_typeset") {
		return rest
	}
	return append([]string{ld}, rest...)
}

// hasExpected: what HasEntry of a FILE loader must answer for the key — a core type, or a file whose derived name is the
// key below the loader or below its parent (the loader chain of the context's loader; no routing, no cache)
func (o *oracle) hasExpected(key []string) (want bool, decided bool) {
	var chain []string
	switch {
	case o.s.via == "g":
		chain = []string{"g"}
	case strings.HasPrefix(o.s.via, "m:"):
		chain = []string{"g", o.s.via[2:]}
	case strings.HasPrefix(o.s.via, "f:"):
		chain = []string{o.s.via[2:]}
	default:
		return false, false // the dependency loader answers from its cache only
	}
	if len(key) == 1 && staticNames[key[0]] {
		return true, true
	}
	for i := range o.s.files {
		p := o.paths[&o.s.files[i]]
		for _, ld := range chain {
			if loaderOf(p) == ld && keyEq(o.indexKey(p), key) {
				return true, true
			}
		}
	}
	return false, true
}

// discoverExpected: what Discover of a FILE loader must list (with the predicate "a type the static loader does not
// know"): the derived names of all definition files below the loader and its parent, sorted, without repetition
func (o *oracle) discoverExpected() (want []string, decided bool) {
	var chain []string
	switch {
	case o.s.via == "g":
		chain = []string{"g"}
	case strings.HasPrefix(o.s.via, "m:"):
		chain = []string{"g", o.s.via[2:]}
	case strings.HasPrefix(o.s.via, "f:"):
		chain = []string{o.s.via[2:]}
	default:
		return nil, false // the dependency loader lists its cache only
	}
	seen := map[string]bool{}
	for i := range o.s.files {
		p := o.paths[&o.s.files[i]]
		for _, ld := range chain {
			if loaderOf(p) == ld {
				if k := o.indexKey(p); k != nil && !(len(k) == 1 && staticNames[k[0]]) {
					seen[strings.Join(k, "::")] = true
				}
			}
		}
	}
	for k := range seen {
		want = append(want, k)
	}
	sort.Strings(want)
	return want, true
}

var validPartRx = regexp.MustCompile(`\A[A-Za-z][0-9A-Za-z_]*\z`)

var staticNames = map[string]bool{"integer": true, "string": true, "variant": true}

func validParts(key []string) bool {
	for _, p := range key {
		if !validPartRx.MatchString(p) {
			return false
		}
	}
	return true
}

func judge(s spec, outs []outcome, total map[string]int, out string, strict bool) core.Result {
	o := &oracle{s: s, paths: map[*file]string{}}
	for i := range s.files {
		o.paths[&s.files[i]] = strings.Join(s.files[i].segs, "/")
	}
	tags := map[string]bool{"via-" + s.via[:1]: true}
	for _, f := range s.files {
		tags["body-"+f.body.kind] = true
	}
	nt := false
	fail := func(class, detail string) core.Result {
		r := core.Fail(out, class, detail)
		r.Tags = tagList(tags)
		return r
	}
	// The first failure of an op is reported — except that the two known shapes (`misnamed-no-line`, `duplicate-redefine`)
	// never hide another failure of the same op, and are failures only for the `strict` op (implementation only): in a
	// `tree` op they are tags, so that a known finding cannot mask a correspondence difference or a new violation.
	var failure, knownFailure *core.Result
	note := func(class, detail string) {
		if class == "misnamed-no-line" || class == "duplicate-redefine" {
			tags["known-"+class] = true
			if strict && knownFailure == nil {
				r := fail(class, detail)
				knownFailure = &r
			}
			return
		}
		if failure == nil {
			r := fail(class, detail)
			failure = &r
		}
	}
	readSoFar := map[string]bool{}
	for p, n := range total {
		if n > 1 {
			note("parsed-twice", fmt.Sprintf("%s was read %d times", p, n))
		}
	}
	reportedOnce := map[string]bool{}  // files an error has been reported for
	anyReported := false               // some defect has surfaced in this op
	answers := map[string]string{}     // key → first found/notfound answer
	defNow := map[string][]string{}    // key → loaders ("g" or a module name) a definition has been made in SO FAR
	for i, l := range s.lookups {
		oc := outs[i]
		if l.op == "def" {
			// a definition made between lookups through another loader's DefiningLoader (no file): from now on the name
			// must be found wherever that loader is on its route — 'found iff a file / definition exists NOW'
			tags["def"] = true
			id := strings.Join(lowerSegs(splitName(l.name)), "::")
			switch oc.kind {
			case "defined":
				in := l.in
				if strings.HasPrefix(in, "m:") {
					in = in[2:]
				}
				defNow[id] = append(defNow[id], in)
				delete(answers, id)
			case "reported":
				tags["def-"+oc.code] = true
			default:
				note("fault", "definition of "+l.name+" ended in "+oc.kind)
			}
			continue
		}
		if l.op == "has" {
			// HasEntry of a file loader: true exactly when a file sits where the loader's kind of path derives the name
			tags["has"] = true
			if want, ok := o.hasExpected(lowerSegs(splitName(l.name))); ok && want != oc.has {
				if oc.has {
					note("has-without-file", fmt.Sprintf("HasEntry(%s) is true although no file sits at its derived path", l.name))
				} else {
					note("has-misses-file", fmt.Sprintf("HasEntry(%s) is false although a file sits at its derived path", l.name))
				}
			}
			continue
		}
		if l.op == "discover" {
			tags["discover"] = true
			if want, ok := o.discoverExpected(); ok && strings.Join(want, ",") != strings.Join(oc.names, ",") {
				note("discover-mismatch", fmt.Sprintf("Discover lists [%s], the definition files derive [%s]", strings.Join(oc.names, ","), strings.Join(want, ",")))
			}
			continue
		}
		if l.op != "load" {
			tags[l.op] = true
			continue
		}
		key := lowerSegs(splitName(l.name))
		id := strings.Join(key, "::")
		tags[oc.kind] = true
		if oc.kind == "reported" {
			tags["code-"+oc.code] = true
		}
		if len(oc.reads) > 0 && (oc.kind == "found" || oc.kind == "reported") {
			nt = true
		}
		for _, r := range oc.reads {
			readSoFar[r] = true
		}
		if oc.kind == "fault" {
			note("fault", "lookup of "+l.name+" ended in a runtime fault")
			continue
		}
		if oc.kind == "unprintable" {
			note("error-unprintable", fmt.Sprintf("lookup of %s raised %s, an error whose message cannot be formatted (Error() panics)", l.name, oc.code))
			continue
		}
		if len(key) == 1 && staticNames[key[0]] {
			continue
		}
		if o.routeSplit(key) {
			// flat topology only (an arrangement of the harness, not one pcore sets up): the name is routed to the module it
			// starts with while a type set of the sibling global loader lists it — whether the member is visible depends on
			// whether that type set has been loaded; the property demands neither answer
			tags["route-split"] = true
			continue
		}
		if defs := defNow[id]; len(defs) > 0 {
			tags["def-lookup"] = true
			if len(o.candidates(key)) > 0 || len(o.providers(key)) > 0 {
				// a definition AND a file for one name: two sources (cf. C15-duplicate-redefine); neither answer is demanded
				tags["def-overlap"] = true
				continue
			}
			visible := false
			for _, d := range defs {
				visible = visible || o.defVisible(d, key)
			}
			switch oc.kind {
			case "found":
				if !keyEq(lowerSegs(strings.Split(oc.name, "::")), key) {
					note("wrong-name", fmt.Sprintf("%s loaded a definition named %s", l.name, oc.name))
				} else if oc.tkind != "a" {
					note("definition-not-from-file", fmt.Sprintf("%s answered with kind %s, the definition made is an alias", l.name, oc.tkind))
				}
			case "notfound":
				if visible && validParts(key) && !anyReported {
					note("missing-with-definition", fmt.Sprintf("%s not found although it has been defined in a loader on its route (%s)", l.name, strings.Join(defs, ",")))
				}
			case "reported":
				anyReported = true
				located := false
				if oc.code != "PCORE_INVALID_CHARACTERS_IN_NAME" {
					// the name itself has no file, but an ANCESTOR may: a loader asked before the one that holds the definition
					// (the parent loader of a module loader) finds nothing for the name and searches its parents — a defective
					// file of an ancestor surfaces as the error of this lookup (cf. C15_ancestor_error), located as usual
					clos, _ := o.closure(key)
					if f, ok := clos[oc.file]; ok {
						if code, line := o.defect(f, oc.file); code == oc.code && (code != "PARSE_ERROR" || line == oc.line) {
							located = true
							tags["def-ancestor-error"] = true
							reportedOnce[oc.file] = true
							if code == "PCORE_WRONG_DEFINITION" && oc.line == 0 {
								note("misnamed-no-line", fmt.Sprintf("%s: the misnamed file %s is reported without a line", l.name, oc.file))
							}
						}
					}
				}
				if !located && (oc.code != "PCORE_INVALID_CHARACTERS_IN_NAME" || validParts(key)) {
					note("error-not-located", fmt.Sprintf("%s: %s for a name that has a definition and no file", l.name, oc.code))
				}
			}
			if len(oc.reads) > 0 {
				clos, _ := o.closure(key)
				for _, r := range oc.reads {
					if _, ok := clos[r]; !ok {
						note("absent-side-effect", fmt.Sprintf("lookup of the defined name %s read the unrelated file %s", l.name, r))
					}
				}
			}
			continue
		}
		cands := o.candidates(key)
		provs := o.providers(key)
		clos, closKeys := o.closure(key)
		var good []cand
		for _, c := range cands {
			if c.f.body.defines(key) {
				good = append(good, c)
			}
		}
		good = append(good, provs...)
		dupAcross := false
		for _, c := range cands {
			if c.loader != cands[0].loader {
				dupAcross = true
			}
		}
		// reads must stay on the search route of the name
		for _, r := range oc.reads {
			if _, ok := clos[r]; !ok {
				if len(cands) == 0 && len(provs) == 0 {
					note("absent-side-effect", fmt.Sprintf("lookup of absent %s read %s", l.name, r))
				} else {
					note("absent-side-effect", fmt.Sprintf("lookup of %s read the unrelated file %s", l.name, r))
				}
			}
		}
		switch oc.kind {
		case "found":
			if len(good) == 0 && len(key) >= 2 && o.ambiguous(key[:len(key)-1]) && o.shadowedProvider(key) {
				// the enclosing name has two definitions (known finding C15-duplicate-redefine): the type set that lost
				// against the parent's file has already defined its members when the redefinition is detected
				note("duplicate-redefine", fmt.Sprintf("%s is a member of a type set whose name is also defined by a file of another loader", l.name))
			} else if len(good) == 0 {
				note("found-without-file", fmt.Sprintf("%s found as %s but no file at its derived path (and no type set) defines it", l.name, oc.name))
			} else if !keyEq(lowerSegs(strings.Split(oc.name, "::")), key) {
				note("wrong-name", fmt.Sprintf("%s loaded a definition named %s", l.name, oc.name))
			} else {
				// the definition answered must be the one a file on the name's route holds: that file has been read, and
				// the kind of type is the kind it defines (whatever was looked up before)
				read, kindOK := false, false
				for _, c := range good {
					read = read || readSoFar[c.path]
					kindOK = kindOK || c.kindFor(key) == oc.tkind
				}
				amb := o.ambiguous(key) || (len(key) >= 2 && o.ambiguous(key[:len(key)-1]))
				if amb && (!read || !kindOK) {
					// two definition sources (known finding C15-duplicate-redefine): which of them answers is undetermined
					note("duplicate-redefine", fmt.Sprintf("%s has two definition sources; the answer is not the effective one's", l.name))
				} else if !read {
					note("definition-not-from-file", fmt.Sprintf("%s answered as %s although %s, which defines it, was never read", l.name, oc.name, good[0].path))
				} else if !kindOK {
					note("definition-not-from-file", fmt.Sprintf("%s answered with a definition of kind %s, not the one %s holds", l.name, oc.tkind, good[0].path))
				}
			}
			if prev, ok := answers[id]; ok && prev == "notfound" && !anyReported {
				note("unstable", fmt.Sprintf("%s was absent and is found later", l.name))
			}
			if _, ok := answers[id]; !ok {
				answers[id] = "found"
			}
		case "notfound":
			if len(good) > 0 && !anyReported {
				exact := false
				for _, c := range good {
					switch c.f.body.kind {
					case "alias", "object":
						exact = exact || c.f.body.name == strings.TrimPrefix(l.name, "::")
					case "bare", "bareobject", "barehash":
						exact = true
					default:
						exact = exact || len(provs) == 0 && c.f.body.name == strings.TrimPrefix(l.name, "::")
					}
				}
				if !validParts(key) {
					// a name no loader can address; nothing to demand
				} else if exact || strings.ToLower(l.name) == l.name {
					note("missing-with-file", fmt.Sprintf("%s not found although %s defines it", l.name, good[0].path))
				} else {
					note("case-sensitive", fmt.Sprintf("%s not found although %s defines it (letter case differs)", l.name, good[0].path))
				}
			}
			if prev, ok := answers[id]; ok && prev == "found" {
				note("unstable", fmt.Sprintf("%s was found and is absent later", l.name))
			}
			if _, ok := answers[id]; !ok {
				answers[id] = "notfound"
			}
		case "reported":
			prevReported := anyReported
			anyReported = true
			switch {
			case oc.code == "PCORE_INVALID_CHARACTERS_IN_NAME":
				if validParts(key) {
					note("error-not-located", fmt.Sprintf("%s: invalid-characters error for a valid name", l.name))
				}
			case oc.code == "PCORE_ATTEMPT_TO_REDEFINE_TYPE":
				// the same name defined below the global loader and below a module, loaded through the dependency loader
				dup := dupAcross
				for _, k := range closKeys {
					dup = dup || o.ambiguous(k)
				}
				if dup {
					note("duplicate-redefine", fmt.Sprintf("%s: a name with two definitions (files below two loaders, or a file and a type-set member) is reported as a redefinition", l.name))
				} else {
					note("error-not-located", fmt.Sprintf("%s: redefinition reported without a duplicate definition", l.name))
				}
			case oc.code == "PCORE_TYPESET_REFERENCE_UNRESOLVED" || oc.code == "PCORE_TYPESET_REFERENCE_BAD_TYPE":
				// op xref: some type set on the search route refers to a type set that cannot be had: no file, a defective
				// file (reported by an earlier lookup), or a file that defines something else
				// (after an error the type set whose load was interrupted keeps its placeholder: nothing is demanded then)
				if !prevReported && !o.danglingTsref(clos, oc.code == "PCORE_TYPESET_REFERENCE_BAD_TYPE") {
					note("error-not-located", fmt.Sprintf("%s: %s although every referenced type set on the route has a good file", l.name, oc.code))
				}
			case oc.code == "PCORE_TYPESET_REFERENCE_MISMATCH" || oc.code == "PCORE_TYPESET_REFERENCE_OVERLAP":
				// op xref: a type set on the route asks for version 2.x of a type set (all have 1.0.0), or refers to one type
				// set twice
				ok := prevReported
				for _, f := range clos {
					for i, r := range f.body.tsrefs {
						if oc.code == "PCORE_TYPESET_REFERENCE_MISMATCH" && r.major == 2 {
							ok = true
						}
						for j := 0; j < i; j++ {
							p := f.body.tsrefs[j]
							// (the semver module answers a non-nil Intersection for the disjoint ranges 1.x and 2.x as well)
							if oc.code == "PCORE_TYPESET_REFERENCE_OVERLAP" && p.set == r.set {
								ok = true
							}
						}
					}
				}
				if !ok {
					note("error-not-located", fmt.Sprintf("%s: %s although no type set on the route has such a reference", l.name, oc.code))
				}
			case oc.code == "PCORE_NOT_EXPECTED_TYPESET":
				f, ok := clos[oc.file]
				if !ok || f.body.kind == "typeset" || !strings.HasSuffix(oc.file, "/init_typeset.pp") {
					note("error-not-located", fmt.Sprintf("%s: NOT_EXPECTED_TYPESET names %s", l.name, oc.file))
				}
			default:
				f, ok := clos[oc.file]
				if !ok {
					note("error-not-located", fmt.Sprintf("%s: %s names %s which is not on the search route", l.name, oc.code, oc.file))
					break
				}
				code, line := o.defect(f, oc.file)
				if code != oc.code {
					note("error-not-located", fmt.Sprintf("%s: %s reported for %s whose defect is %q", l.name, oc.code, oc.file, code))
				} else if code == "PARSE_ERROR" && line != oc.line {
					note("error-not-located", fmt.Sprintf("%s: parse error of %s on line %d reported on line %d", l.name, oc.file, line, oc.line))
				} else if code == "PCORE_WRONG_DEFINITION" && oc.line == 0 {
					note("misnamed-no-line", fmt.Sprintf("%s: the misnamed file %s is reported without a line", l.name, oc.file))
				}
				reportedOnce[oc.file] = true
			}
		}
		// a defective own file must surface as an error the first time it is consulted: the lookup that read it
		for _, r := range oc.reads {
			if f, ok := clos[r]; ok {
				if code, _ := o.defect(f, r); code != "" && !reportedOnce[r] {
					note("error-not-located", fmt.Sprintf("lookup of %s read the defective file %s (%s) without reporting it", l.name, r, code))
				}
			}
		}
	}
	if failure != nil {
		return *failure
	}
	if knownFailure != nil {
		return *knownFailure
	}
	return core.Result{Out: out, Pred: "ok", NonTrivial: nt, Tags: tagList(tags)}
}

func tagList(m map[string]bool) []string {
	out := make([]string, 0, len(m))
	for k := range m {
		out = append(out, k)
	}
	sort.Strings(out)
	return out
}
