package c15

import (
	"math/rand"
	"strings"

	"verif/harness/core"
	"verif/harness/sx"
)

// ---- generator ------------------------------------------------------------------------------------------------------
//
// quick: the small exhaustive universe (every tree of ≤ 2 files from a pool of 13 × 4 context loaders / topologies × a fixed lookup
// list and its reverse), the loader-kind universe (every tree of ≤ 2 files from a pool of 10 × 7 context loaders, genKinds),
// ~480 random trees × 40 lookups, 300 smart-path ops; thorough: 4000 trees × 100 lookups, 6000 smart-path ops.

var segPool = []string{"thing", "deep", "sub", "ta", "tb", "x1", "my_type", "ns"}
var modPool = []string{"mymod", "other", "m3"}

// module directories a tree may have: `environment` is the pseudo module name newFileBasedLoader treats as global (smart
// paths not module-name relative) while find() still filters qualified names by it
var modDirPool = []string{"mymod", "other", "m3", "environment"}
var memberPool = []string{"Ta", "Tb", "Thing", "Deep", "X1"}

func capSeg(s string) string {
	if s == "" {
		return s
	}
	return strings.ToUpper(s[:1]) + s[1:]
}

func capName(segs []string) string {
	out := make([]string, len(segs))
	for i, s := range segs {
		out[i] = capSeg(s)
	}
	return strings.Join(out, "::")
}

// caseVariant: the same name in another letter case
func caseVariant(r *rand.Rand, n string) string {
	switch r.Intn(5) {
	case 0:
		return strings.ToLower(n)
	case 1:
		return strings.ToUpper(n)
	case 2:
		b := []byte(n)
		for i := range b {
			if r.Intn(2) == 0 {
				b[i] = strings.ToUpper(string(b[i]))[0]
			} else {
				b[i] = strings.ToLower(string(b[i]))[0]
			}
		}
		return string(b)
	}
	return n
}

type genFile struct {
	file
	implied  []string // lower-cased name segments the path implies (nil: not addressable)
	misnamed bool     // the body declares another name than the path implies
}

func randFile(r *rand.Rand, mods []string) genFile {
	// where
	var root []string
	var prefix []string
	mod := ""
	if len(mods) > 0 && r.Intn(3) != 0 {
		mod = mods[r.Intn(len(mods))]
		root = []string{"modules", mod}
		if mod != "environment" {
			prefix = []string{mod}
		}
	} else {
		root = []string{"env"}
	}
	depth := 1 + r.Intn(3)
	if r.Intn(3) == 0 {
		depth = 1
	}
	var segs []string
	for i := 0; i < depth; i++ {
		segs = append(segs, segPool[r.Intn(len(segPool))])
	}
	// name collisions across namespaces: a segment that is the name of a module — a global type named like a module, a
	// module type whose last segment is another module's name, a namespace directory named like a module
	if len(mods) > 0 && r.Intn(5) == 0 {
		segs[r.Intn(len(segs))] = mods[r.Intn(len(mods))]
	}
	if root[0] == "env" && r.Intn(6) == 0 && len(mods) > 0 {
		// a global file inside a directory named like a module: the same name as a module's file
		segs = append([]string{mods[r.Intn(len(mods))]}, segs...)
	}
	if mod != "" && r.Intn(4) == 0 {
		// the OTHER candidate location of a name below a named loader: types/<mod>/… (where a loader whose paths are not
		// module-name relative keeps Mod::…, and where a module-relative one keeps Mod::Mod::…)
		segs = append([]string{mod}, segs...)
	}
	implied := append(append([]string{}, prefix...), segs...)
	if mod != "" && mod != "environment" && r.Intn(5) == 0 {
		segs = []string{"init_typeset"}
		implied = []string{mod}
	}
	fileSegs := append([]string{}, segs...)
	last := len(fileSegs) - 1
	if r.Intn(8) == 0 {
		fileSegs[last] = capSeg(fileSegs[last]) // letter case of file names does not matter
	}
	if r.Intn(12) == 0 && last > 0 {
		fileSegs[0] = strings.ToUpper(fileSegs[0])
	}
	dir := "types"
	ext := ".pp"
	addressable := true
	switch r.Intn(14) {
	case 0:
		ext, addressable = ".txt", false
	case 1:
		ext, addressable = ".pp.bak", false
	case 2:
		ext, addressable = "", false
	case 3:
		ext, addressable = ".PP", false
	case 4:
		dir, addressable = "functions", false
	case 5:
		dir, addressable = "", false
	case 6:
		// a dot inside the stem: `thing.v2.pp` is indexed as `thing.v2`, never as `thing` (only the extension is cut off)
		ext, addressable = []string{".v2.pp", ".pp.pp", ".x.y.pp"}[r.Intn(3)], false
	}
	fileSegs[last] += ext
	path := append([]string{}, root...)
	if dir != "" {
		path = append(path, dir)
	}
	path = append(path, fileSegs...)
	g := genFile{file: file{segs: path}}
	if addressable {
		g.implied = implied
	}
	name := capName(implied)
	switch k := r.Intn(100); {
	case k < 40:
		g.body = body{kind: "alias", name: name}
	case k < 52:
		g.body = body{kind: "object", name: name}
	case k < 56:
		g.body = body{kind: "alias", name: strings.ToUpper(name[:1]) + caseVariant(r, name[1:])}
		if !typeNameOK(g.body.name) {
			g.body.name = name
		}
	case k < 63:
		g.body = body{kind: "bare"}
	case k < 71:
		other := capName(append(append([]string{}, implied[:len(implied)-1]...), segPool[r.Intn(len(segPool))]+"x"))
		g.body = body{kind: []string{"alias", "object"}[r.Intn(2)], name: other}
		g.misnamed = true
	case k < 78:
		g.body = body{kind: "malformed", line: 1 + r.Intn(6)}
	case k < 81:
		g.body = body{kind: "literal", line: 1 + r.Intn(4)}
	case k < 85:
		g.body = body{kind: "empty"}
	case k < 89:
		g.body = body{kind: "unreadable"}
	default:
		n := 1 + r.Intn(3)
		var ts []string
		seen := map[string]bool{}
		for len(ts) < n {
			t := memberPool[r.Intn(len(memberPool))]
			if !seen[t] {
				seen[t] = true
				ts = append(ts, t)
			}
		}
		g.body = body{kind: "typeset", name: name, types: ts}
	}
	if len(segs) == 1 && segs[0] == "init_typeset" && g.body.kind != "typeset" && r.Intn(3) != 0 {
		g.body = body{kind: "typeset", name: name, types: []string{memberPool[r.Intn(len(memberPool))], "Zz"}}
	}
	return g
}

func randTree(r *rand.Rand, nLookups int) spec {
	var s spec
	nm := r.Intn(4)
	perm := r.Perm(len(modDirPool))
	for i := 0; i < nm && i < len(modDirPool); i++ {
		s.mods = append(s.mods, modDirPool[perm[i]])
	}
	nf := r.Intn(9)
	var gfs []genFile
	for i := 0; i < nf; i++ {
		g := randFile(r, s.mods)
		ok := true
		for _, o := range gfs {
			if isPrefix(o.segs, g.segs) || isPrefix(g.segs, o.segs) {
				ok = false
			}
		}
		if ok {
			gfs = append(gfs, g)
			s.files = append(s.files, g.file)
		}
	}
	// a misnamed file declares: a name nobody has a file for (as generated), the name of ANOTHER file of the tree, or a
	// sibling name without a file that the lookups will ask for
	for i := range gfs {
		if !gfs[i].misnamed {
			continue
		}
		switch r.Intn(3) {
		case 0:
			var others []string
			for j := range gfs {
				if j != i && gfs[j].implied != nil && capName(gfs[j].implied) != capName(gfs[i].implied) {
					others = append(others, capName(gfs[j].implied))
				}
			}
			if len(others) > 0 {
				gfs[i].body.name = others[r.Intn(len(others))]
			}
		case 1:
			imp := gfs[i].implied
			if imp == nil {
				imp = []string{"ns", "x"}
			}
			gfs[i].body.name = capName(append(append([]string{}, imp[:len(imp)-1]...), segPool[r.Intn(len(segPool))]))
		}
		s.files[i].body = gfs[i].body
	}
	switch k := r.Intn(27); {
	case k >= 24 && len(s.mods) > 0:
		s.via = "f:" + s.mods[r.Intn(len(s.mods))]
	case k >= 20:
		s.via = "e"
	case len(s.mods) == 0 || k < 5:
		s.via = "g"
	case k < 14:
		s.via = "d"
	default:
		s.via = "m:" + s.mods[r.Intn(len(s.mods))]
	}
	// the names the tree implies, their type-set members, near-misses
	var names []string
	for _, g := range gfs {
		n := capName(g.implied)
		if g.implied == nil {
			// a stray file: the name it would have had
			n = capSeg(segPool[r.Intn(len(segPool))])
		}
		names = append(names, n)
		if g.body.kind == "typeset" {
			for _, t := range g.body.types {
				names = append(names, g.body.name+"::"+t)
			}
			names = append(names, g.body.name+"::Nope")
		}
		if g.body.kind == "alias" || g.body.kind == "object" {
			names = append(names, g.body.name)
		}
	}
	for i, m := range s.mods {
		// module names as type names: unqualified in every letter case, qualified, and below another module
		names = append(names, capSeg(m), m, strings.ToUpper(m), capSeg(m)+"::"+capSeg(segPool[r.Intn(len(segPool))]),
			capSeg(s.mods[(i+1)%len(s.mods)])+"::"+capSeg(m))
	}
	names = append(names, capSeg(segPool[r.Intn(len(segPool))]), "Integer")
	for i := 0; i < nLookups; i++ {
		n := names[r.Intn(len(names))]
		parts := strings.Split(n, "::")
		switch r.Intn(16) {
		case 0: // missing segment
			if len(parts) > 1 {
				j := r.Intn(len(parts))
				parts = append(append([]string{}, parts[:j]...), parts[j+1:]...)
			}
		case 1: // extra segment
			parts = append(parts, capSeg(segPool[r.Intn(len(segPool))]))
		case 2: // wrong module
			parts[0] = capSeg(append(append([]string{}, modDirPool...), "nomod")[r.Intn(len(modDirPool)+1)])
		case 3: // extra leading segment
			parts = append([]string{capSeg(append(append([]string{}, modDirPool...), "ns")[r.Intn(len(modDirPool)+1)])}, parts...)
		case 4:
			parts[0] = "::" + parts[0]
		}
		n = strings.Join(parts, "::")
		if r.Intn(3) == 0 {
			n = caseVariant(r, n)
		}
		if r.Intn(60) == 0 {
			n = []string{"", "1x", n + "::", n + "::1x", "Mymod::::Thing", "a b"}[r.Intn(6)]
		}
		switch r.Intn(12) {
		case 0:
			s.lookups = append(s.lookups, lookup{op: "has", name: n})
		case 1:
			s.lookups = append(s.lookups, lookup{op: "discover"})
		default:
			s.lookups = append(s.lookups, lookup{op: "load", name: n})
		}
	}
	// definitions made between lookups, without a file: [load N, def L N, load N, load N'] for a fresh name N that loader L
	// should hold (a module's Mod::LateK in that module's loader, an unqualified LateK in the global loader) — a miss
	// recorded before the definition must not be final
	for k := 0; k < 2 && r.Intn(3) == 0; k++ {
		in, n := "g", "Late"+string(rune('a'+r.Intn(3)))
		if len(s.mods) > 0 && r.Intn(3) != 0 {
			m := s.mods[r.Intn(len(s.mods))]
			in, n = "m:"+m, capSeg(m)+"::"+n
		}
		seq := []lookup{{op: "load", name: n}, {op: "def", name: n, in: in}, {op: "load", name: n},
			{op: "load", name: caseVariant(r, n)}}
		if r.Intn(3) == 0 {
			seq = seq[1:] // defined before the first lookup
		}
		at := 0
		if len(s.lookups) > 0 {
			at = r.Intn(len(s.lookups))
		}
		s.lookups = append(append(append([]lookup{}, s.lookups[:at]...), seq...), s.lookups[at:]...)
	}
	// error-then-declared sequences: around the lookup that surfaces a defective file, the names that file DECLARES and
	// names declared elsewhere are looked up, in both orders (an error lookup must not bind anything; a name without a
	// file stays absent whatever happened before; a name with a file is answered from that file)
	var declared []string
	for _, g := range gfs {
		switch g.body.kind {
		case "alias", "object", "typeset":
			declared = append(declared, g.body.name)
		}
	}
	for _, g := range gfs {
		if g.implied == nil {
			continue
		}
		n := capName(g.implied)
		var pats [][]string
		switch g.body.kind {
		case "alias", "object", "typeset":
			if !g.misnamed {
				continue
			}
			d := g.body.name
			pats = [][]string{{n, d}, {d, n, d}, {n, d, n}}
		case "malformed", "literal", "empty", "unreadable":
			if len(declared) == 0 {
				continue
			}
			d := declared[r.Intn(len(declared))]
			pats = [][]string{{n, d, n}, {d, n, d}}
		default:
			continue
		}
		pat := pats[r.Intn(len(pats))]
		ls := make([]lookup, len(pat))
		for i, x := range pat {
			if r.Intn(4) == 0 {
				x = caseVariant(r, x)
			}
			ls[i] = lookup{op: "load", name: x}
		}
		at := 0
		if r.Intn(2) == 0 && len(s.lookups) > 0 {
			at = r.Intn(len(s.lookups))
		}
		s.lookups = append(append(append([]lookup{}, s.lookups[:at]...), ls...), s.lookups[at:]...)
	}
	return s
}

// the small universe: every tree of at most two files from this pool, under every context loader
var smallPool = []file{
	{segs: []string{"env", "types", "thing.pp"}, body: body{kind: "alias", name: "Thing"}},
	{segs: []string{"env", "types", "mymod", "thing.pp"}, body: body{kind: "object", name: "Mymod::Thing"}},
	{segs: []string{"modules", "mymod", "types", "thing.pp"}, body: body{kind: "alias", name: "Mymod::Thing"}},
	{segs: []string{"modules", "mymod", "types", "Deep.pp"}, body: body{kind: "alias", name: "Mymod::Other"}},
	{segs: []string{"modules", "mymod", "types", "sub", "deep.pp"}, body: body{kind: "malformed", line: 2}},
	{segs: []string{"modules", "mymod", "types", "init_typeset.pp"}, body: body{kind: "typeset", name: "Mymod", types: []string{"Ta", "Thing"}}},
	{segs: []string{"modules", "mymod", "types", "sub.pp"}, body: body{kind: "typeset", name: "Mymod::Sub", types: []string{"Deep"}}},
	{segs: []string{"modules", "other", "types", "thing.pp"}, body: body{kind: "bare"}},
	{segs: []string{"modules", "mymod", "types", "ta.txt"}, body: body{kind: "alias", name: "Mymod::Ta"}},
	{segs: []string{"modules", "mymod", "types", "wrong.pp"}, body: body{kind: "object", name: "Mymod::Thing"}},
	{segs: []string{"env", "types", "Mymod.pp"}, body: body{kind: "alias", name: "Mymod"}},
	{segs: []string{"modules", "other", "types", "mymod.pp"}, body: body{kind: "object", name: "Other::Mymod"}},
	// a dot inside the stem: this file is NOT the file of `Thing` (sweep survivor smartpath.go:127, notes/C15-mutation-sweep.md)
	{segs: []string{"env", "types", "thing.v2.pp"}, body: body{kind: "alias", name: "Thing"}},
}

var smallLookups = []string{"Thing", "thing", "Mymod::Thing", "MYMOD::THING", "Mymod", "Mymod::Ta", "Mymod::Deep", "Mymod::Sub::Deep",
	"Mymod::Sub", "Mymod::Sub::Deep", "Other::Thing", "Mymod::Nope", "Thing::Nope", "Mymod::Wrong", "Mymod::Other", "Mymod::Thing", "Mymod::Ta",
	"Other", "Mymod::Init_typeset", "mymod", "Other::Mymod", "MYMOD", "OTHER::MYMOD"}

// the loader-kind universe: the three kinds of file loader newFileBasedLoader distinguishes — module name "" (the global
// loader below env), the pseudo name `environment` (global by special case: smart paths not module-name relative, yet
// find() filters qualified names by the name) and an ordinary module name (module-name relative paths) — each with files at
// BOTH candidate locations of a name (types/thing.pp and types/<name of the loader>/thing.pp), so that a path derived with
// the wrong setting of moduleNameRelative shows in either direction: found where absent, absent where found, wrong file.
var kindPool = []file{
	{segs: []string{"env", "types", "thing.pp"}, body: body{kind: "alias", name: "Thing"}},
	{segs: []string{"env", "types", "environment", "thing.pp"}, body: body{kind: "object", name: "Environment::Thing"}},
	{segs: []string{"env", "types", "mymod", "thing.pp"}, body: body{kind: "object", name: "Mymod::Thing"}},
	{segs: []string{"modules", "environment", "types", "thing.pp"}, body: body{kind: "alias", name: "Thing"}},
	{segs: []string{"modules", "environment", "types", "environment", "thing.pp"}, body: body{kind: "object", name: "Environment::Thing"}},
	{segs: []string{"modules", "environment", "types", "mymod", "thing.pp"}, body: body{kind: "alias", name: "Mymod::Thing"}},
	{segs: []string{"modules", "mymod", "types", "thing.pp"}, body: body{kind: "alias", name: "Mymod::Thing"}},
	{segs: []string{"modules", "mymod", "types", "mymod", "thing.pp"}, body: body{kind: "object", name: "Mymod::Mymod::Thing"}},
	{segs: []string{"modules", "mymod", "types", "environment", "thing.pp"}, body: body{kind: "alias", name: "Mymod::Environment::Thing"}},
	{segs: []string{"modules", "environment", "types", "init_typeset.pp"}, body: body{kind: "typeset", name: "Init_typeset", types: []string{"Ta"}}},
}

var kindNames = []string{"Thing", "Environment::Thing", "Mymod::Thing", "Mymod::Mymod::Thing", "Mymod::Environment::Thing",
	"Environment::Environment::Thing", "Environment::Mymod::Thing", "Environment", "Mymod", "Init_typeset", "ENVIRONMENT::THING", "thing"}

var kindVias = []string{"g", "d", "e", "m:mymod", "m:environment", "f:mymod", "f:environment"}

func genKinds(emit func(spec)) {
	// HasEntry before anything is loaded, every load, HasEntry again, Discover
	var ls []lookup
	for _, n := range kindNames[:7] {
		ls = append(ls, lookup{op: "has", name: n})
	}
	for _, n := range kindNames {
		ls = append(ls, lookup{op: "load", name: n})
	}
	for _, n := range kindNames[:7] {
		ls = append(ls, lookup{op: "has", name: n})
	}
	ls = append(ls, lookup{op: "discover"})
	for vi, via := range kindVias {
		mods := []string{"mymod", "environment"}
		if vi%2 == 1 {
			mods = []string{"environment", "mymod"}
		}
		emit(spec{mods: mods, via: via, lookups: ls})
		for i := range kindPool {
			emit(spec{mods: mods, files: []file{kindPool[i]}, via: via, lookups: ls})
			for j := i + 1; j < len(kindPool); j++ {
				emit(spec{mods: mods, files: []file{kindPool[i], kindPool[j]}, via: via, lookups: ls})
			}
		}
	}
}

// deep names and names whose ancestors exist (the tree of the Lean examples `deepCfg`, plus a grandparent with a file and
// a type set two levels up): every context loader, the lookups in both orders
var deepFiles = []file{
	{segs: []string{"env", "types", "ns", "a.pp"}, body: body{kind: "alias", name: "Ns::A"}},
	{segs: []string{"env", "types", "ns", "bad.pp"}, body: body{kind: "malformed", line: 4}},
	{segs: []string{"env", "types", "top.pp"}, body: body{kind: "object", name: "Top"}},
	{segs: []string{"modules", "mymod", "types", "sub", "deep", "Leaf.pp"}, body: body{kind: "object", name: "Mymod::Sub::Deep::Leaf"}},
	{segs: []string{"modules", "mymod", "types", "sub", "deep", "bad.pp"}, body: body{kind: "malformed", line: 3}},
	{segs: []string{"modules", "mymod", "types", "sub.pp"}, body: body{kind: "alias", name: "Mymod::Sub"}},
	{segs: []string{"modules", "mymod", "types", "set.pp"}, body: body{kind: "typeset", name: "Mymod::Set", types: []string{"Ta", "Tb"}}},
	{segs: []string{"env", "types", "geo", "shapes.pp"}, body: body{kind: "typeset", name: "Geo::Shapes", types: []string{"Circle", "Square", "Tri"}}},
	{segs: []string{"modules", "other", "types", "init_typeset.pp"}, body: body{kind: "typeset", name: "Other", types: []string{"Ta", "Tb"}}},
	{segs: []string{"modules", "other", "types", "sub", "set.pp"}, body: body{kind: "typeset", name: "Other::Sub::Set", types: []string{"Leaf"}}},
}

var deepNames = []string{"Ns::A::B", "Ns::A::B", "Ns::A", "Ns::A::B::C::D", "Ns::Bad::X", "Ns::Bad", "Top::X::Y", "Top",
	"MYMOD::sub::Deep::LEAF", "Mymod::Sub", "Mymod::Sub::Deep", "Mymod::Sub::Deep::Leaf::X", "Mymod::Sub::Deep::Bad",
	"Mymod::Sub::Deep::Bad::Y", "Mymod::Set::Ta::X", "Mymod::Set::Tb", "Mymod::Set", "Mymod::Set::Nope::Z",
	"Geo::Shapes::SQUARE", "GEO::shapes", "Geo::Shapes::Tri", "Geo::Shapes::Nope", "Other::Sub::Set::Leaf", "OTHER", "Other::Tb",
	"Other::Sub::Set", "Other::Nope"}

func genDeep(emit func(spec)) {
	var ls, rev []lookup
	for _, n := range deepNames {
		ls = append(ls, lookup{op: "load", name: n})
		rev = append([]lookup{{op: "load", name: n}}, rev...)
	}
	for _, via := range []string{"g", "d", "e", "m:mymod", "f:mymod", "m:other", "f:other"} {
		for _, lk := range [][]lookup{ls, rev} {
			emit(spec{mods: []string{"other", "mymod"}, files: deepFiles, via: via, lookups: lk})
			emit(spec{mods: []string{"other", "mymod"}, files: deepFiles[7:], via: via, lookups: lk})
			// without the grandparent / parent files: the same names over a sparser tree
			emit(spec{mods: []string{"other", "mymod"}, files: []file{deepFiles[0], deepFiles[3], deepFiles[6]}, via: via, lookups: lk})
			emit(spec{mods: []string{"other", "mymod"}, files: []file{deepFiles[1], deepFiles[4], deepFiles[5]}, via: via, lookups: lk})
		}
	}
}

// definitions made between lookups (fix 9d272bd of /repo: a miss recorded by the dependency loader is not final): a name
// misses, is then defined through a module's / the global loader's DefiningLoader (px.AddTypes, no file), and is looked up
// again — through every context loader; also defined first, defined twice, a member asked before its type set is loaded
// through a loader that does not serve the qualified name (module `environment`)
func genDefs(emit func(spec)) {
	ld := func(n string) lookup { return lookup{op: "load", name: n} }
	df := func(in, n string) lookup { return lookup{op: "def", name: n, in: in} }
	seqs := [][]lookup{
		{ld("Mymod::Late"), df("m:mymod", "Mymod::Late"), ld("Mymod::Late"), ld("MYMOD::late"), {op: "has", name: "Mymod::Late"}, {op: "discover"}},
		{ld("Mymod::Late"), ld("Mymod::Late"), df("m:mymod", "Mymod::Late"), ld("Mymod::Late"), df("m:mymod", "Mymod::Late"), ld("Mymod::Late")},
		{df("m:mymod", "Mymod::Late"), ld("Mymod::Late"), ld("Mymod::Later"), df("m:mymod", "Mymod::Later"), ld("Mymod::Later")},
		{ld("Glob"), df("g", "Glob"), ld("Glob"), ld("GLOB"), ld("Ns::Deep::X"), df("g", "Ns::Deep::X"), ld("Ns::Deep::X")},
		{ld("Mymod::Sub::Late"), ld("Mymod::Sub"), df("m:mymod", "Mymod::Sub::Late"), ld("Mymod::Sub::Late"), ld("Mymod::Sub")},
		{ld("Environment::Late"), df("m:environment", "Environment::Late"), ld("Environment::Late"), ld("Late"), df("m:environment", "Late"), ld("Late")},
		{ld("Ts::Ta"), ld("Ts"), ld("Ts::Ta"), ld("Ts::Tb"), ld("Mymod::Ta"), ld("Mymod"), ld("Mymod::Ta")},
	}
	files := []file{
		{segs: []string{"modules", "environment", "types", "ts.pp"}, body: body{kind: "typeset", name: "Ts", types: []string{"Ta", "Tb"}}},
		{segs: []string{"modules", "mymod", "types", "init_typeset.pp"}, body: body{kind: "typeset", name: "Mymod", types: []string{"Ta"}}},
		{segs: []string{"modules", "mymod", "types", "thing.pp"}, body: body{kind: "alias", name: "Mymod::Thing"}},
	}
	for _, via := range []string{"d", "e", "g", "m:mymod", "f:mymod", "m:environment", "m:other"} {
		for _, mods := range [][]string{{"mymod", "other", "environment"}, {"environment", "other", "mymod"}} {
			for _, sq := range seqs {
				emit(spec{mods: mods, via: via, lookups: sq})
				emit(spec{mods: mods, files: files, via: via, lookups: sq})
			}
		}
	}
}

func gen(g *core.G) {
	emit := func(s spec) { g.Emit(s.String()) }
	// two lookup lists: the fixed one and its reverse (every pair of names is asked in both orders)
	var ls, rev []lookup
	for _, n := range smallLookups {
		ls = append(ls, lookup{op: "load", name: n})
		rev = append([]lookup{{op: "load", name: n}}, rev...)
	}
	ls = append(ls, lookup{op: "has", name: "Mymod::Thing"}, lookup{op: "discover"})
	rev = append(rev, lookup{op: "has", name: "Mymod::Thing"}, lookup{op: "discover"})
	for _, via := range []string{"g", "d", "m:mymod", "e"} {
		for _, lk := range [][]lookup{ls, rev} {
			emit(spec{mods: []string{"mymod", "other"}, via: via, lookups: lk})
			for i := range smallPool {
				emit(spec{mods: []string{"mymod", "other"}, files: []file{smallPool[i]}, via: via, lookups: lk})
				for j := i + 1; j < len(smallPool); j++ {
					emit(spec{mods: []string{"mymod", "other"}, files: []file{smallPool[i], smallPool[j]}, via: via, lookups: lk})
				}
			}
		}
	}
	genKinds(emit)
	genDeep(emit)
	genDefs(emit)
	trees, lookups := 480, 40
	if g.Thorough() {
		trees, lookups = 4000, 100
	}
	for i := 0; i < trees; i++ {
		emit(randTree(g.Rng, lookups))
	}
	// implementation-only: the same kind of tree judged with the demands the known findings fail
	for i := 0; i < trees/4; i++ {
		g.Emit("@strict" + strings.TrimPrefix(randTree(g.Rng, lookups/2).String(), "tree"))
	}
	// implementation-only: every name also looked up in the namespaces function / task / plan (no smart path serves them)
	for i := 0; i < trees/6; i++ {
		g.Emit("@nsprobe" + strings.TrimPrefix(randTree(g.Rng, lookups/2).String(), "tree"))
	}
	for _, via := range []string{"g", "d", "e", "m:mymod", "f:mymod"} {
		g.Emit("@nsprobe" + strings.TrimPrefix(spec{mods: []string{"other", "mymod"}, files: deepFiles, via: via,
			lookups: []lookup{{op: "load", name: "Mymod"}, {op: "load", name: "Mymod::Sub"}, {op: "load", name: "Mymod::Sub::Deep::Leaf"},
				{op: "load", name: "Top"}, {op: "load", name: "Ns::A"}, {op: "load", name: "Other"}, {op: "load", name: "Other::Tb"},
				{op: "load", name: "Mymod::Init"}, {op: "load", name: "Mymod::Set::Ta"}}}.String(), "tree"))
	}
	// the module's init_typeset.pp defines something that is no type set: PCORE_NOT_EXPECTED_TYPESET naming that file
	for _, via := range []string{"d", "e", "m:mymod", "f:mymod"} {
		for _, b := range []body{{kind: "alias", name: "Mymod"}, {kind: "object", name: "Mymod"}, {kind: "bare"},
			{kind: "typeset", name: "Mymod", types: []string{"Ta"}}, {kind: "alias", name: "Other"}} {
			emit(spec{mods: []string{"mymod", "other"}, via: via,
				files: []file{{segs: []string{"modules", "mymod", "types", "init_typeset.pp"}, body: b}},
				lookups: []lookup{{op: "load", name: "Mymod"}, {op: "load", name: "MYMOD"}, {op: "load", name: "Mymod::Ta"},
					{op: "load", name: "Mymod"}, {op: "has", name: "Mymod"}, {op: "has", name: "Init_typeset"}, {op: "discover"}}})
		}
	}
	// implementation-only: the same kind of tree looked at from forked contexts (a fresh child loader per lookup)
	for i := 0; i < trees/6; i++ {
		g.Emit("@forked" + strings.TrimPrefix(randTree(g.Rng, lookups/2).String(), "tree"))
	}
	// implementation-only: definitions that refer to each other (xref.go)
	genXref(g)
	// smart path alone
	for i := 0; i < 150*g.Scale; i++ {
		mod := ""
		if g.Rng.Intn(3) != 0 {
			mod = append(modPool, "environment")[g.Rng.Intn(len(modPool)+1)]
		}
		n := 1 + g.Rng.Intn(3)
		var rel []sx.Sexp
		var name []string
		for j := 0; j < n; j++ {
			seg := segPool[g.Rng.Intn(len(segPool))]
			if g.Rng.Intn(10) == 0 {
				seg = []string{"init", "init_typeset", "1x", "a.b", "Init"}[g.Rng.Intn(5)]
			}
			name = append(name, capSeg(seg))
			if j == n-1 {
				seg += ".pp"
			}
			if g.Rng.Intn(6) == 0 {
				seg = capSeg(seg)
			}
			rel = append(rel, sx.Str(seg))
		}
		g.Emit("tn " + sx.Str(mod).Atom + " " + sx.L(rel...).String())
		nm := strings.Join(name, "::")
		if mod != "" && g.Rng.Intn(4) != 0 {
			nm = capSeg(mod) + "::" + nm
		}
		if g.Rng.Intn(3) == 0 {
			nm = caseVariant(g.Rng, nm)
		}
		g.Emit("ep " + sx.Str(mod).Atom + " " + sx.Str(nm).Atom)
	}
	// the constructor: every kind of module name x every list of path types (registered, unregistered, none, repeated)
	for _, mod := range []string{"", "environment", "mymod", "other"} {
		for _, pts := range [][]string{{"puppetDataType"}, {}, {"puppetFunction"}, {"plan"}, {"task"}, {"puppetDataType", "task"},
			{"bogus"}, {"puppetDataType", "puppetDataType"}, {"plan", "puppetDataType"}} {
			ps := make([]sx.Sexp, len(pts))
			for i, p := range pts {
				ps[i] = sx.Str(p)
			}
			g.Emit("ctor " + sx.Str(mod).Atom + " " + sx.L(ps...).String())
		}
	}
	// malformed stream: trees that are not well-formed must be refused alike by both sides
	bad := []spec{
		{mods: []string{"Mymod"}, via: "g"},
		{mods: []string{"mymod", "mymod"}, via: "g"},
		{mods: []string{"mymod"}, via: "f:other"},
		{mods: nil, via: "d"},
		{mods: []string{"mymod"}, via: "m:other"},
		{mods: []string{"mymod"}, via: "g", files: []file{{segs: []string{"env", "types", "a.pp"}, body: body{kind: "alias", name: "A"}}, {segs: []string{"env", "types", "a.pp", "b.pp"}, body: body{kind: "bare"}}}},
		{mods: []string{"mymod"}, via: "g", files: []file{{segs: []string{"env", "types", ".."}, body: body{kind: "bare"}}}},
		{mods: []string{"mymod"}, via: "g", files: []file{{segs: []string{"modules", "mymod"}, body: body{kind: "bare"}}}},
		{mods: []string{"mymod"}, via: "g", files: []file{{segs: []string{"env", "types", "a.pp"}, body: body{kind: "alias", name: "lower"}}}},
		{mods: []string{"mymod"}, via: "g", files: []file{{segs: []string{"env", "types", "a.pp"}, body: body{kind: "typeset", name: "A", types: []string{"T", "t"}}}}},
		{mods: []string{"mymod"}, via: "g", lookups: []lookup{{op: "load", name: "a:b"}}},
		{mods: []string{"mymod"}, via: "g", lookups: []lookup{{op: "load", name: "a:::b"}}},
		{mods: []string{"mymod"}, via: "g", lookups: []lookup{{op: "load", name: "é"}}},
	}
	for _, s := range bad {
		emit(s)
	}
}
