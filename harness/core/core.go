// Package core is the frame every property plugs into: a generator of self-contained op
// lines and an executor that runs one op line against the real pcore and evaluates the
// property's predicate directly on the implementation.
package core

import (
	"fmt"
	"math/rand"
	"sort"
	"strings"

	"verif/harness/sx"

	"github.com/lyraproj/pcore/px"
)

// Result of executing one op line on the implementation.
type Result struct {
	Out        string // canonical observation, compared with the model's line ("" never)
	Pred       string // "ok", "n/a" or "FAIL <class> <detail>"  (the property predicate on the implementation)
	NonTrivial bool   // counts towards distinct_nontrivial (rule stated by the property)
	Tags       []string // histogram keys (constructor kinds, branches, error kinds …)
}

func OK(out string) Result                 { return Result{Out: out, Pred: "ok", NonTrivial: true} }
func Trivial(out string) Result            { return Result{Out: out, Pred: "ok"} }
func Fail(out, class, detail string) Result { return Result{Out: out, Pred: "FAIL " + class + " " + strings.Replace(detail, "\t", " ", -1), NonTrivial: true} }

// G is handed to generators.
type G struct {
	Rng   *rand.Rand
	Tier  string // quick | thorough
	Emit  func(line string) // a complete op line *without* the property id
	Scale int // 1 for quick, larger for thorough
}

func (g *G) Thorough() bool { return g.Tier == "thorough" }

// Prop is one property's plug-in.
type Prop struct {
	ID   string
	Rule string // what makes a case non-trivial / distinct (goes to the evidence)
	// Gen emits op lines.  Lines starting with '@' are evaluated on the implementation only
	// (predicate ops that have no model counterpart); all others are also sent to the Lean driver.
	Gen func(g *G)
	// Exec runs one op.  It may panic: the frame recovers and classifies.
	Exec func(c px.Context, op string, args []sx.Sexp) Result
	// NeedsContext: run inside pcore.Do (almost always true).
	NoContext bool
}

var registry = map[string]*Prop{}

func Register(p *Prop) { registry[p.ID] = p }

func Lookup(id string) *Prop { return registry[id] }

func IDs() []string {
	ids := make([]string, 0, len(registry))
	for k := range registry {
		ids = append(ids, k)
	}
	sort.Strings(ids)
	return ids
}

// Pick helpers -----------------------------------------------------------------------------

func Pick(r *rand.Rand, xs []string) string { return xs[r.Intn(len(xs))] }

func Errf(format string, a ...interface{}) string { return fmt.Sprintf(format, a...) }
