package c08

// Op `res`: the RESOLVING operations of property C08 — types.ResolveDeferred / Deferred.Resolve / DeferredType.Resolve
// over lists and maps that hold (nested) Deferred values, under several scopes IN SEQUENCE.
//
//	C08 res <rval> <scope> <scope>*
//
//	<rval>   (i N) (s xHEX) (u) (a <rval>*) (h (<rval> <rval>)*)
//	         (d xNAME <rval>*)     types.NewDeferred(NAME, args...): `$var` digs args into the scope's variable, any other
//	                               name is a function call (the harness registers `verif_list`: its arguments as an array)
//	         (dt xNAME <rval>*)    types.NewDeferredType(NAME, params...); in the model: NAME ∈ typeNames without parameters,
//	                               Array / Optional / Type / NotUndef (one) and Tuple (one to three) over parameters that
//	                               resolve to a type or raise; anything else: implementation-only op `resp`
//	<scope>  (h ((s xHEX) <rval>)*)   string keys, pairwise different; hashes INSIDE a scope value have scalar keys
//
// Out = the answer of every resolution in order (`ok <walk>` | `reported <CODE>` | `fault`), then the walk of the value
// and of every scope AFTER all resolutions (the model says: what they were).  The predicate, on the implementation:
//
//   - every previously obtained value — the container, every Deferred in it, every Deferred's argument list, every scope,
//     every earlier answer — prints (String, program format), hashes (ToKey) and walks exactly as before, and still
//     Equals an independently built twin (classes resolve-mutated.<what>, resolve-unequal.<what>);
//   - resolution is a function of (value, scope): the answer under scope n, after the resolutions under scopes
//     0..n-1, is the answer a freshly built twin gives under scope n alone (class resolve-history);
//   - Deferred.Resolve called directly on every Deferred inside the value answers what the model's `resolve` answers
//     for that sub-term (part of Out for the top-level value; for nested ones compared with the fresh twin).

import (
	"fmt"
	"math/rand"
	"runtime"
	"strings"
	"unicode/utf8"

	"github.com/lyraproj/issue/issue"
	_ "github.com/lyraproj/pcore/pcore"
	"github.com/lyraproj/pcore/px"
	"github.com/lyraproj/pcore/types"

	"verif/harness/core"
	"verif/harness/sx"
)

func init() {
	px.NewGoFunction(`verif_list`, func(d px.Dispatch) {
		d.RepeatedParam(`Any`)
		d.Function(func(c px.Context, args []px.Value) px.Value {
			return types.WrapValues(append([]px.Value{}, args...))
		})
	})
	px.NewGoFunction(`verif_first`, func(d px.Dispatch) {
		d.RepeatedParam(`Any`)
		d.Function(func(c px.Context, args []px.Value) px.Value {
			if len(args) == 0 {
				return px.Undef
			}
			return args[0]
		})
	})
}

var typeNames = map[string]bool{"Integer": true, "String": true, "Any": true, "Boolean": true, "Nope": true}

func isRVal(e sx.Sexp) bool {
	a := e.Args()
	switch e.Tag() {
	case "i", "s", "u":
		return isVal(e)
	case "a":
		for _, k := range a {
			if !isRVal(k) {
				return false
			}
		}
		return true
	case "h":
		for _, kv := range a {
			if !kv.IsList || len(kv.List) != 2 || !isRVal(kv.List[0]) || !isRVal(kv.List[1]) {
				return false
			}
		}
		return true
	case "d":
		if len(a) < 1 || a[0].IsList {
			return false
		}
		nm, err := a[0].AsBytes()
		if err != nil || !utf8.Valid(nm) {
			return false
		}
		for _, k := range a[1:] {
			if !isRVal(k) {
				return false
			}
		}
		return true
	case "dt":
		if len(a) < 1 || a[0].IsList {
			return false
		}
		b, err := a[0].AsBytes()
		if err != nil || !utf8.Valid(b) {
			return false
		}
		for _, k := range a[1:] { // parameters: op `resp` only (no model)
			if !isRVal(k) {
				return false
			}
		}
		return true
	}
	return false
}

// inDomain: the names this op covers — variables, the function the harness registers, one unknown function, five type
// names (any other Deferred name may be a real function of pcore, e.g. `new`)
func inDomain(e sx.Sexp, implOnly bool) bool {
	a := e.Args()
	switch e.Tag() {
	case "a":
		for _, k := range a {
			if !inDomain(k, implOnly) {
				return false
			}
		}
	case "h":
		for _, kv := range a {
			if !inDomain(kv.List[0], implOnly) || !inDomain(kv.List[1], implOnly) {
				return false
			}
		}
	case "d":
		nm := a[0].MustStr()
		if !(strings.HasPrefix(nm, "$") || nm == "verif_list" || nm == "verif_first" || nm == "nofunc") {
			return false
		}
		for _, k := range a[1:] {
			if !inDomain(k, implOnly) {
				return false
			}
		}
	case "dt":
		if len(a) > 1 && implOnly {
			for _, k := range a[1:] {
				if !inDomain(k, implOnly) {
					return false
				}
			}
			return paramTypeNames[a[0].MustStr()]
		}
		if len(a) > 1 {
			// inside the model: the one-parameter wrappers and Tuple, over parameters that resolve to a TYPE or raise
			nm := a[0].MustStr()
			if !modelParamNames[nm] || (nm == "Tuple" && len(a)-1 > 3) || (nm != "Tuple" && len(a)-1 != 1) {
				return false
			}
			for _, k := range a[1:] {
				if !typeParam(k) {
					return false
				}
			}
			return true
		}
		return typeNames[a[0].MustStr()]
	}
	return true
}

var modelParamNames = map[string]bool{"Array": true, "Optional": true, "Type": true, "NotUndef": true, "Tuple": true}

// typeParam: a parameter of a DeferredType that resolves to a TYPE or raises: a DeferredType, verif_first(<such>, …), a
// variable (parameters are resolved in the EMPTY scope: UNKNOWN_VARIABLE), the unknown function
func typeParam(e sx.Sexp) bool {
	a := e.Args()
	switch e.Tag() {
	case "dt":
		return inDomain(e, false)
	case "d":
		nm := a[0].MustStr()
		if nm == "verif_first" {
			if len(a) < 2 || !typeParam(a[1]) {
				return false
			}
			for _, k := range a[2:] {
				if !inDomain(k, false) {
					return false
				}
			}
			return true
		}
		if !(strings.HasPrefix(nm, "$") || nm == "nofunc") {
			return false
		}
		for _, k := range a[1:] {
			if !inDomain(k, false) {
				return false
			}
		}
		return true
	}
	return false
}

var paramTypeNames = map[string]bool{"Integer": true, "String": true, "Array": true, "Hash": true, "Tuple": true, "Struct": true,
	"Variant": true, "Optional": true, "Enum": true, "Type": true}

func isScalar(e sx.Sexp) bool { return e.Tag() == "i" || e.Tag() == "s" }

// scalarKeys: every hash inside the value has scalar, pairwise different keys (so lookups need no more of ToKey than
// the model has)
func scalarKeys(e sx.Sexp) bool {
	switch e.Tag() {
	case "a":
		for _, k := range e.Args() {
			if !scalarKeys(k) {
				return false
			}
		}
	case "d", "dt":
		for _, k := range e.Args()[1:] {
			if !scalarKeys(k) {
				return false
			}
		}
	case "h":
		seen := map[string]bool{}
		for _, kv := range e.Args() {
			k := kv.List[0]
			if !isScalar(k) || !scalarKeys(kv.List[1]) {
				return false
			}
			ck := walk(valOf(k))
			if seen[ck] {
				return false
			}
			seen[ck] = true
		}
	}
	return true
}

func isScope(e sx.Sexp) bool {
	if e.Tag() != "h" || !isRVal(e) || !scalarKeys(e) {
		return false
	}
	for _, kv := range e.Args() {
		if kv.List[0].Tag() != "s" {
			return false
		}
	}
	return true
}

// shareMemo, when set, makes rvalOf build equal sub-terms ONCE: the same Deferred / list / map object then sits at several
// places of the value (the implementation-layer model is a tree; for the code as it is sharing must not be observable)
var shareMemo map[string]px.Value

func rvalOf(e sx.Sexp) px.Value {
	if shareMemo == nil || !e.IsList {
		return rvalOf1(e)
	}
	k := e.String()
	if v, ok := shareMemo[k]; ok {
		return v
	}
	v := rvalOf1(e)
	shareMemo[k] = v
	return v
}

func rvalOf1(e sx.Sexp) px.Value {
	a := e.Args()
	switch e.Tag() {
	case "a":
		vs := make([]px.Value, len(a))
		for i, k := range a {
			vs[i] = rvalOf(k)
		}
		return types.WrapValues(vs)
	case "h":
		es := make([]*types.HashEntry, len(a))
		for i, kv := range a {
			es[i] = types.WrapHashEntry(rvalOf(kv.List[0]), rvalOf(kv.List[1]))
		}
		return types.WrapHash(es)
	case "d":
		vs := make([]px.Value, len(a)-1)
		for i, k := range a[1:] {
			vs[i] = rvalOf(k)
		}
		return newDeferredBy(a[0].MustStr(), vs)
	case "dt":
		if len(a) == 1 {
			return types.NewDeferredType(a[0].MustStr())
		}
		vs := make([]px.Value, len(a)-1)
		for i, k := range a[1:] {
			vs[i] = rvalOf(k)
		}
		return types.NewDeferredType(a[0].MustStr(), vs...)
	}
	return valOf(e)
}

// newDeferredBy builds the Deferred by one of its three constructors, chosen by the shape of the term (the model does not
// care which): types.NewDeferred, the positional constructor of the Deferred type (`Deferred.new(name, arguments)`: the
// CALLER's array becomes the argument list) and the constructor from an init hash.  A constructor that refuses (the name
// pattern of the type) falls back to NewDeferred.
var resCtx px.Context

func newDeferredBy(name string, vs []px.Value) (d px.Value) {
	route := (len(name) + len(vs)) % 3
	if resCtx != nil && route != 0 {
		if err := safely(func() {
			if route == 1 {
				d = px.New(resCtx, types.DeferredMetaType, types.WrapString(name), types.WrapValues(vs))
			} else {
				d = px.New(resCtx, types.DeferredMetaType, types.WrapHash([]*types.HashEntry{
					types.WrapHashEntry2(`name`, types.WrapString(name)), types.WrapHashEntry2(`arguments`, types.WrapValues(vs))}))
			}
		}); err == nil {
			if _, ok := d.(types.Deferred); ok {
				return d
			}
		}
	}
	return types.NewDeferred(name, vs...)
}

// rwalk: the canonical content through the public API (Deferred: Name() and Arguments(); a type: its text)
func rwalk(b *strings.Builder, v px.Value, depth int) {
	if depth > 40 {
		b.WriteString("(deep)")
		return
	}
	switch v := v.(type) {
	case nil:
		b.WriteString("(nil)")
	case types.Deferred:
		b.WriteString("(d " + sx.Str(v.Name()).Atom)
		v.Arguments().Each(func(e px.Value) { b.WriteByte(' '); rwalk(b, e, depth+1) })
		b.WriteByte(')')
	case *types.DeferredType:
		b.WriteString("(dt " + sx.Str(v.Name()).Atom)
		for _, e := range v.Parameters() {
			b.WriteByte(' ')
			rwalk(b, e, depth+1)
		}
		b.WriteByte(')')
	case px.Type:
		b.WriteString("(t " + sx.Str(v.String()).Atom + ")")
	case *types.Array:
		b.WriteString("(a")
		v.Each(func(e px.Value) { b.WriteByte(' '); rwalk(b, e, depth+1) })
		b.WriteByte(')')
	case *types.Hash:
		b.WriteString("(h")
		v.EachPair(func(k, e px.Value) {
			b.WriteString(" (")
			rwalk(b, k, depth+1)
			b.WriteByte(' ')
			rwalk(b, e, depth+1)
			b.WriteByte(')')
		})
		b.WriteByte(')')
	default:
		walkTo(b, v, depth)
	}
}

func rwalkS(v px.Value) (s string) {
	if err := safely(func() {
		var b strings.Builder
		rwalk(&b, v, 0)
		s = b.String()
	}); err != nil {
		return "panic"
	}
	return s
}

// rsnap: text (default and program format) + hash key + walk; every part guarded (ToKey of a Deferred is an error, the
// same one before and after)
func rsnap(v px.Value) string {
	var t, k string
	if err := safely(func() { t = v.String() }); err != nil {
		t = "panic"
	}
	if err := safely(func() { k = sx.Str(string(px.ToKey(v))).Atom }); err != nil {
		k = "nokey"
	}
	return t + " | " + progText(v) + " | " + k + " | " + rwalkS(v)
}

func classifyErr(e interface{}) string {
	switch e := e.(type) {
	case issue.Reported:
		if strings.Contains(e.Error(), "runtime error:") || strings.Contains(e.Error(), "interface conversion") {
			return "fault"
		}
		return "reported " + strings.TrimPrefix(string(e.Code()), "PCORE_")
	case runtime.Error:
		return "fault"
	case error:
		if strings.Contains(e.Error(), "runtime error:") || strings.Contains(e.Error(), "interface conversion") {
			return "fault"
		}
		return "error"
	}
	return "fault"
}

// resolveOnce: one resolution; the answer as a value (nil on error) and as the canonical line
func resolveOnce(c px.Context, v px.Value, scope px.Keyed) (res px.Value, line string) {
	if err := safely(func() { res = types.ResolveDeferred(c, v, scope) }); err != nil {
		return nil, classifyErr(err)
	}
	return res, "ok " + rwalkS(res)
}

// watched: one previously obtained value with its snapshot and its independently built twin
type watched struct {
	what string
	v    px.Value
	twin px.Value
	snap string
	eq   string // does it equal its twin (both ways)?  "eq" | "ne" | "panic" (a hash with a Deferred as key cannot be compared)
}

func eqState(v, twin px.Value) string {
	eq := false
	if err := safely(func() { eq = v.Equals(twin, nil) && twin.Equals(v, nil) }); err != nil {
		return "panic"
	}
	if eq {
		return "eq"
	}
	return "ne"
}

func watch(what string, v, twin px.Value) watched {
	return watched{what, v, twin, rsnap(v), eqState(v, twin)}
}

// parts lists every value reachable inside v that the property speaks of: the container itself, nested containers,
// every Deferred and every Deferred's argument list
func parts(what string, v, twin px.Value, out []watched, depth int) []watched {
	if depth > 40 {
		return out
	}
	out = append(out, watch(what, v, twin))
	switch x := v.(type) {
	case types.Deferred:
		tw, _ := twin.(types.Deferred)
		if tw == nil {
			return out
		}
		out = append(out, watch("arguments", x.Arguments(), tw.Arguments()))
		for i := 0; i < x.Arguments().Len() && i < tw.Arguments().Len(); i++ {
			out = parts("deferred-argument", x.Arguments().At(i), tw.Arguments().At(i), out, depth+1)
		}
	case *types.DeferredType:
		tw, _ := twin.(*types.DeferredType)
		if tw == nil || len(tw.Parameters()) != len(x.Parameters()) {
			return out
		}
		for i, e := range x.Parameters() {
			out = parts("type-parameter", e, tw.Parameters()[i], out, depth+1)
		}
	case *types.Array:
		tw, _ := twin.(*types.Array)
		if tw == nil {
			return out
		}
		for i := 0; i < x.Len() && i < tw.Len(); i++ {
			out = parts(partName(x.At(i), "element"), x.At(i), tw.At(i), out, depth+1)
		}
	case *types.Hash:
		tw, _ := twin.(*types.Hash)
		if tw == nil || tw.Len() != x.Len() {
			return out
		}
		tes := tw.AppendEntriesTo(nil)
		for i, e := range x.AppendEntriesTo(nil) {
			out = parts(partName(e.Key(), "key"), e.Key(), tes[i].Key(), out, depth+1)
			out = parts(partName(e.Value(), "value"), e.Value(), tes[i].Value(), out, depth+1)
		}
	}
	return out
}

func partName(v px.Value, dflt string) string {
	switch v.(type) {
	case types.Deferred:
		return "deferred"
	case *types.DeferredType:
		return "deferred-type"
	}
	return dflt
}

func hasTag(e sx.Sexp, tag string) bool {
	if e.Tag() == tag {
		return true
	}
	for _, k := range e.Args() {
		if hasTag(k, tag) {
			return true
		}
	}
	if e.IsList {
		for _, k := range e.List {
			if k.IsList && k.Tag() == "" && hasTag(k, tag) {
				return true
			}
		}
	}
	return false
}

func execRes(c px.Context, args []sx.Sexp, implOnly bool) core.Result {
	if len(args) < 2 || !isRVal(args[0]) {
		return core.Result{Out: "bad-op", Pred: "FAIL harness-bad-op res"}
	}
	for _, s := range args[1:] {
		if !isRVal(s) {
			return core.Result{Out: "bad-op", Pred: "FAIL harness-bad-op res-scope " + s.String()}
		}
	}
	ok := inDomain(args[0], implOnly)
	for _, s := range args[1:] {
		ok = ok && isScope(s) && inDomain(s, false)
	}
	if !ok {
		return core.Result{Out: "~", Pred: "n/a", Tags: []string{"res-outside"}}
	}
	resCtx = c
	v := rvalOf(args[0])
	twin := rvalOf(args[0])
	var ws []watched
	ws = parts("container", v, twin, ws, 0)
	scopes := make([]px.Value, len(args)-1)
	for i, s := range args[1:] {
		scopes[i] = rvalOf(s)
		ws = parts("scope", scopes[i], rvalOf(s), ws, 0)
	}
	fail, failClass := "", ""
	setFail := func(class, msg string) {
		if fail == "" {
			failClass, fail = class, msg
		}
	}
	check := func(step int) {
		for _, w := range ws {
			if now := rsnap(w.v); now != w.snap {
				setFail("resolve-mutated."+w.what, fmt.Sprintf("resolution %d changed a %s: was %s now %s", step, w.what, w.snap, now))
			}
			if eq := eqState(w.v, w.twin); eq != w.eq {
				setFail("resolve-unequal."+w.what, fmt.Sprintf("after resolution %d a %s compares %s with an equal value built independently, before it compared %s: %s", step, w.what, eq, w.eq, rsnap(w.v)))
			}
		}
	}
	for _, w := range ws {
		if w.eq == "ne" {
			setFail("resolve-twin", "a "+w.what+" does not equal an equal value built independently: "+w.snap)
		}
	}
	var outs []string
	tags := map[string]bool{}
	distinct := map[string]bool{}
	for i, sc := range scopes {
		res, line := resolveOnce(c, v, sc.(px.Keyed))
		outs = append(outs, line)
		distinct[line] = true
		if strings.HasPrefix(line, "ok ") {
			tags["res-ok"] = true
		} else {
			tags["res-"+strings.Replace(line, " ", "-", -1)] = true
		}
		// a function of (value, scope): a fresh twin, never resolved before, under this scope alone
		_, want := resolveOnce(c, rvalOf(args[0]), rvalOf(args[i+1]).(px.Keyed))
		if want != line {
			setFail("resolve-history", fmt.Sprintf("resolution %d (after %d earlier ones) answers %s, the same value freshly built answers %s", i, i, line, want))
		}
		check(i)
		if res != nil {
			// the answer is a previously obtained value from now on (its twin: the fresh answer under the same scope)
			tw, _ := resolveOnce(c, rvalOf(args[0]), rvalOf(args[i+1]).(px.Keyed))
			if tw != nil {
				ws = append(ws, watch("earlier-answer", res, tw))
			}
		}
		// Deferred.Resolve directly on every Deferred inside the value (the public method), against the fresh twin's
		for _, w := range ws {
			d, ok := w.v.(types.Deferred)
			if !ok || (w.what != "deferred" && w.what != "deferred-argument" && w.what != "container") {
				continue
			}
			var got, wnt string
			var r1, r2 px.Value
			if err := safely(func() { r1 = d.Resolve(c, sc.(px.Keyed)) }); err != nil {
				got = classifyErr(err)
			} else {
				got = "ok " + rwalkS(r1)
			}
			fresh := rvalOf(args[i+1]).(px.Keyed)
			if err := safely(func() { r2 = w.twin.(types.Deferred).Resolve(c, fresh) }); err != nil {
				wnt = classifyErr(err)
			} else {
				wnt = "ok " + rwalkS(r2)
			}
			if got != wnt {
				setFail("resolve-history", fmt.Sprintf("Deferred.Resolve on a %s under scope %d answers %s, an equal Deferred never resolved before %s", w.what, i, got, wnt))
			}
		}
		check(i)
	}
	// the same value with equal sub-terms built once (shared objects): the same answers, and it stays as it was
	shareMemo = map[string]px.Value{}
	sv2 := rvalOf(args[0])
	shareMemo = nil
	before := rsnap(sv2)
	for i := range scopes {
		if _, line := resolveOnce(c, sv2, rvalOf(args[i+1]).(px.Keyed)); line != outs[i] {
			setFail("resolve-sharing", fmt.Sprintf("with equal sub-terms shared, resolution %d answers %s instead of %s", i, line, outs[i]))
		}
		if now := rsnap(sv2); now != before {
			setFail("resolve-mutated.shared", fmt.Sprintf("resolution %d changed the value built with shared sub-terms: was %s now %s", i, before, now))
		}
	}
	out := strings.Join(outs, " ; ") + " | v " + rwalkS(v)
	for _, sc := range scopes {
		out += " | s " + rwalkS(sc)
	}
	for _, t := range []string{"d", "dt", "a", "h"} {
		if hasTag(args[0], t) {
			tags["res-"+t] = true
		}
	}
	tl := make([]string, 0, len(tags))
	for t := range tags {
		if t != "" {
			tl = append(tl, t)
		}
	}
	sortStrings(tl)
	// non-trivial: something deferred was resolved, and two scopes told it apart (or an error was raised)
	nt := hasTag(args[0], "d") && (len(distinct) > 1 || strings.HasPrefix(outs[0], "reported"))
	r := core.Result{Out: out, Pred: "ok", NonTrivial: nt, Tags: tl}
	if fail != "" {
		r.Pred = "FAIL " + failClass + " " + strings.Replace(fail, "\t", " ", -1)
		r.NonTrivial = true
	}
	return r
}

// ---- generator ------------------------------------------------------------------------------------------------------

func dv(name string, xs ...sx.Sexp) sx.Sexp { return sx.T("d", append([]sx.Sexp{sx.Str(name)}, xs...)...) }
func dtv(name string) sx.Sexp               { return sx.T("dt", sx.Str(name)) }

// the scopes of the exhaustive universe: `v` a hash, an array, a scalar or missing; `k`, `j` keys into it (scalar,
// out of range, undef, a Deferred)
func resScopes() []sx.Sexp {
	hval := hv(kv(sv("a"), iv(1)), kv(sv("b"), iv(2)), kv(iv(0), av(iv(7), iv(8))))
	aval := av(iv(10), hv(kv(sv("a"), iv(11))), iv(30))
	return []sx.Sexp{
		hv(kv(sv("v"), hval), kv(sv("k"), sv("a")), kv(sv("j"), iv(0))),
		hv(kv(sv("v"), hval), kv(sv("k"), sv("b")), kv(sv("j"), iv(1))),
		hv(kv(sv("v"), aval), kv(sv("k"), iv(1)), kv(sv("j"), sv("a"))),
		hv(kv(sv("v"), aval), kv(sv("k"), iv(5)), kv(sv("j"), sx.T("u"))),
		hv(kv(sv("v"), iv(3)), kv(sv("k"), dv("$j")), kv(sv("j"), iv(2))),
		hv(kv(sv("k"), sv("a"))),
		// keys that cannot be hashed (a Deferred taken out of the scope as it is; an array holding one): INVALID_MAP_KEY
		hv(kv(sv("v"), hval), kv(sv("k"), dv("$j")), kv(sv("j"), av(dv("$k")))),
	}
}

// the Deferred shapes of the exhaustive universe
func resDeferreds() []sx.Sexp {
	k, j := dv("$k"), dv("$j")
	return []sx.Sexp{
		dv("$v"), dv("$k"), dv("$v", sv("a")), dv("$v", k), dv("$v", k, j), dv("$v", j, k), dv("$v", iv(0), j),
		dv("$v", dv("$v", k)), dv("$v", dv("verif_list", k)), dv("verif_list", k, iv(1)), dv("verif_list", dv("$v", k), dtv("Integer")),
		dv("verif_list"), dv("$v", dtv("String")), dv("$missing", k), dv("nofunc", k), dv("verif_list", dv("nofunc")),
		dv("$v", sx.T("u"), k), dv("verif_list", av(k), hv(kv(sv("x"), k), kv(k, iv(1)))),
		// DeferredTypes with parameters (resolveValue: the EMPTY scope; ResolveWithParams), alone and as arguments
		dtp("Array", dtv("Integer")), dtp("Tuple", dtv("String"), firstOf(dtp("Optional", dtv("Any"))), dtp("Type", dtv("Nope"))),
		dtp("Type", k), dtp("NotUndef", firstOf(dv("nofunc"))), dv("verif_list", dtp("Optional", dtp("Array", dtv("Boolean"))), k),
		dv("$v", dv("verif_first", k, dtp("Array", dtv("Any")))),
	}
}

func firstOf(x sx.Sexp) sx.Sexp { return dv("verif_first", x) }
func dtp(name string, ps ...sx.Sexp) sx.Sexp {
	return sx.T("dt", append([]sx.Sexp{sx.Str(name)}, ps...)...)
}

func genRes(g *core.G) {
	scopes := resScopes()
	for _, d := range resDeferreds() {
		shapes := []sx.Sexp{
			d,
			av(sv("x"), d),
			hv(kv(sv("one"), iv(1)), kv(sv("r"), d)),
			av(av(d), d, dtv("Integer")),
			hv(kv(d, hv(kv(sv("in"), d)))),
		}
		for si, v := range shapes {
			for i, s1 := range scopes {
				for j, s2 := range scopes {
					if si >= 3 && (i+j)%3 != 0 && !g.Thorough() {
						continue
					}
					g.Emit("res " + v.String() + " " + s1.String() + " " + s2.String())
				}
			}
		}
	}
	for i := 0; i < 1500*g.Scale; i++ {
		r := g.Rng
		v := randRVal(r, 3, true)
		line := "res " + v.String()
		for n := 2 + r.Intn(2); n > 0; n-- {
			line += " " + randScope(r).String()
		}
		g.Emit(line)
	}
	// DeferredType WITH parameters (implementation only: `resolveValue` / `ResolveWithParams` are outside the model):
	// parameters that hold Deferred calls and nested DeferredTypes, inside lists and maps, resolved twice
	first := firstOf
	tps := []sx.Sexp{
		dtp("Integer", iv(1), iv(5)), dtp("Integer", first(iv(1)), iv(5)), dtp("Array", dtv("Integer")),
		dtp("Array", dtp("Integer", first(iv(0)), first(iv(9))), iv(1), first(iv(3))),
		dtp("Tuple", dtv("String"), dtp("Array", dtv("Integer"))), dtp("Hash", dtv("String"), first(dtv("Integer"))),
		dtp("Struct", hv(kv(sv("a"), dtv("Integer")), kv(sv("b"), first(dtp("Optional", dtv("String")))))),
		dtp("Variant", dtv("Integer"), first(dtv("String"))), dtp("Enum", sv("a"), first(sv("b"))),
		dtp("Optional", first(dv("verif_first", dtv("Integer")))), dtp("Type", dtp("Integer", iv(1), first(iv(2)))),
		dtp("Array", dv("$v")), dtp("Integer", first(dv("nofunc"))), dtp("Integer", sv("x")),
	}
	for _, t := range tps {
		for _, v := range []sx.Sexp{t, av(sv("x"), t), hv(kv(sv("t"), t), kv(t, iv(1))), dv("verif_list", t, av(t))} {
			g.Emit("@resp " + v.String() + " " + scopes[0].String() + " " + scopes[5].String())
		}
	}
	// malformed stream: not a scope, unknown type name, entry outside a hash, no scope at all
	g.Emit("res " + av(iv(1)).String() + " " + av(iv(1)).String())
	g.Emit("res " + dv("new", sv("Integer"), iv(1)).String() + " " + hv().String())
	g.Emit("res " + dtv("Elephant").String() + " " + hv().String())
	g.Emit("res " + av(iv(1)).String() + " " + hv(kv(iv(1), iv(2))).String())
	g.Emit("res " + av(iv(1)).String() + " " + hv(kv(sv("v"), hv(kv(av(), iv(2))))).String())
}

var resVars = []string{"v", "k", "j", "w"}

func randRVal(r *rand.Rand, depth int, top bool) sx.Sexp {
	k := r.Intn(12)
	if top && k < 6 {
		k = 6 + r.Intn(6)
	}
	switch {
	case k < 3:
		return iv(int64(r.Intn(3)))
	case k < 5:
		return sv(strs[r.Intn(2)])
	case k < 6:
		if r.Intn(3) == 0 {
			return sx.T("u")
		}
		if r.Intn(3) == 0 {
			return randParamType(r, 2)
		}
		return dtv([]string{"Integer", "String", "Any", "Boolean", "Nope"}[r.Intn(5)])
	case depth <= 0:
		return dv("$" + resVars[r.Intn(3)])
	case k < 8:
		xs := make([]sx.Sexp, r.Intn(4))
		for i := range xs {
			xs[i] = randRVal(r, depth-1, false)
		}
		return av(xs...)
	case k < 9:
		var xs []sx.Sexp
		for i := r.Intn(3); i > 0; i-- {
			var key sx.Sexp
			if r.Intn(5) == 0 {
				key = randRVal(r, depth-1, false)
			} else {
				key = sv(strs[r.Intn(2)] + string(rune('0'+i)))
			}
			xs = append(xs, kv(key, randRVal(r, depth-1, false)))
		}
		return hv(xs...)
	}
	// a Deferred: mostly a variable dug into with (possibly deferred) arguments
	name := "$" + resVars[r.Intn(len(resVars))]
	switch r.Intn(8) {
	case 0:
		name = "verif_list"
	case 1:
		if r.Intn(3) == 0 {
			name = "nofunc"
		}
	}
	xs := make([]sx.Sexp, r.Intn(3))
	for i := range xs {
		if r.Intn(2) == 0 {
			xs[i] = dv("$" + resVars[1+r.Intn(2)])
		} else {
			xs[i] = randRVal(r, depth-1, false)
		}
	}
	return dv(name, xs...)
}

// randParamType: a DeferredType of the modelled family; parameters mostly resolve to types, sometimes raise
func randParamType(r *rand.Rand, depth int) sx.Sexp {
	if depth <= 0 || r.Intn(3) == 0 {
		return dtv([]string{"Integer", "String", "Any", "Boolean", "Nope"}[r.Intn(5)])
	}
	param := func() sx.Sexp {
		switch r.Intn(8) {
		case 0:
			return firstOf(randParamType(r, depth-1))
		case 1:
			if r.Intn(2) == 0 {
				return dv("$k")
			}
			return dv("nofunc", iv(1))
		}
		return randParamType(r, depth-1)
	}
	if r.Intn(3) == 0 {
		ps := make([]sx.Sexp, 1+r.Intn(3))
		for i := range ps {
			ps[i] = param()
		}
		return dtp("Tuple", ps...)
	}
	return dtp([]string{"Array", "Optional", "Type", "NotUndef"}[r.Intn(4)], param())
}

func randScopeVal(r *rand.Rand, depth int) sx.Sexp {
	switch k := r.Intn(8); {
	case k < 2 || depth <= 0:
		if r.Intn(2) == 0 {
			return iv(int64(r.Intn(3)))
		}
		return sv(strs[r.Intn(2)])
	case k < 5:
		var xs []sx.Sexp
		seen := map[string]bool{}
		for i := r.Intn(4); i > 0; i-- {
			var key sx.Sexp
			if r.Intn(2) == 0 {
				key = iv(int64(r.Intn(3)))
			} else {
				key = sv(strs[r.Intn(2)])
			}
			if seen[key.String()] {
				continue
			}
			seen[key.String()] = true
			xs = append(xs, kv(key, randScopeVal(r, depth-1)))
		}
		return hv(xs...)
	case k < 7:
		xs := make([]sx.Sexp, r.Intn(4))
		for i := range xs {
			xs[i] = randScopeVal(r, depth-1)
		}
		return av(xs...)
	}
	if r.Intn(2) == 0 {
		return sx.T("u")
	}
	return dv("$j")
}

func randScope(r *rand.Rand) sx.Sexp {
	var xs []sx.Sexp
	for _, name := range resVars {
		if r.Intn(8) == 0 {
			continue // a missing variable
		}
		if name == "v" || name == "w" {
			xs = append(xs, kv(sv(name), randScopeVal(r, 2)))
		} else {
			xs = append(xs, kv(sv(name), randScopeVal(r, 0)))
		}
	}
	return hv(xs...)
}
