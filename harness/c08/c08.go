// Package c08: values are immutable (property C08).
//
// One op line is a whole HISTORY over a pool of values; step n creates pool entry n (a value or a marker):
//
//	C08 hist <step> <step> …
//
//	constructors   (lit <val>)          WrapValues / WrapHash over a slice of exact capacity
//	               (parse <val>)        types.Parse of the literal's text: built by the parser through BasicCollector
//	                                    (AddArray(0) + append ⇒ spare capacity by Go's growth)
//	               (coll <cap> <val>)   BasicCollector.AddArray(cap)/AddHash(cap) fed by hand ⇒ cap-len spare cells
//	               (mnew)               NewMutableHash()
//	List ops       (add r <elem>) (addall r s) (delete r <elem>) (deleteall r s) (slice r i j) (map r <fn>)
//	               (select r <pred>) (reject r <pred>) (sort r) (flatten r) (unique r) (at r i)
//	OrderedMap ops (merge r s) (keys r) (values r) (entries r) (mapvalues r <fn>) (selectpairs r <pred>)
//	               (rejectpairs r <pred>) (mput r <elem> <elem>) (mputall r s)
//	observers      (ptype r) (dtype r) (tostring r) (tokey r) (equals r s) (ser r) (walk r)
//
//	r, s, n   pool indices of earlier steps;  <elem> ::= <val> | (v n)  (the pool value n itself as element)
//	<val>     (i N) (s xHEX) (u) (a <val>*) (h (<val> <val>)*) (e <val> <val>)
//	<fn>      id inc wrap k1          <pred>  all none isint eq1 iscoll
//
// After EVERY step every live pool value is snapshotted (program-format text + hash key + element walk) and compared
// with its snapshot at creation: the direct predicate of C08.  Out = the final contents of all pool entries.
package c08

import (
	"bytes"
	"fmt"
	"math/rand"
	"reflect"
	"strconv"
	"strings"
	"unicode/utf8"

	"verif/harness/core"
	"verif/harness/sx"

	"github.com/lyraproj/pcore/px"
	"github.com/lyraproj/pcore/serialization"
	"github.com/lyraproj/pcore/types"
)

func init() {
	core.Register(&core.Prop{
		ID:   "C08",
		Rule: "distinct histories; non-trivial = some pool value is used by two or more later steps, or a step operates on the result of an earlier operation; " +
			"op res: a Deferred was resolved and two scopes told it apart (or an error was raised); op mut: the history changes a builder (Put/PutAll)",
		Gen:  gen,
		Exec: exec,
	})
}

// ---- values ------------------------------------------------------------------------------------------------

func valOf(e sx.Sexp) px.Value {
	a := e.Args()
	switch e.Tag() {
	case "i":
		return types.WrapInteger(a[0].MustInt())
	case "s":
		return types.WrapString(a[0].MustStr())
	case "u":
		return px.Undef
	case "e":
		return types.WrapHashEntry(valOf(a[0]), valOf(a[1]))
	case "a":
		vs := make([]px.Value, len(a))
		for i, k := range a {
			vs[i] = valOf(k)
		}
		return types.WrapValues(vs)
	case "h":
		es := make([]*types.HashEntry, len(a))
		for i, kv := range a {
			if !kv.IsList || len(kv.List) != 2 {
				panic(fmt.Errorf("bad hash entry %s", kv))
			}
			es[i] = types.WrapHashEntry(valOf(kv.List[0]), valOf(kv.List[1]))
		}
		return types.WrapHash(es)
	}
	panic(fmt.Errorf("bad value %s", e))
}

// walk renders a value through the public iteration API only (the "element walk" of the snapshot and the
// canonical content printed in Out).
func walk(v px.Value) string {
	var b strings.Builder
	walkTo(&b, v, 0)
	return b.String()
}

func walkTo(b *strings.Builder, v px.Value, depth int) {
	if depth > 40 {
		b.WriteString("(deep)")
		return
	}
	switch v := v.(type) {
	case nil:
		b.WriteString("(nil)")
	case *types.Array:
		b.WriteString("(a")
		v.Each(func(e px.Value) { b.WriteByte(' '); walkTo(b, e, depth+1) })
		b.WriteByte(')')
	case *types.Hash:
		walkHash(b, v, depth)
	case *types.MutableHashValue:
		walkHash(b, &v.Hash, depth)
	case *types.HashEntry:
		b.WriteString("(e ")
		walkTo(b, v.Key(), depth+1)
		b.WriteByte(' ')
		walkTo(b, v.Value(), depth+1)
		b.WriteByte(')')
	case px.Integer:
		b.WriteString("(i " + strconv.FormatInt(v.Int(), 10) + ")")
	case px.StringValue:
		b.WriteString("(s " + sx.Str(v.String()).Atom + ")")
	default:
		if v == px.Undef {
			b.WriteString("(u)")
		} else {
			b.WriteString("(? " + sx.Str(v.String()).Atom + ")")
		}
	}
}

func walkHash(b *strings.Builder, v *types.Hash, depth int) {
	b.WriteString("(h")
	v.EachPair(func(k, e px.Value) {
		b.WriteString(" (")
		walkTo(b, k, depth+1)
		b.WriteByte(' ')
		walkTo(b, e, depth+1)
		b.WriteByte(')')
	})
	b.WriteByte(')')
}

func safely(f func()) (err interface{}) {
	defer func() { err = recover() }()
	f()
	return nil
}

var progCtx px.FormatContext

func progText(v px.Value) (s string) {
	if progCtx == nil {
		progCtx = px.NewFormatContext(types.DefaultAnyType(), px.NewFormat(`%p`), types.DefaultIndentation)
	}
	if err := safely(func() { s = px.ToString2(v, progCtx) }); err != nil {
		return "panic"
	}
	return s
}

// snapshot = program-format text + hash key + element walk + length (each part guarded: a nil element makes
// printing panic, which is then part of the observation)
func snapshot(v px.Value) string {
	var w, k string
	n := -1
	if err := safely(func() { w = walk(v) }); err != nil {
		w = "panic"
	}
	if strings.Contains(w, "(deep)") {
		// the value (now) contains itself: ToKey would recurse until the Go stack overflows, which no recover catches
		return "cyclic | " + w[:min(len(w), 200)]
	}
	if err := safely(func() { k = sx.Str(string(px.ToKey(v))).Atom }); err != nil {
		k = "panic"
	}
	if l, ok := v.(px.List); ok {
		_ = safely(func() { n = l.Len() })
	}
	return progText(v) + " | " + k + " | " + w + " | " + strconv.Itoa(n)
}

// literal text accepted by types.Parse; ok=false when the value has no literal form (entries outside a hash)
func literal(e sx.Sexp) (string, bool) {
	a := e.Args()
	switch e.Tag() {
	case "i":
		return a[0].Atom, true
	case "s":
		s := a[0].MustStr()
		for _, c := range s {
			if !(c >= 'a' && c <= 'z' || c >= 'A' && c <= 'Z' || c >= '0' && c <= '9' || c == ' ' || c == '_') {
				return "", false
			}
		}
		return "'" + s + "'", true
	case "u":
		return "undef", true
	case "a":
		xs := make([]string, len(a))
		for i, k := range a {
			t, ok := literal(k)
			if !ok {
				return "", false
			}
			xs[i] = t
		}
		return "[" + strings.Join(xs, ", ") + "]", true
	case "h":
		xs := make([]string, len(a))
		for i, kv := range a {
			k, ok1 := literal(kv.List[0])
			v, ok2 := literal(kv.List[1])
			if !ok1 || !ok2 {
				return "", false
			}
			xs[i] = k + " => " + v
		}
		return "{" + strings.Join(xs, ", ") + "}", true
	}
	return "", false
}

// feed drives a collector with the value's events; the top-level container gets capacity `cap`, nested ones their length
func feed(c px.Collector, e sx.Sexp, cap int) {
	a := e.Args()
	switch e.Tag() {
	case "a":
		c.AddArray(cap, func() {
			for _, k := range a {
				feed(c, k, len(k.Args()))
			}
		})
	case "h":
		c.AddHash(cap, func() {
			for _, kv := range a {
				feed(c, kv.List[0], len(kv.List[0].Args()))
				feed(c, kv.List[1], len(kv.List[1].Args()))
			}
		})
	default:
		c.Add(valOf(e))
	}
}

// a hash literal whose keys are not pairwise different (by hash key) is outside this harness (C09's subject)
func dupKeys(e sx.Sexp) bool {
	switch e.Tag() {
	case "h":
		seen := map[px.HashKey]bool{}
		for _, kv := range e.Args() {
			if !kv.IsList || len(kv.List) != 2 {
				return true
			}
			if dupKeys(kv.List[0]) || dupKeys(kv.List[1]) {
				return true
			}
			k := px.ToKey(valOf(kv.List[0]))
			if seen[k] {
				return true
			}
			seen[k] = true
		}
	case "a", "e":
		for _, k := range e.Args() {
			if dupKeys(k) {
				return true
			}
		}
	}
	return false
}

// treeShape: a non-empty array of [path, int] with non-empty paths of strings — the inputs of `tree` this harness models
func treeShape(e sx.Sexp) bool {
	if e.Tag() != "a" || len(e.Args()) == 0 {
		return false
	}
	for _, it := range e.Args() {
		if it.Tag() != "a" || len(it.Args()) != 2 {
			return false
		}
		path, v := it.Args()[0], it.Args()[1]
		if path.Tag() != "a" || len(path.Args()) == 0 || v.Tag() != "i" {
			return false
		}
		for _, k := range path.Args() {
			if k.Tag() != "s" {
				return false
			}
		}
	}
	return true
}

// plain: values the serializer hands to a collector unchanged (no hash entry outside a hash)
func plain(v px.Value, top bool) bool {
	ok := true
	switch v := v.(type) {
	case *types.HashEntry:
		return false
	case *types.Array:
		v.Each(func(e px.Value) { ok = ok && plain(e, false) })
	case *types.Hash:
		v.EachPair(func(k, e px.Value) { ok = ok && plain(k, false) && plain(e, false) })
	case *types.MutableHashValue:
		return false
	}
	return ok
}

// mutableInside: a MutableHashValue strictly inside a value (a builder that leaked into an immutable value)
func mutableInside(v px.Value, top bool, depth int) bool {
	if depth > 40 {
		return false
	}
	found := false
	switch v := v.(type) {
	case *types.MutableHashValue:
		if !top {
			return true
		}
		v.EachPair(func(k, e px.Value) {
			found = found || mutableInside(k, false, depth+1) || mutableInside(e, false, depth+1)
		})
	case *types.Hash:
		v.EachPair(func(k, e px.Value) {
			found = found || mutableInside(k, false, depth+1) || mutableInside(e, false, depth+1)
		})
	case *types.Array:
		v.Each(func(e px.Value) { found = found || mutableInside(e, false, depth+1) })
	case *types.HashEntry:
		return mutableInside(v.Key(), false, depth+1) || mutableInside(v.Value(), false, depth+1)
	}
	return found
}

// The caches.  Everything a value answers out of its lazily built caches — inferred type (reducedType), detailed type
// (detailedType) and, for a hash, the key index (index: each entry must be found under its own key) — must at all times
// be what an equal value built afresh (empty caches) answers: "inferring its type, printing, hashing …" fill these
// caches, and the property demands that this changes no observation.  The fresh value's answers are taken once, when
// the entry is created (its content never changes — that is the snapshot predicate).
type cacheWant struct {
	reduced, detailed px.Type
	found             string // per entry: is it what a lookup of its key answers? (not when a key occurs twice)
}

// lookups: for every entry of a hash, whether a lookup of its key finds exactly that entry
func lookups(v px.Value) string {
	h := hashOf(v)
	if h == nil {
		return ""
	}
	var b strings.Builder
	h.EachPair(func(k, e px.Value) {
		if got, ok := h.Get(k); ok && h.IncludesKey(k) && got == e {
			b.WriteByte('t')
		} else {
			b.WriteByte('f')
		}
	})
	return b.String()
}

func wantOf(v px.Value) (w *cacheWant) {
	if err := safely(func() {
		fresh := rebuilt(v)
		w = &cacheWant{fresh.PType(), px.DetailedValueType(fresh), lookups(fresh)}
	}); err != nil {
		return nil // a corrupted value (nil element): the snapshot predicate reports that
	}
	return w
}

// staleCache: does the value answer differently from an equal fresh one?
func staleCache(v px.Value, w *cacheWant) (msg string, stale bool) {
	if w == nil {
		return "", false
	}
	if err := safely(func() {
		if r := v.PType(); !r.Equals(w.reduced, nil) {
			msg, stale = "infers type "+r.String()+", an equal fresh value "+w.reduced.String(), true
			return
		}
		if d := px.DetailedValueType(v); !d.Equals(w.detailed, nil) {
			msg, stale = "infers detailed type "+d.String()+", an equal fresh value "+w.detailed.String(), true
			return
		}
		if got := lookups(v); got != w.found {
			msg, stale = "answers lookups of its own keys "+got+", an equal fresh value "+w.found, true
		}
	}); err != nil {
		return "faults when asked for its type or a key", true
	}
	return msg, stale
}

func hashOf(v px.Value) *types.Hash {
	switch h := v.(type) {
	case *types.Hash:
		return h
	case *types.MutableHashValue:
		return &h.Hash
	}
	return nil
}

// rebuilt: an equal container built afresh around the same elements
func rebuilt(v px.Value) px.Value {
	switch v := v.(type) {
	case *types.Array:
		return types.WrapValues(v.AppendTo(make([]px.Value, 0, v.Len())))
	case *types.Hash, *types.MutableHashValue:
		h := hashOf(v)
		es := make([]*types.HashEntry, 0, h.Len())
		h.EachPair(func(k, e px.Value) { es = append(es, types.WrapHashEntry(k, e)) })
		return types.WrapHash(es)
	}
	return v
}

// ---- functions passed to Map / Select / Sort ---------------------------------------------------------------------

func mapper(name string) px.Mapper {
	switch name {
	case "id":
		return func(v px.Value) px.Value { return v }
	case "inc":
		return func(v px.Value) px.Value {
			if i, ok := v.(px.Integer); ok {
				return types.WrapInteger(i.Int() + 1)
			}
			return v
		}
	case "wrap":
		return func(v px.Value) px.Value { return types.WrapValues([]px.Value{v}) }
	case "k1":
		return func(v px.Value) px.Value { return types.WrapInteger(1) }
	}
	return nil
}

var one = types.WrapInteger(1)
var richData = types.WrapHash([]*types.HashEntry{types.WrapHashEntry2(`rich_data`, types.BooleanTrue)})

func predicate(name string) px.Predicate {
	switch name {
	case "all":
		return func(v px.Value) bool { return true }
	case "none":
		return func(v px.Value) bool { return false }
	case "isint":
		return func(v px.Value) bool { _, ok := v.(px.Integer); return ok }
	case "eq1":
		return func(v px.Value) bool { return v.Equals(one, nil) }
	case "iscoll":
		return func(v px.Value) bool {
			switch v.(type) {
			case *types.Array, *types.Hash, *types.HashEntry:
				return true
			}
			return false
		}
	}
	return nil
}

// total order used for Sort: byte order of the canonical walk (equivalent elements are indistinguishable, so the
// instability of sort.Sort cannot show)
func less(a, b px.Value) bool { return walk(a) < walk(b) }

// ---- the pool --------------------------------------------------------------------------------------------------

type entry struct {
	v    px.Value   // nil: no value (mark says why)
	kind byte       // 'a' array, 'h' hash, 'm' mutable hash
	mark string     // "-" observer, "!" fault, "~" inapplicable, "^" slice bounds outside 0 ≤ i ≤ j ≤ len
	snap string     // snapshot when obtained
	cont string     // canonical content when obtained
	dead bool       // a mutable hash superseded by a later mput (its object now legitimately differs)
	want *cacheWant // what an equal fresh value answers from its caches
}

func (e *entry) live() bool { return e.v != nil && !e.dead }

func (e *entry) list() px.List { return e.v.(px.List) }

func (e *entry) hash() *types.Hash {
	switch h := e.v.(type) {
	case *types.Hash:
		return h
	case *types.MutableHashValue:
		return &h.Hash
	}
	return nil
}

type hist struct {
	pool []*entry
	tags map[string]bool
	uses []int
	// a violation seen inside a step on a value that is not a pool entry (a format map handed to the printer)
	sideClass, sideFail string
}

// ---- printing with format maps ---------------------------------------------------------------------------------------
//
// `tostring` also prints through per-type format maps (px.NewFormatContext3: the map is merged with the default formats;
// container formats with separators and nested `string_formats`).  The map is itself a value handed to an operation: it
// must read afterwards as it read before.

type fmtMap struct {
	v    px.Value
	text string
}

var fmtMaps []*fmtMap

func fmtEntry(format string, more ...*types.HashEntry) px.Value {
	return types.WrapHash(append([]*types.HashEntry{types.WrapHashEntry2("format", types.WrapString(format))}, more...))
}

func formatMaps() []*fmtMap {
	if fmtMaps != nil {
		return fmtMaps
	}
	th := func(es ...*types.HashEntry) px.Value { return types.WrapHash(es) }
	te := func(t px.Type, f px.Value) *types.HashEntry { return types.WrapHashEntry(t, f) }
	str := func(s string) px.Value { return types.WrapString(s) }
	inner := th(te(types.DefaultIntegerType(), str("%#x")), te(types.DefaultStringType(), str("%p")),
		te(types.DefaultArrayType(), fmtEntry("%(a", types.WrapHashEntry2("separator", str(" ;")))))
	ms := []px.Value{
		th(te(types.DefaultArrayType(), fmtEntry("%#a", types.WrapHashEntry2("separator", str(";")), types.WrapHashEntry2("string_formats", inner))),
			te(types.DefaultHashType(), fmtEntry("%#h", types.WrapHashEntry2("separator2", str(" -> ")), types.WrapHashEntry2("string_formats", inner))),
			te(types.DefaultIntegerType(), str("%d"))),
		th(te(types.DefaultCollectionType(), str("%p")), te(types.DefaultAnyType(), str("%s"))),
		th(te(types.DefaultArrayType(), fmtEntry("%<a", types.WrapHashEntry2("string_formats", th(te(types.DefaultHashType(), str("%[h")))))),
			te(types.DefaultHashType(), fmtEntry("% h", types.WrapHashEntry2("separator", str(",")))),
			te(types.DefaultStringType(), str("%10.3s")), te(types.DefaultUndefType(), str("%u"))),
	}
	for _, m := range ms {
		fmtMaps = append(fmtMaps, &fmtMap{m, m.String()})
	}
	return fmtMaps
}

func (h *hist) printWithMaps(v px.Value) {
	for i, fm := range formatMaps() {
		_ = safely(func() {
			if ctx, err := px.NewFormatContext3(v, fm.v); err == nil {
				_ = px.ToString2(v, ctx)
				h.tags["fmtmap"] = true
			}
		})
		if now := fm.v.String(); now != fm.text && h.sideFail == "" {
			h.sideClass = "format-map-mutated"
			h.sideFail = fmt.Sprintf("printing with format map %d changed the map: was %s now %s", i, fm.text, now)
		}
	}
}

// the option sets `ser` runs the serializer with (besides the default rich-data one whose result is the step's value)
var serOptions []px.OrderedMap

func serializerOptions() []px.OrderedMap {
	if serOptions == nil {
		o := func(es ...*types.HashEntry) px.OrderedMap { return types.WrapHash(es) }
		serOptions = []px.OrderedMap{
			o(types.WrapHashEntry2(`rich_data`, types.BooleanTrue), types.WrapHashEntry2(`local_reference`, types.BooleanFalse)),
			o(types.WrapHashEntry2(`rich_data`, types.BooleanTrue), types.WrapHashEntry2(`dedup_level`, types.WrapInteger(serialization.NoKeyDedup))),
			o(types.WrapHashEntry2(`rich_data`, types.BooleanTrue), types.WrapHashEntry2(`dedup_level`, types.WrapInteger(serialization.NoDedup))),
		}
	}
	return serOptions
}

func mk(v px.Value) *entry {
	e := &entry{v: v}
	switch v.(type) {
	case *types.Array:
		e.kind = 'a'
	case *types.Hash:
		e.kind = 'h'
	case *types.MutableHashValue:
		e.kind = 'm'
	default:
		return &entry{mark: "~"}
	}
	return e
}

func marker(m string) *entry { return &entry{mark: m} }

// ref resolves a pool index; ok=false when it is out of range or names a marker / dead entry
func (h *hist) ref(s sx.Sexp) (*entry, int, bool) {
	n, err := s.AsInt()
	if err != nil {
		panic(fmt.Errorf("bad pool index %s", s))
	}
	if n < 0 || int(n) >= len(h.pool) {
		return nil, int(n), false
	}
	e := h.pool[n]
	return e, int(n), e.live()
}

// elem resolves <elem>: a literal value or (v n)
func (h *hist) elem(s sx.Sexp) (px.Value, []int, bool) {
	if s.Tag() == "v" {
		e, n, ok := h.ref(s.Args()[0])
		if !ok {
			return nil, nil, false
		}
		if e.kind == 'm' {
			// a mutable hash inside another value is an alias of storage that is mutable by design (and can be
			// made cyclic): outside the property
			return nil, nil, false
		}
		return e.v, []int{n}, true
	}
	if dupKeys(s) {
		return nil, nil, false
	}
	return valOf(s), nil, true
}

func inBounds(l px.List, i, j int64) bool { return 0 <= i && i <= j && j <= int64(l.Len()) }

// step executes one step; it returns the new entry, the indices of receiver and arguments
func (h *hist) step(c px.Context, st sx.Sexp) (res *entry, recv int, args []int) {
	op := st.Tag()
	a := st.Args()
	recv = -1
	h.tags[op] = true
	var out px.Value
	call := func(f func()) *entry {
		if err := safely(f); err != nil {
			h.tags["fault"] = true
			return marker("!")
		}
		if out == nil {
			return marker("-")
		}
		return mk(out)
	}
	switch op {
	case "lit", "parse":
		if len(a) != 1 || (a[0].Tag() != "a" && a[0].Tag() != "h") || dupKeys(a[0]) {
			return marker("~"), recv, nil
		}
		if op == "lit" {
			return call(func() { out = valOf(a[0]) }), recv, nil
		}
		txt, ok := literal(a[0])
		if !ok {
			return marker("~"), recv, nil
		}
		return call(func() { out = types.Parse(txt) }), recv, nil
	case "coll":
		if len(a) != 2 || (a[1].Tag() != "a" && a[1].Tag() != "h") || dupKeys(a[1]) {
			return marker("~"), recv, nil
		}
		cp := a[0].MustInt()
		if cp < 0 || cp > 64 {
			return marker("~"), recv, nil
		}
		return call(func() {
			col := types.NewCollector()
			feed(col, a[1], int(cp))
			out = col.Value()
		}), recv, nil
	case "mnew":
		return call(func() { out = types.NewMutableHash() }), recv, nil
	case "tree":
		if !treeShape(a[0]) {
			return marker("~"), recv, nil
		}
		return call(func() { out = px.New(c, types.DefaultHashType(), valOf(a[0]), types.WrapString(`tree`)) }), recv, nil
	}
	if len(a) == 0 {
		panic(fmt.Errorf("bad step %s", st))
	}
	r, rn, ok := h.ref(a[0])
	if !ok {
		return marker("~"), recv, nil
	}
	recv = rn
	isHash := r.kind != 'a'
	// (since /repo 1d333d3 a MutableHashValue has its own Delete / DeleteAll / Entries / Unique answering a frozen copy: they
	// are executed on it like on any hash — called on the value itself, never on the embedded Hash)
	switch op {
	case "add", "delete":
		x, xa, ok := h.elem(a[1])
		if !ok {
			return marker("~"), recv, nil
		}
		args = xa
		if op == "add" {
			return call(func() { out = r.list().Add(x) }), recv, args
		}
		return call(func() { out = r.list().Delete(x) }), recv, args
	case "addall", "deleteall", "merge", "equals", "mputall":
		s, sn, ok := h.ref(a[1])
		if !ok {
			return marker("~"), recv, nil
		}
		args = []int{sn}
		var sl px.List = s.list()
		if s.kind == 'm' {
			sl = s.hash()
		}
		switch op {
		case "addall":
			return call(func() { out = r.list().AddAll(sl) }), recv, args
		case "deleteall":
			return call(func() { out = r.list().DeleteAll(sl) }), recv, args
		case "merge":
			if !isHash || s.kind == 'a' {
				return marker("~"), recv, args
			}
			return call(func() { out = r.hash().Merge(s.hash()) }), recv, args
		case "equals":
			return call(func() { r.v.Equals(sl, nil); sl.Equals(r.v, nil) }), recv, args
		case "mputall":
			if r.kind != 'm' || s.kind == 'a' {
				return marker("~"), recv, args
			}
			m := r.v.(*types.MutableHashValue)
			e := call(func() { m.PutAll(s.hash()); out = m })
			if e.v != nil {
				r.dead = true
			}
			return e, recv, args
		}
	case "mput":
		if r.kind != 'm' {
			return marker("~"), recv, nil
		}
		k, ka, ok1 := h.elem(a[1])
		v, va, ok2 := h.elem(a[2])
		if !ok1 || !ok2 {
			return marker("~"), recv, nil
		}
		args = append(ka, va...)
		m := r.v.(*types.MutableHashValue)
		e := call(func() { m.Put(k, v); out = m })
		if e.v != nil {
			r.dead = true
		}
		return e, recv, args
	case "slice":
		i, j := a[1].MustInt(), a[2].MustInt()
		if !inBounds(r.list(), i, j) {
			// Go would either fault or, within spare capacity, expose cells that were never part of the value;
			// both are a caller error outside the property's quantifier
			return marker("^"), recv, nil
		}
		return call(func() { out = r.list().Slice(int(i), int(j)) }), recv, nil
	case "at":
		i := a[1].MustInt()
		if isHash {
			return marker("~"), recv, nil
		}
		var x px.Value
		if err := safely(func() { x = r.list().At(int(i)) }); err != nil {
			return marker("!"), recv, nil
		}
		switch x.(type) {
		case *types.Array, *types.Hash:
			return mk(x), recv, nil
		}
		return marker("~"), recv, nil
	case "chunk":
		nn, k := a[1].MustInt(), a[2].MustInt()
		if nn < 1 {
			// a slice size below one is an argument error (before "fix: EachSlice with a slice size below one …" a
			// size of zero made EachSlice loop forever: the frame's per-op deadline reports that as `timeout`)
			return call(func() { r.list().EachSlice(int(nn), func(px.List) {}) }), recv, nil
		}
		if nn > 64 || k < 0 || k*nn >= int64(r.list().Len()) {
			return marker("~"), recv, nil // no such chunk
		}
		idx := int64(0)
		return call(func() {
			r.list().EachSlice(int(nn), func(s px.List) {
				if idx == k {
					out = s
				}
				idx++
			})
		}), recv, nil
	case "asarray":
		if !isHash {
			return marker("~"), recv, nil
		}
		return call(func() { out = r.hash().AsArray() }), recv, nil
	case "get":
		if !isHash {
			return marker("~"), recv, nil
		}
		k, ka, ok := h.elem(a[1])
		if !ok {
			return marker("~"), recv, nil
		}
		args = ka
		var x px.Value
		if err := safely(func() { x, _ = r.hash().Get(k) }); err != nil {
			return marker("!"), recv, args
		}
		switch x.(type) {
		case *types.Array, *types.Hash, *types.MutableHashValue:
			return mk(x), recv, args
		}
		return marker("~"), recv, args
	case "map", "mapvalues":
		f := mapper(a[1].Atom)
		if f == nil {
			panic(fmt.Errorf("bad mapper %s", st))
		}
		if op == "map" {
			return call(func() { out = r.list().Map(f) }), recv, nil
		}
		if !isHash {
			return marker("~"), recv, nil
		}
		return call(func() { out = r.hash().MapValues(f) }), recv, nil
	case "select", "reject", "selectpairs", "rejectpairs":
		p := predicate(a[1].Atom)
		if p == nil {
			panic(fmt.Errorf("bad predicate %s", st))
		}
		switch op {
		case "select":
			return call(func() { out = r.list().Select(p) }), recv, nil
		case "reject":
			return call(func() { out = r.list().Reject(p) }), recv, nil
		}
		if !isHash {
			return marker("~"), recv, nil
		}
		bp := func(k, v px.Value) bool { return p(v) }
		if op == "selectpairs" {
			return call(func() { out = r.hash().SelectPairs(bp) }), recv, nil
		}
		return call(func() { out = r.hash().RejectPairs(bp) }), recv, nil
	case "sort":
		return call(func() { out = r.list().(px.SortableList).Sort(less) }), recv, nil
	case "flatten":
		return call(func() { out = r.list().Flatten() }), recv, nil
	case "unique":
		return call(func() { out = r.list().Unique() }), recv, nil
	case "keys", "values", "entries":
		if !isHash {
			return marker("~"), recv, nil
		}
		switch op {
		case "keys":
			return call(func() { out = r.hash().Keys() }), recv, nil
		case "values":
			return call(func() { out = r.hash().Values() }), recv, nil
		}
		return call(func() { out = r.v.(px.OrderedMap).Entries() }), recv, nil
	case "ptype":
		return call(func() { _ = r.v.PType().String() }), recv, nil
	case "dtype":
		return call(func() { _ = px.DetailedValueType(r.v).String(); _ = px.GenericValueType(r.v).String() }), recv, nil
	case "tostring":
		return call(func() {
			_ = r.v.String()
			_ = px.ToString2(r.v, progCtx)
			_ = px.ToPrettyString(r.v)
			h.printWithMaps(r.v)
		}), recv, nil
	case "tokey":
		return call(func() { _ = px.ToKey(r.v) }), recv, nil
	case "walk":
		return call(func() {
			l := r.list()
			l.EachWithIndex(func(px.Value, int) {})
			l.EachSlice(2, func(s px.List) { _ = s.Len() })
			l.All(func(px.Value) bool { return true })
			l.Any(func(px.Value) bool { return false })
			l.Find(func(px.Value) bool { return false })
			l.Reduce(func(a, b px.Value) px.Value { return a })
			_ = l.AppendTo(make([]px.Value, 0, 1))
			_ = l.ElementType()
			_ = l.IsEmpty()
			l.Reduce2(px.Undef, func(a, b px.Value) px.Value { return b })
			if hh := r.hash(); hh != nil {
				hh.AllPairs(func(k, v px.Value) bool { return true })
				hh.AnyPair(func(k, v px.Value) bool { return false })
				hh.EachKey(func(px.Value) {})
				hh.EachValue(func(px.Value) {})
				hh.EachPair(func(k, v px.Value) {
					hh.IncludesKey(k)
					hh.Get2(k, px.Undef)
					hh.GetEntry(k.String())
					hh.GetEntryFold(k.String())
				})
				_ = hh.ToStringMap()
				_ = hh.AllKeysAreStrings()
				_ = hh.AppendEntriesTo(nil)
			} else if ar, ok := r.v.(*types.Array); ok {
				ar.Dig(types.WrapValues([]px.Value{types.WrapInteger(0), types.WrapInteger(0)}))
			}
			if rf, ok := r.v.(px.Reflected); ok {
				_ = safely(func() { _ = rf.Reflect(c) }) // (values without a Go counterpart may refuse)
			}
		}), recv, nil
	case "ser":
		plainData := r.kind != 'm' && plain(r.v, true)
		return call(func() {
			col := types.NewCollector()
			serialization.NewSerializer(c, richData).Convert(r.v, col)
			if plainData {
				out = col.Value()
			}
			var buf bytes.Buffer
			serialization.NewSerializer(c, richData).Convert(r.v, serialization.NewJsonStreamer(&buf))
			// the other de-duplication settings (memo table keyed by identity: off, values only, everything), each
			// guarded on its own
			for _, opt := range serializerOptions() {
				_ = safely(func() { serialization.NewSerializer(c, opt).Convert(r.v, types.NewCollector()) })
			}
		}), recv, nil
	case "deser":
		plainData := r.kind != 'm' && plain(r.v, true)
		return call(func() {
			ds := serialization.NewDeserializer(c, px.EmptyMap)
			serialization.NewSerializer(c, richData).Convert(r.v, ds)
			if v := ds.Value(); plainData {
				out = v
			}
		}), recv, nil
	case "resolve":
		if r.kind == 'm' {
			return marker("~"), recv, nil
		}
		return call(func() { out = types.ResolveDeferred(c, r.v, px.EmptyMap) }), recv, nil
	}
	panic(fmt.Errorf("bad step %s", st))
}

// ---- well-formedness of a step (the twin of `opOf` in lean/Driver/C08.lean): a malformed step makes the line bad-op ----

func isInt(s sx.Sexp) bool { _, err := s.AsInt(); return err == nil && !s.IsList }

func isNat(s sx.Sexp) bool {
	if s.IsList || s.Atom == "" {
		return false
	}
	for _, c := range s.Atom {
		if c < '0' || c > '9' {
			return false
		}
	}
	return true
}

func isVal(e sx.Sexp) bool {
	a := e.Args()
	switch e.Tag() {
	case "i":
		return len(a) == 1 && isInt(a[0])
	case "s":
		if len(a) != 1 {
			return false
		}
		b, err := a[0].AsBytes()
		return err == nil && utf8.Valid(b)
	case "u":
		return len(a) == 0
	case "e":
		return len(a) == 2 && isVal(a[0]) && isVal(a[1])
	case "a":
		for _, k := range a {
			if !isVal(k) {
				return false
			}
		}
		return true
	case "h":
		for _, kv := range a {
			if !kv.IsList || len(kv.List) != 2 || !isVal(kv.List[0]) || !isVal(kv.List[1]) {
				return false
			}
		}
		return true
	}
	return false
}

func isElem(e sx.Sexp) bool {
	if e.Tag() == "v" {
		return len(e.Args()) == 1 && isNat(e.Args()[0])
	}
	return isVal(e)
}

func wellFormed(st sx.Sexp) bool {
	if !st.IsList || st.Tag() == "" {
		return false
	}
	a := st.Args()
	shape := func(kinds ...func(sx.Sexp) bool) bool {
		if len(a) != len(kinds) {
			return false
		}
		for i, k := range kinds {
			if !k(a[i]) {
				return false
			}
		}
		return true
	}
	isFn := func(s sx.Sexp) bool { return !s.IsList && mapper(s.Atom) != nil }
	isPred := func(s sx.Sexp) bool { return !s.IsList && predicate(s.Atom) != nil }
	switch st.Tag() {
	case "lit", "parse", "tree":
		return shape(isVal)
	case "coll":
		return shape(isInt, isVal)
	case "mnew":
		return shape()
	case "add", "delete", "get":
		return shape(isInt, isElem)
	case "addall", "deleteall", "merge", "mputall", "equals":
		return shape(isInt, isInt)
	case "mput":
		return shape(isInt, isElem, isElem)
	case "slice":
		return shape(isInt, isInt, isInt)
	case "at":
		return shape(isInt, isInt)
	case "chunk":
		return shape(isInt, isInt, isInt)
	case "map", "mapvalues":
		return shape(isInt, isFn)
	case "select", "reject", "selectpairs", "rejectpairs":
		return shape(isInt, isPred)
	case "sort", "flatten", "unique", "keys", "values", "entries", "asarray", "ptype", "dtype", "tostring", "tokey", "walk", "ser", "deser", "resolve":
		return shape(isInt)
	}
	return false
}

// ---- storage shape -----------------------------------------------------------------------------------------------
//
// Which pool values share a backing array, and at which relative offset, is compared with the model as well: it is
// what the idiom table predicts (fresh result / re-slice / the receiver itself), so a wrong classification by the
// fact extractor shows as a correspondence failure even while the code is safe.  The slice header is READ through
// reflect (unexported field `elements` / `entries`; nothing is written, no pcore behaviour depends on it).  Two slices
// belong to the same array iff they end at the same address (`[i:j]` keeps the end of the capacity); capacities and
// absolute addresses are NOT printed (they depend on Go's growth policy and pre-sizing, which may change freely).

type sliceHeader struct {
	end uintptr // address just past the capacity
	rem int     // capacity = cells from the first element to `end`
	n   int
}

func headerOf(v px.Value) (h sliceHeader, ok bool) {
	defer func() {
		if recover() != nil {
			ok = false
		}
	}()
	e := reflect.ValueOf(v).Elem()
	if _, isMut := v.(*types.MutableHashValue); isMut {
		e = e.FieldByName("Hash")
	}
	f := e.FieldByName("elements")
	if !f.IsValid() {
		f = e.FieldByName("entries")
	}
	if !f.IsValid() || f.Kind() != reflect.Slice {
		return h, false
	}
	h.n = f.Len()
	h.rem = f.Cap()
	h.end = f.Pointer() + uintptr(f.Cap())*f.Type().Elem().Size()
	return h, true
}

// shape: per pool entry `-` (no value), `x` (retired mutable hash), `e` (empty), or `<array>.<offset>` with arrays
// numbered by first appearance and the offset relative to the left-most slice of that array in the pool
func (h *hist) shape() string {
	hs := make([]sliceHeader, len(h.pool))
	maxRem := map[uintptr]int{}
	for i, p := range h.pool {
		if !p.live() {
			continue
		}
		hd, ok := headerOf(p.v)
		if !ok {
			return "unreadable"
		}
		hs[i] = hd
		if hd.n > 0 && hd.rem > maxRem[hd.end] {
			maxRem[hd.end] = hd.rem
		}
	}
	ids := map[uintptr]int{}
	out := make([]string, len(h.pool))
	for i, p := range h.pool {
		switch {
		case p.v == nil:
			out[i] = "-"
		case p.dead:
			out[i] = "x"
		case hs[i].n == 0:
			out[i] = "e"
		default:
			id, seen := ids[hs[i].end]
			if !seen {
				id = len(ids)
				ids[hs[i].end] = id
			}
			out[i] = strconv.Itoa(id) + "." + strconv.Itoa(maxRem[hs[i].end]-hs[i].rem)
		}
	}
	return strings.Join(out, " ")
}

func contains(xs []int, x int) bool {
	for _, y := range xs {
		if y == x {
			return true
		}
	}
	return false
}

func exec(c px.Context, op string, steps []sx.Sexp) core.Result {
	if op == "mut" {
		return execMut(c, steps)
	}
	if op == "res" || op == "resp" {
		return execRes(c, steps, op == "resp")
	}
	if op != "hist" {
		return core.Result{Out: "bad-op", Pred: "FAIL harness-bad-op " + op}
	}
	_ = progText(px.Undef)
	h := &hist{tags: map[string]bool{}}
	fail := ""
	failClass := ""
	derived := false
	for _, st := range steps {
		if !wellFormed(st) {
			return core.Result{Out: "bad-op", Pred: "FAIL harness-bad-op " + st.String()}
		}
	}
	for n, st := range steps {
		e, recv, args := h.step(c, st)
		if e.v != nil {
			if err := safely(func() { e.cont = walk(e.v) }); err != nil {
				e.cont = "panic"
			}
			e.snap = snapshot(e.v)
			e.want = wantOf(e.v)
		}
		if e.v != nil && fail == "" {
			if mutableInside(e.v, true, 0) {
				failClass = "mutable-inside." + st.Tag()
				fail = fmt.Sprintf("step %d %s answered a value that holds a MutableHashValue (a builder that can still be changed): %s", n, st.String(), e.cont)
			}
		}
		h.uses = append(h.uses, 0)
		for _, u := range append([]int{recv}, args...) {
			if u >= 0 && u < n {
				h.uses[u]++
				if s := steps[u].Tag(); s != "lit" && s != "parse" && s != "coll" && s != "mnew" && s != "tree" {
					derived = true
				}
			}
		}
		h.pool = append(h.pool, e)
		// the caches: every live value must answer like an equal fresh value — checked for the values this step used
		// and the one it created, and for ALL values after the last step (a stale cache does not heal)
		for i := 0; i <= n && fail == ""; i++ {
			if p := h.pool[i]; p.live() && (i == n || i == recv || contains(args, i) || n == len(steps)-1) {
				if msg, stale := staleCache(p.v, p.want); stale {
					failClass = "cache-stale." + st.Tag()
					fail = fmt.Sprintf("step %d %s: value %d %s", n, st.String(), i, msg)
				}
			}
		}
		// the property, directly on the implementation: nothing obtained earlier may have changed
		for i := 0; i < n; i++ {
			p := h.pool[i]
			if !p.live() {
				continue
			}
			if now := snapshot(p.v); now != p.snap && fail == "" {
				who := "earlier-result-mutated"
				if i == recv {
					who = "receiver-mutated"
				} else if contains(args, i) {
					who = "argument-mutated"
				}
				failClass = who + "." + st.Tag()
				fail = fmt.Sprintf("step %d %s changed value %d: was %s now %s", n, st.String(), i, p.snap, now)
			}
		}
		if fail == "" && h.sideFail != "" {
			failClass, fail = h.sideClass+"."+st.Tag(), fmt.Sprintf("step %d %s: %s", n, st.String(), h.sideFail)
		}
		if fail != "" {
			// the property is already violated; operating on corrupted (possibly cyclic) values proves nothing more
			for k := n + 1; k < len(steps); k++ {
				h.pool = append(h.pool, marker("?"))
			}
			break
		}
	}
	var b strings.Builder
	for i, p := range h.pool {
		if i > 0 {
			b.WriteByte(' ')
		}
		switch {
		case p.v == nil:
			b.WriteString(p.mark)
		case p.dead:
			b.WriteString(p.cont) // a superseded mutable hash: what it held when it was superseded
		default:
			if err := safely(func() { b.WriteString(walk(p.v)) }); err != nil {
				b.WriteString("panic")
			}
		}
	}
	// storage shape; `at` hands out a nested container whose identity the (one-level) model does not track
	if h.tags["at"] || h.tags["get"] {
		b.WriteString(" | shape n/a")
	} else {
		b.WriteString(" | shape " + h.shape())
	}
	b.WriteString(" | caches ok") // (a stale cache fails the predicate above before this line is reached)
	nt := derived
	for _, u := range h.uses {
		if u >= 2 {
			nt = true
		}
	}
	tags := make([]string, 0, len(h.tags))
	for t := range h.tags {
		tags = append(tags, t)
	}
	sortStrings(tags)
	res := core.Result{Out: b.String(), Pred: "ok", NonTrivial: nt, Tags: tags}
	if fail != "" {
		res.Pred = "FAIL " + failClass + " " + strings.Replace(fail, "\t", " ", -1)
		res.NonTrivial = true
	}
	return res
}

func sortStrings(xs []string) {
	for i := 1; i < len(xs); i++ {
		for j := i; j > 0 && xs[j] < xs[j-1]; j-- {
			xs[j], xs[j-1] = xs[j-1], xs[j]
		}
	}
}

// ---- generators ---------------------------------------------------------------------------------------------------

func iv(n int64) sx.Sexp                  { return sx.T("i", sx.Int(n)) }
func sv(s string) sx.Sexp                 { return sx.T("s", sx.Str(s)) }
func av(xs ...sx.Sexp) sx.Sexp            { return sx.T("a", xs...) }
func kv(k, v sx.Sexp) sx.Sexp             { return sx.L(k, v) }
func hv(xs ...sx.Sexp) sx.Sexp            { return sx.T("h", xs...) }
func n(i int) sx.Sexp                     { return sx.Int(int64(i)) }
func st(op string, xs ...sx.Sexp) sx.Sexp { return sx.T(op, xs...) }

// the steps that may follow when the pool has `size` entries; elems = the element alphabet
// (full: 12+2·size steps per receiver; reduced, used for the deepest level of the thorough tier: 9+size)
func stepsAt(size int, elems []sx.Sexp, full bool) []sx.Sexp {
	var out []sx.Sexp
	for r := 0; r < size; r++ {
		rr := n(r)
		for _, x := range elems {
			out = append(out, st("add", rr, x))
			if full || x.String() == elems[0].String() {
				out = append(out, st("delete", rr, x))
			}
		}
		for s := 0; s < size; s++ {
			out = append(out, st("addall", rr, n(s)))
			if full {
				out = append(out, st("merge", rr, n(s)))
			}
		}
		out = append(out, st("slice", rr, n(0), n(1)), st("sort", rr), st("flatten", rr), st("unique", rr),
			st("map", rr, sx.A("inc")), st("tostring", rr))
		if full {
			out = append(out, st("slice", rr, n(1), n(2)), st("select", rr, sx.A("eq1")))
		}
	}
	return out
}

func enumerate(g *core.G, prefix []sx.Sexp, depth int, elems []sx.Sexp, full bool) {
	g.Emit("hist " + joinSteps(prefix))
	if depth == 0 {
		return
	}
	for _, s := range stepsAt(len(prefix), elems, full) {
		enumerate(g, append(prefix[:len(prefix):len(prefix)], s), depth-1, elems, full)
	}
}

func joinSteps(xs []sx.Sexp) string {
	ss := make([]string, len(xs))
	for i, x := range xs {
		ss[i] = x.String()
	}
	return strings.Join(ss, " ")
}

var strs = []string{"a", "b", "", "long string"}

func randVal(r *rand.Rand, depth int) sx.Sexp {
	switch k := r.Intn(10); {
	case k < 4:
		return iv(int64(r.Intn(4)))
	case k < 6:
		return sv(strs[r.Intn(len(strs))])
	case k < 7 && depth > 0:
		return sx.T("e", randVal(r, depth-1), randVal(r, depth-1))
	case k < 9 && depth > 0:
		return randArr(r, depth-1, r.Intn(4))
	case depth > 0:
		return randHash(r, depth-1, r.Intn(3))
	}
	return iv(int64(r.Intn(3)))
}

func randArr(r *rand.Rand, depth, n int) sx.Sexp {
	xs := make([]sx.Sexp, n)
	for i := range xs {
		xs[i] = randVal(r, depth)
	}
	return av(xs...)
}

func randHash(r *rand.Rand, depth, n int) sx.Sexp {
	var xs []sx.Sexp
	seen := map[string]bool{}
	for i := 0; i < n; i++ {
		var k sx.Sexp
		if r.Intn(2) == 0 {
			k = iv(int64(r.Intn(4)))
		} else {
			k = sv(strs[r.Intn(2)])
		}
		if seen[k.String()] {
			continue
		}
		seen[k.String()] = true
		xs = append(xs, kv(k, randVal(r, depth)))
	}
	return hv(xs...)
}

func randElem(r *rand.Rand, size int) sx.Sexp {
	if size > 0 && r.Intn(4) == 0 {
		return sx.T("v", n(r.Intn(size)))
	}
	return randVal(r, 1)
}

var fns = []string{"id", "inc", "wrap", "k1"}
var preds = []string{"all", "none", "isint", "eq1", "iscoll"}

func randCtor(r *rand.Rand) sx.Sexp {
	var v sx.Sexp
	if r.Intn(3) == 0 {
		v = randHash(r, 1, 1+r.Intn(4))
	} else {
		v = randArr(r, 1, 1+r.Intn(5))
	}
	switch r.Intn(4) {
	case 0:
		return st("lit", v)
	case 1:
		return st("parse", v)
	case 2:
		return st("coll", n(len(v.Args())+r.Intn(4)), v)
	}
	return st("coll", n(r.Intn(3)), v)
}

func randTree(r *rand.Rand) sx.Sexp {
	var items []sx.Sexp
	for i := 0; i < 1+r.Intn(4); i++ {
		var path []sx.Sexp
		for j := 0; j < 1+r.Intn(3); j++ {
			path = append(path, sv(strs[r.Intn(2)]))
		}
		items = append(items, av(av(path...), iv(int64(r.Intn(4)))))
	}
	return st("tree", av(items...))
}

// sizeBound: an upper bound on the number of nodes of the value a step creates, from the bounds of the entries it
// uses — nested sharing ((v n) elements, addall of a value to itself, map wrap) can double a value at every step, and
// walking a 2^25-node value is not what this check is about: the random generator re-draws a step above the limit
func sizeBound(b []int, s sx.Sexp) int {
	a := s.Args()
	at := func(i int) int {
		if i < len(a) {
			if n, err := a[i].AsInt(); err == nil && n >= 0 && int(n) < len(b) {
				return b[n]
			}
		}
		return 1
	}
	el := func(i int) int {
		if i < len(a) {
			if a[i].Tag() == "v" {
				if n, err := a[i].Args()[0].AsInt(); err == nil && n >= 0 && int(n) < len(b) {
					return b[n] + 1
				}
			}
			return strings.Count(a[i].String(), "(") + 1
		}
		return 1
	}
	switch s.Tag() {
	case "lit", "parse", "tree":
		return strings.Count(s.String(), "(")
	case "coll":
		return strings.Count(s.String(), "(")
	case "mnew":
		return 1
	case "add", "mput":
		return at(0) + el(1) + el(2) + 1
	case "addall", "merge", "mputall":
		return at(0) + at(1)
	case "map", "mapvalues", "asarray", "flatten":
		return 2*at(0) + 1
	}
	return at(0) + 1
}

const sizeLimit = 1500

func randHistory(r *rand.Rand, length int) []sx.Sexp {
	steps := randHistory0(r, length)
	return steps
}

func randHistory0(r *rand.Rand, length int) []sx.Sexp {
	steps := []sx.Sexp{randCtor(r), randCtor(r)}
	if r.Intn(5) == 0 {
		// a hash built by the tree constructor, its nested hashes taken out and operated on
		t := len(steps)
		steps = append(steps, randTree(r), st("get", n(t), sv("a")), st("get", n(t+1), sv("a")),
			st("mput", n(t+1), sv("z"), iv(9)), st("add", n(t+1), sx.T("e", sv("y"), iv(8))), st("delete", n(t+1), sv("a")))
	}
	if r.Intn(3) == 0 {
		// a mutable hash that is filled, sliced and merged while it keeps changing
		m := len(steps)
		steps = append(steps, st("mnew"))
		for i := 0; i < 2+r.Intn(3); i++ {
			steps = append(steps, st("mput", n(m), randVal(r, 0), randElem(r, len(steps))))
			m = len(steps) - 1
			if r.Intn(2) == 0 {
				steps = append(steps, st([]string{"slice", "keys", "values", "merge", "select", "sort", "unique", "entries", "delete", "deleteall"}[r.Intn(10)], n(m), n(0), n(1)))
				last := steps[len(steps)-1]
				switch last.Tag() {
				case "delete":
					steps[len(steps)-1] = st("delete", n(m), randVal(r, 0))
				case "deleteall":
					steps[len(steps)-1] = st("deleteall", n(m), n(r.Intn(len(steps)-1)))
				case "keys", "values", "sort", "unique", "entries":
					steps[len(steps)-1] = st(last.Tag(), n(m))
				case "merge":
					steps[len(steps)-1] = st("merge", n(m), n(m))
				case "select":
					steps[len(steps)-1] = st("select", n(m), sx.A("all"))
				}
			}
		}
	}
	var bounds []int
	for len(steps) < length {
		size := len(steps)
		// receivers: biased towards a few "hot" values so that many steps share storage
		pick := func() sx.Sexp {
			switch r.Intn(4) {
			case 0:
				return n(r.Intn(2))
			case 1:
				return n(size - 1 - r.Intn(min(size, 3)))
			}
			return n(r.Intn(size))
		}
		rr := pick()
		var s sx.Sexp
		switch k := r.Intn(40); {
		case k < 7:
			s = st("add", rr, randElem(r, size))
		case k < 10:
			s = st("addall", rr, pick())
		case k < 13:
			s = st("delete", rr, randElem(r, size))
		case k < 15:
			s = st("deleteall", rr, pick())
		case k < 19:
			i := r.Intn(4)
			s = st("slice", rr, n(i), n(i+r.Intn(3)))
		case k < 21:
			s = st("map", rr, sx.A(fns[r.Intn(len(fns))]))
		case k < 23:
			s = st([]string{"select", "reject"}[r.Intn(2)], rr, sx.A(preds[r.Intn(len(preds))]))
		case k < 25:
			s = st("sort", rr)
		case k < 27:
			s = st("flatten", rr)
		case k < 29:
			s = st("unique", rr)
		case k < 32:
			s = st("merge", rr, pick())
		case k < 33:
			s = st([]string{"keys", "values", "entries", "asarray"}[r.Intn(4)], rr)
			if r.Intn(3) == 0 {
				s = st("chunk", rr, n(1+r.Intn(3)), n(r.Intn(3)))
			}
		case k < 34:
			s = st([]string{"mapvalues", "selectpairs", "rejectpairs"}[r.Intn(3)], rr, sx.A("inc"))
			if s.Tag() != "mapvalues" {
				s = st(s.Tag(), rr, sx.A(preds[r.Intn(len(preds))]))
			}
		case k < 35:
			if r.Intn(4) == 0 {
				s = st("mputall", rr, pick())
			} else {
				s = st("mput", rr, randVal(r, 0), randElem(r, size))
			}
		case k < 36:
			if r.Intn(2) == 0 {
				s = st("get", rr, randVal(r, 0))
			} else {
				s = st("at", rr, n(r.Intn(3)))
			}
		case k < 37:
			s = randCtor(r)
		default:
			s = st([]string{"ptype", "dtype", "tostring", "tokey", "ser", "walk", "resolve", "deser"}[r.Intn(8)], rr)
			if r.Intn(6) == 0 {
				s = st("equals", rr, pick())
			}
		}
		for len(bounds) < len(steps) {
			bounds = append(bounds, sizeBound(bounds, steps[len(bounds)]))
		}
		if sizeBound(bounds, s) > sizeLimit {
			s = st("tostring", rr) // re-drawn as an observer
		}
		steps = append(steps, s)
	}
	return steps
}

func min(a, b int) int {
	if a < b {
		return a
	}
	return b
}

func gen(g *core.G) {
	// exhaustive: every history of ≤ 3 (quick) / ≤ 4 (thorough, over the first two bases) steps after a base value
	elems := []sx.Sexp{iv(1), iv(2)}
	hel := []sx.Sexp{sx.T("e", iv(1), iv(2)), iv(1)}
	bases := []struct {
		ctor  sx.Sexp
		elems []sx.Sexp
	}{
		{st("coll", n(4), av(iv(1), iv(2))), elems},                     // array with two spare cells
		{st("coll", n(3), hv(kv(iv(1), iv(1)), kv(iv(2), iv(2)))), hel}, // hash with one spare cell
		{st("parse", av(iv(2), av(iv(1)), iv(2))), elems},               // parser-built, nested, duplicate
		{st("lit", av(iv(1))), elems},                                   // exact capacity
	}
	for bi, b := range bases {
		enumerate(g, []sx.Sexp{b.ctor}, 3, b.elems, true)
		if g.Thorough() && bi < 2 {
			enumerate(g, []sx.Sexp{b.ctor}, 4, b.elems, false)
		}
	}
	// random histories of length 30 over richer values
	for i := 0; i < 1500*g.Scale; i++ {
		g.Emit("hist " + joinSteps(randHistory(g.Rng, 30)))
	}
	// malformed / inapplicable stream: dangling references, wrong kinds, out-of-range slices
	for i := 0; i < 100*g.Scale; i++ {
		hs := randHistory(g.Rng, 6)
		hs = append(hs, st("add", n(len(hs)+3), iv(1)), st("slice", n(0), n(2), n(9)), st("merge", n(0), n(1)), st("keys", n(0)))
		g.Emit("hist " + joinSteps(hs))
	}
	// the resolving operations (resolve.go)
	genRes(g)
	// a MutableHashValue as an object (mutable.go)
	genMut(g)
}
