package c08

// Op `mut`: a MutableHashValue as what it is in the code — ONE object whose storage Put/PutAll replace — together with
// the Hash methods it inherits by embedding (model: lean/Pcore/Model/ImmutMutable.lean).
//
//	C08 mut <step>*        step n creates pool entry n
//
//	(mnew)                 types.NewMutableHash()                                  entry: the builder  M<id>
//	(lit <val>)            an immutable array / hash literal
//	(put m <k> <v>)        pool[m].(*MutableHashValue).Put(k, v), k and v scalars   entry: marker -
//	(putall m s)           …PutAll(pool[s]) (s: builder, alias or hash)            entry: marker -
//	(delete r <k>) (deleteall r s) (unique r) (entries r) (keys r) (values r) (slice r i j) (merge r s)
//	                       the method of pool[r] (builder, alias or hash; called on the value itself, so a builder's own
//	                       Delete / DeleteAll / Entries / Unique are used where it has them); the entry is the answer: a
//	                       value, or — when the answer IS the embedded Hash of a live builder (pointer identity; only on a
//	                       tree without the repair /repo 1d333d3) — an alias @<id>
//
// Out = what every entry holds after the whole history.  Predicate: every entry other than a builder — everything typed
// as an immutable value — reads after every later step as it read when it was obtained; class `mutable-alias` when the
// entry is an alias of a builder (finding C08-mutable-hash-answers-itself, fixed by /repo 1d333d3), `earlier-result-mutated.<op>`
// otherwise.

import (
	"fmt"
	"math/rand"
	"strconv"
	"strings"

	"github.com/lyraproj/pcore/px"
	"github.com/lyraproj/pcore/types"

	"verif/harness/core"
	"verif/harness/sx"
)

type mentry struct {
	v     px.Value
	mark  string
	obj   int  // builder id (for a builder and for an alias), else -1
	alias bool // a *Hash that is the embedded Hash of builder `obj`
	snap  string
}

func isScalarLit(e sx.Sexp) bool {
	return (e.Tag() == "i" || e.Tag() == "s" || e.Tag() == "u") && isVal(e)
}

func mutWellFormed(st sx.Sexp) bool {
	if !st.IsList || st.Tag() == "" {
		return false
	}
	a := st.Args()
	switch st.Tag() {
	case "mnew":
		return len(a) == 0
	case "lit":
		return len(a) == 1 && isVal(a[0])
	case "put":
		return len(a) == 3 && isInt(a[0]) && isVal(a[1]) && isVal(a[2])
	case "putall", "deleteall", "merge":
		return len(a) == 2 && isInt(a[0]) && isInt(a[1])
	case "delete":
		return len(a) == 2 && isInt(a[0]) && isVal(a[1])
	case "unique", "entries", "keys", "values":
		return len(a) == 1 && isInt(a[0])
	case "slice":
		return len(a) == 3 && isInt(a[0]) && isInt(a[1]) && isInt(a[2])
	}
	return false
}

func execMut(c px.Context, steps []sx.Sexp) core.Result {
	for _, st := range steps {
		if !mutWellFormed(st) {
			return core.Result{Out: "bad-op", Pred: "FAIL harness-bad-op " + st.String()}
		}
	}
	var pool []*mentry
	var builders []*types.MutableHashValue
	tags := map[string]bool{}
	fail, failClass := "", ""
	aliasFail := ""
	at := func(s sx.Sexp) *mentry {
		n, _ := s.AsInt()
		if n < 0 || int(n) >= len(pool) {
			return nil
		}
		return pool[n]
	}
	hashLike := func(e *mentry) *types.Hash {
		if e == nil || e.v == nil {
			return nil
		}
		return hashOf(e.v)
	}
	mk := func(v px.Value) *mentry {
		e := &mentry{v: v, obj: -1}
		if h, ok := v.(*types.Hash); ok {
			for id, b := range builders {
				if hashOf(b) == h {
					e.obj, e.alias = id, true
					tags["alias"] = true
				}
			}
		}
		e.snap = snapshot(v)
		return e
	}
	marker := func(m string) *mentry { return &mentry{mark: m, obj: -1} }
	for n, st := range steps {
		a := st.Args()
		tags["mut-"+st.Tag()] = true
		var e *mentry
		var out px.Value
		call := func(f func()) *mentry {
			if err := safely(f); err != nil {
				tags["fault"] = true
				return marker("!")
			}
			if out == nil {
				return marker("-")
			}
			return mk(out)
		}
		switch st.Tag() {
		case "mnew":
			m := types.NewMutableHash()
			builders = append(builders, m)
			e = &mentry{v: m, obj: len(builders) - 1}
		case "lit":
			if (a[0].Tag() != "a" && a[0].Tag() != "h") || dupKeys(a[0]) {
				e = marker("~")
			} else {
				e = call(func() { out = valOf(a[0]) })
			}
		case "put":
			r := at(a[0])
			var m *types.MutableHashValue
			ok := false
			if r != nil && r.v != nil {
				m, ok = r.v.(*types.MutableHashValue)
			}
			if !ok || !isScalarLit(a[1]) || !isScalarLit(a[2]) {
				e = marker("~")
			} else {
				e = call(func() { m.Put(valOf(a[1]), valOf(a[2])) })
			}
		case "putall":
			r := at(a[0])
			var s px.OrderedMap
			if hashLike(at(a[1])) != nil {
				s = at(a[1]).v.(px.OrderedMap)
			}
			var m *types.MutableHashValue
			ok := false
			if r != nil && r.v != nil {
				m, ok = r.v.(*types.MutableHashValue)
			}
			if !ok || s == nil {
				e = marker("~")
			} else {
				e = call(func() { m.PutAll(s) })
			}
		default:
			if hashLike(at(a[0])) == nil {
				e = marker("~")
				break
			}
			// the method is called on the VALUE (dynamic dispatch: a MutableHashValue's own Delete / DeleteAll / Entries /
			// Unique where it has them, the promoted Hash method otherwise), never on the embedded Hash directly
			r := at(a[0]).v.(px.OrderedMap)
			switch st.Tag() {
			case "delete":
				if !isScalarLit(a[1]) {
					e = marker("~")
				} else {
					e = call(func() { out = r.Delete(valOf(a[1])) })
				}
			case "deleteall":
				s := at(a[1])
				if s == nil || s.v == nil {
					e = marker("~")
				} else {
					sl := s.v.(px.List)
					e = call(func() { out = r.DeleteAll(sl) })
				}
			case "unique":
				e = call(func() { out = r.Unique() })
			case "entries":
				e = call(func() { out = r.Entries() })
			case "keys":
				e = call(func() { out = r.Keys() })
			case "values":
				e = call(func() { out = r.Values() })
			case "slice":
				i, j := a[1].MustInt(), a[2].MustInt()
				if !inBounds(r, i, j) {
					e = marker("^")
				} else {
					e = call(func() { out = r.Slice(int(i), int(j)) })
				}
			case "merge":
				if hashLike(at(a[1])) == nil {
					e = marker("~")
				} else {
					s := at(a[1]).v.(px.OrderedMap)
					e = call(func() { out = r.Merge(s) })
				}
			}
		}
		pool = append(pool, e)
		// the property on the implementation: everything that is not a builder reads as it read when it was obtained
		for i := 0; i < n; i++ {
			p := pool[i]
			if p.v == nil || (p.obj >= 0 && !p.alias) {
				continue
			}
			if now := snapshot(p.v); now != p.snap {
				msg := fmt.Sprintf("step %d %s changed value %d: was %s now %s", n, st.String(), i, p.snap, now)
				if p.alias {
					if aliasFail == "" {
						aliasFail = fmt.Sprintf("value %d, answered by %s on a MutableHashValue and typed %T, is the builder itself: ", i, steps[i].Tag(), p.v) + msg
					}
				} else if fail == "" {
					failClass, fail = "earlier-result-mutated."+st.Tag(), msg
				}
				p.snap = now // report each change once
			}
		}
	}
	var b strings.Builder
	for i, p := range pool {
		if i > 0 {
			b.WriteByte(' ')
		}
		switch {
		case p.v == nil:
			b.WriteString(p.mark)
		case p.alias:
			b.WriteString("@" + strconv.Itoa(p.obj) + walk(p.v))
		case p.obj >= 0:
			b.WriteString("M" + strconv.Itoa(p.obj) + walk(p.v))
		default:
			b.WriteString(walk(p.v))
		}
	}
	tl := make([]string, 0, len(tags))
	for t := range tags {
		tl = append(tl, t)
	}
	sortStrings(tl)
	res := core.Result{Out: b.String(), Pred: "ok", NonTrivial: tags["mut-put"] || tags["mut-putall"], Tags: tl}
	if fail == "" && aliasFail != "" {
		failClass, fail = "mutable-alias", aliasFail
	}
	if fail != "" {
		res.Pred = "FAIL " + failClass + " " + strings.Replace(fail, "\t", " ", -1)
		res.NonTrivial = true
	}
	return res
}

// ---- generator ------------------------------------------------------------------------------------------------------

func mutStepsAt(size int, full bool) []sx.Sexp {
	out := []sx.Sexp{st("put", n(0), sv("b"), iv(2)), st("put", n(0), sv("a"), iv(3))}
	for r := 0; r < size; r++ {
		if !full && r != 0 && r != size-1 {
			continue
		}
		rr := n(r)
		out = append(out, st("delete", rr, sv("z")), st("unique", rr), st("keys", rr), st("slice", rr, n(0), n(1)))
		if full {
			out = append(out, st("delete", rr, sv("a")), st("entries", rr), st("values", rr), st("deleteall", rr, n(2)),
				st("merge", rr, n(0)), st("putall", n(0), rr))
		}
	}
	return out
}

func mutEnumerate(g *core.G, prefix []sx.Sexp, depth int, fullDepth int) {
	g.Emit("mut " + joinSteps(prefix))
	if depth == 0 {
		return
	}
	for _, s := range mutStepsAt(len(prefix), fullDepth > 0) {
		mutEnumerate(g, append(prefix[:len(prefix):len(prefix)], s), depth-1, fullDepth-1)
	}
}

func randMutHistory(r *rand.Rand, length int) []sx.Sexp {
	steps := []sx.Sexp{st("mnew"), st("put", n(0), sv("a"), iv(1))}
	if r.Intn(2) == 0 {
		steps = append(steps, st("lit", randHash(r, 0, 1+r.Intn(3))))
	} else {
		steps = append(steps, st("mnew"))
	}
	key := func() sx.Sexp {
		if r.Intn(3) == 0 {
			return iv(int64(r.Intn(3)))
		}
		return sv(strs[r.Intn(3)])
	}
	for len(steps) < length {
		size := len(steps)
		rr := n(r.Intn(size))
		if r.Intn(3) == 0 {
			rr = n(0)
		}
		switch k := r.Intn(16); {
		case k < 4:
			steps = append(steps, st("put", rr, key(), iv(int64(r.Intn(4)))))
		case k < 5:
			steps = append(steps, st("putall", rr, n(r.Intn(size))))
		case k < 7:
			steps = append(steps, st("delete", rr, key()))
		case k < 8:
			steps = append(steps, st("deleteall", rr, n(r.Intn(size))))
		case k < 10:
			steps = append(steps, st("unique", rr))
		case k < 11:
			steps = append(steps, st("entries", rr))
		case k < 12:
			steps = append(steps, st([]string{"keys", "values"}[r.Intn(2)], rr))
		case k < 14:
			i := r.Intn(3)
			steps = append(steps, st("slice", rr, n(i), n(i+r.Intn(3))))
		case k < 15:
			steps = append(steps, st("merge", rr, n(r.Intn(size))))
		default:
			steps = append(steps, st("lit", randHash(r, 0, r.Intn(3))))
		}
	}
	return steps
}

func genMut(g *core.G) {
	base := []sx.Sexp{st("mnew"), st("put", n(0), sv("a"), iv(1)), st("lit", hv(kv(sv("a"), iv(7)), kv(sv("c"), iv(8))))}
	if g.Thorough() {
		mutEnumerate(g, base, 4, 3)
	} else {
		mutEnumerate(g, base, 3, 2)
	}
	for i := 0; i < 400*g.Scale; i++ {
		g.Emit("mut " + joinSteps(randMutHistory(g.Rng, 12)))
	}
	// inapplicable stream: Put on something that is not a builder, dangling indices, a non-scalar key, slice bounds
	g.Emit("mut " + joinSteps([]sx.Sexp{st("mnew"), st("unique", n(0)), st("put", n(1), sv("a"), iv(1)), st("put", n(7), sv("a"), iv(1)),
		st("put", n(0), av(iv(1)), iv(1)), st("slice", n(0), n(1), n(3)), st("keys", n(2)), st("lit", iv(3)), st("merge", n(0), n(5))}))
}
