// Package c04: inferred types contain their values; common type and generalisation are bounds (property C04).
//
// ops (model + implementation, syntax in harness/lat/doc.go):
//
//	ptype V        T       V.PType()                    predicate: inst (ptype V) V
//	dtype V        T       px.DetailedValueType(V)      predicate: inst (dtype V) V, and it never panics
//	common A B     T       px.CommonType(A, B)          predicate: asg (common A B) A ∧ asg (common A B) B
//	gen T          T       px.Generalize(T)             predicate: asg (gen T) T
//	infer T V      <inst T V> <asg T (dtype V)>         predicates: asg ⇒ inst; inst ⇒ asg when V has no undef-valued hash
//	                                                    entry and T is inside the reference fragment (no Iterable)
//
// '@' lines (implementation only): malformed terms, second-tier tests `t2-ptype`, `t2-gen`, `t2-common`, `t2-infer`.
package c04

import (
	"github.com/lyraproj/pcore/types"
	"verif/harness/core"
	"verif/harness/lat"
	"verif/harness/sx"

	"github.com/lyraproj/pcore/px"
)

func init() {
	core.Register(&core.Prop{
		ID: "C04",
		Rule: "distinct op lines; `ptype`/`dtype`: non-trivial when V is an array, a hash, a Sensitive or a type; `common`/`gen`: when a " +
			"type argument is not nullary; `infer`: when inst T V or asg T (dtype V) answers true",
		Gen:  gen,
		Exec: exec,
	})
}

func hasUndefEntry(v lat.Val) bool {
	return lat.ValContains(v, func(x lat.Val) bool {
		for _, e := range x.Es {
			if e.V.K == "undef" {
				return true
			}
		}
		return false
	})
}

func hasKind(v lat.Val, k string) bool {
	return lat.ValContains(v, func(x lat.Val) bool { return x.K == k })
}

// genNotBound: the generalisation of u rejects u.
func genNotBound(env *lat.Env) func(lat.Ty) bool {
	return func(u lat.Ty) bool {
		t, err := env.BuildCtor(u)
		if err != nil {
			return false
		}
		bad := false
		lat.Safely(func() { bad = !px.IsAssignable(px.Generalize(t), t) })
		return bad
	}
}

// incomplete: x is an instance of u, has no undef-valued entry, and u rejects the detailed type of x.
// foldedHash: a hash whose detailed type is a Hash type built by folding commonType over its entries (a key that is not a
// string, or the empty string) rather than a Struct
func foldedHash(x lat.Val) bool {
	if x.K != "h" {
		return false
	}
	for _, e := range x.Es {
		if e.K.K != "s" || e.K.S == "" {
			return true
		}
	}
	return false
}

func incomplete(env *lat.Env) func(lat.Ty, lat.Val) bool {
	return func(u lat.Ty, x lat.Val) bool {
		if hasUndefEntry(x) || lat.ContainsK(u, "iter") {
			return false
		}
		t, err := env.BuildCtor(u)
		if err != nil {
			return false
		}
		v, err := env.BuildVal(x)
		if err != nil {
			return false
		}
		bad := false
		lat.Safely(func() { bad = px.IsInstance(t, v) && !px.IsAssignable(t, px.DetailedValueType(v)) })
		return bad
	}
}

// emptyKeyCulprit: the smallest sub-value of x that is not an instance of its own detailed type is a hash keyed by strings
// only with the empty string among them (exactly the class excluded by theorem C04_dtype, hypothesis NoEmptyKey: its
// detailed type is a commonType fold over the detailed Struct / Hash types of its entries) and that type holds a Struct
// (commonType picked it through the exempt Struct-from-Hash rule)
func emptyKeyCulprit(env *lat.Env, x lat.Val) bool {
	bad := func(y lat.Val) bool {
		v, err := env.BuildVal(y)
		if err != nil {
			return false
		}
		r := false
		lat.Safely(func() { r = !px.IsInstance(px.DetailedValueType(v), v) })
		return r
	}
	for depth := 0; depth < 32; depth++ {
		var kids []lat.Val
		kids = append(kids, x.Vs...)
		for _, e := range x.Es {
			kids = append(kids, e.K, e.V)
		}
		found := false
		for _, k := range kids {
			if bad(k) {
				x, found = k, true
				break
			}
		}
		if !found {
			break
		}
	}
	if x.K != "h" || len(x.Es) == 0 {
		return false
	}
	empty := false
	for _, e := range x.Es {
		if e.K.K != "s" {
			return false
		}
		if e.K.S == "" {
			empty = true
		}
	}
	if !empty {
		return false
	}
	// the mechanism: among the values of the entries there are x and y whose detailed types are a Struct S and a Hash type H
	// with S accepting H (the exempt rule: an all-optional Struct accepts ANY Hash type of fitting size) although y is not an
	// instance of S — the commonType fold then forgets H
	var vals []px.Value
	for _, e := range x.Es {
		v, err := env.BuildVal(e.V)
		if err != nil {
			return false
		}
		vals = append(vals, v)
	}
	found := false
	lat.Safely(func() {
		for _, sv := range vals {
			st, ok := px.DetailedValueType(sv).(*types.StructType)
			if !ok {
				continue
			}
			for _, hv := range vals {
				ht, ok := px.DetailedValueType(hv).(*types.HashType)
				if ok && px.IsAssignable(st, ht) && !px.IsInstance(st, hv) {
					found = true
				}
			}
		}
	})
	return found
}

func exec(c px.Context, op string, args []sx.Sexp) core.Result {
	if res, ok := lat.ExecTier2(c, op, args); ok {
		return res
	}
	switch op {
	case "ptype", "dtype", "common", "gen", "infer":
	default:
		return core.Result{Out: "bad-op", Pred: "FAIL harness-bad-op " + op}
	}
	r := lat.Exec(c, op, args)
	if res, ok := r.Generic(); ok {
		return res
	}
	if r.Status == "fault" {
		return r.Fault(op + "-panic")
	}
	switch op {
	case "ptype", "dtype":
		v := r.V[0]
		nt := v.K == "a" || v.K == "h" || v.K == "sv" || v.K == "t"
		ok, f := lat.SafeInst(r.Live, r.LV[0])
		if f != nil {
			return r.Result("FAIL panic IsInstance of the inferred type", true)
		}
		// the same question of a FRESH value (no inferred type cached yet): the answer must not depend on hidden state of the value
		if fresh, err := r.Env.BuildVal(v); err == nil {
			if ok2, f2 := lat.SafeInst(r.Live, fresh); f2 == nil && ok2 != ok {
				return r.Result("FAIL inst-depends-on-cache the inferred type has the value it was inferred from as an instance: "+sx.B(ok)+", a fresh copy of the value: "+sx.B(ok2), true)
			}
		}
		if !ok {
			class := op + "-not-inst"
			if op == "dtype" && emptyKeyCulprit(r.Env, v) {
				class = "dtype-not-inst-emptykey-sfh"
			}
			return r.Result("FAIL "+class+" the value is not an instance of its inferred type "+r.Out, true)
		}
		return r.Result("ok", nt)
	case "common":
		a, b := r.A[0], r.A[1]
		ca, f1 := lat.SafeAsg(r.Live, a.C)
		cb, f2 := lat.SafeAsg(r.Live, b.C)
		if f1 != nil || f2 != nil {
			return r.Result("FAIL panic assignability of the common type", true)
		}
		if !ca || !cb {
			if lat.UnitUnsafe(a.Ty) || lat.UnitUnsafe(b.Ty) {
				// known finding C04-common-unit: Unit is two-way assignable by definition (the exclusion of C01 / C03), so a type
				// that holds Unit accepts and is accepted by everything and the fold of commonType passes through it
				return r.Result("FAIL common-not-bound-unit the common type "+r.Out+" accepts its arguments: "+sx.B(ca)+" "+sx.B(cb), true)
			}
			stringy := func(t lat.Ty) bool {
				return lat.ContainsK(t, "struct") || lat.ContainsK(t, "enum") || lat.ContainsK(t, "pat")
			}
			if lat.ContainsK(r.Res, "iter") && (stringy(a.Ty) || stringy(b.Ty)) {
				// Iterable has no rule for Struct / Enum / Pattern (known finding C03-trans-iterable) seen through commonType
				return r.Result("FAIL common-not-bound-iterable the common type "+r.Out+" accepts its arguments: "+sx.B(ca)+" "+sx.B(cb), true)
			}
			return r.Result("FAIL common-not-bound-"+lat.Head(a.Ty)+"-"+lat.Head(b.Ty)+" the common type "+r.Out+" accepts its arguments: "+sx.B(ca)+" "+sx.B(cb), true)
		}
		return r.Result("ok", !lat.Nullary(a.Ty) || !lat.Nullary(b.Ty))
	case "gen":
		ok, f := lat.SafeAsg(r.Live, r.A[0].C)
		if f != nil {
			return r.Result("FAIL panic assignability of the generalised type", true)
		}
		if !ok {
			return r.Result("FAIL gen-not-bound-"+lat.Culprit(r.A[0].Ty, genNotBound(r.Env))+" the generalisation "+r.Out+" rejects the type", true)
		}
		return r.Result("ok", !lat.Nullary(r.A[0].Ty))
	default: // infer
		t, v := r.A[0].Ty, r.V[0]
		inst, acc := r.B[0], r.B[1]
		nt := inst || acc
		if acc && !inst {
			if lat.UnitUnsafe(t) {
				return r.Result("n/a", nt) // C01 excludes Unit
			}
			class := "accepts-unsound-" + lat.Head(t)
			switch {
			case lat.ContainsK(t, "struct") && hasKind(v, "h"):
				class = "accepts-unsound-sfh" // through the exempt rule Struct ⊒ Hash
			case lat.ContainsK(t, "iter") && hasKind(v, "binv"):
				class = "accepts-unsound-binary"
			case lat.ContainsK(t, "iter"):
				class = "accepts-unsound-iterable"
			}
			return r.Result("FAIL "+class+" T accepts the detailed type of V but V is not an instance of T", true)
		}
		if inst && !acc && !hasUndefEntry(v) && !lat.ContainsK(t, "iter") {
			ct, cv := lat.CulpritPairOf(t, v, incomplete(r.Env))
			class := lat.Head(ct)
			if (class == "rdata" || class == "data") && foldedHash(cv) {
				// the cause is the value, not the alias: the detailed type of a hash with a non-string or empty-string key is a
				// commonType fold (finding C04-incomplete-hash), which the Hash member of Data / RichData rejects like any Hash type
				class = "hash"
			}
			return r.Result("FAIL accepts-incomplete-"+class+" V is an instance of T but T rejects the detailed type of V", true)
		}
		return r.Result("ok", nt)
	}
}

func gen(g *core.G) {
	lg := &lat.Gen{R: g.Rng, Call: true}
	u1, u2 := lat.Universe(1), lat.Universe(2)
	vals := lat.ValUniverse()
	pick := func(ts []lat.Ty) lat.Ty { return ts[g.Rng.Intn(len(ts))] }
	s := func(t lat.Ty) string { return t.String() }

	// ---- (1) the exhaustive small universe -------------------------------------------------------------------
	for _, v := range vals {
		g.Emit("ptype " + v.String())
		g.Emit("dtype " + v.String())
	}
	for _, t := range u2 {
		g.Emit("gen " + s(t))
	}
	if g.Thorough() {
		for _, a := range u1 {
			for _, b := range u1 {
				g.Emit("common " + s(a) + " " + s(b))
			}
		}
	} else {
		for _, a := range u1 {
			for i := 0; i < 10; i++ {
				g.Emit("common " + s(a) + " " + s(pick(u1)))
			}
		}
	}
	for _, t := range u1 {
		for _, v := range vals {
			if g.Thorough() || g.Rng.Intn(len(vals)) < 8 {
				g.Emit("infer " + s(t) + " " + v.String())
			}
		}
	}
	for _, t := range u2[len(u1):] {
		if w, ok := lg.Witness(t); ok {
			g.Emit("infer " + s(t) + " " + w.String())
		}
	}
	// the positional universe (Tuple / Array types with declared types shorter than, equal to and longer than their sizes):
	// the third and fourth law against the arrays that tell them apart, commonType on every pair
	pos := lat.Positional(g.Thorough())
	for _, t := range pos {
		for _, v := range lat.PositionalVals() {
			g.Emit("infer " + s(t) + " " + v.String())
		}
		for _, u := range pos {
			g.Emit("common " + s(t) + " " + s(u))
		}
	}

	// the case family: commonType of every pair (the Enum / String['x'] merges with case-insensitive Enums), generalisation, the third and
	// fourth law against every spelling
	for _, a := range lat.CaseFamily() {
		g.Emit("gen " + s(a))
		for _, b := range lat.CaseFamily() {
			g.Emit("common " + s(a) + " " + s(b))
		}
		for _, w := range lat.CaseFamilyStrings() {
			g.Emit("infer " + s(a) + " " + lat.VS(w).String())
		}
	}
	// the Callable types: generalisation of each, commonType of a sample of the pairs
	for _, a := range lat.CallableUniverse() {
		g.Emit("gen " + s(a))
		for _, b := range lat.CallableUniverse() {
			if g.Thorough() || g.Rng.Intn(10) == 0 {
				g.Emit("common " + s(a) + " " + s(b))
			}
		}
	}
	// the Runtime types: generalisation of each, commonType of every pair
	for _, a := range lat.RuntimeUniverse() {
		g.Emit("gen " + s(a))
		for _, b := range lat.RuntimeUniverse() {
			g.Emit("common " + s(a) + " " + s(b))
		}
	}

	// ---- (2) structured random cases ---------------------------------------------------------------------------------
	for i := 0; i < 5000*g.Scale; i++ { // values: nested, heterogeneous, permuted, types and objects as elements
		v := lg.Val(1 + g.Rng.Intn(3))
		g.Emit("ptype " + v.String())
		g.Emit("dtype " + v.String())
		if i%3 == 0 {
			m := lg.MutateVal(v)
			g.Emit("ptype " + m.String())
			g.Emit("dtype " + m.String())
		}
	}
	for i := 0; i < 5000*g.Scale; i++ { // T against its own witnesses and their mutations
		lg.Alias = i%6 == 0
		t := lg.Ty(1 + g.Rng.Intn(3))
		w, ok := lg.Witness(t)
		if !ok {
			w = lg.Val(2)
		}
		g.Emit("infer " + s(t) + " " + w.String())
		if i%2 == 0 {
			g.Emit("infer " + s(t) + " " + lg.MutateVal(w).String())
		}
		if i%5 == 0 {
			g.Emit("infer " + s(lg.Widen(t)) + " " + w.String())
		}
	}
	for i := 0; i < 3500*g.Scale; i++ { // common type of related pairs, the wider one second on purpose
		// no alias wrappers here: CommonType and Generalize do not look through a user alias (it is returned / merged as an
		// opaque type), and the model has no alias constructor — the expansion would be compared with the unexpanded answer
		lg.Alias = false
		a := lg.Ty(1 + g.Rng.Intn(3))
		var b lat.Ty
		switch i % 4 {
		case 0, 1:
			b = lg.Widen(a) // strictly wider second argument
		case 2:
			b = lg.Narrow(a)
		default:
			b = lg.Ty(1 + g.Rng.Intn(2))
		}
		g.Emit("common " + s(a) + " " + s(b))
		if i%2 == 0 {
			g.Emit("common " + s(b) + " " + s(a))
		}
	}
	for i := 0; i < 2500*g.Scale; i++ {
		lg.Alias = false
		g.Emit("gen " + s(lg.Ty(1+g.Rng.Intn(4))))
	}

	// ---- (2a) chains built on purpose (lat/chains.go) as arguments of commonType — related pairs through the aliases, Structs, Iterable —
	// and types that hold Unit below the top: a failure there must be classified as the known finding C04-common-unit (class
	// common-not-bound-unit), never as anything else
	lg.Alias, lg.NoUnit = false, true
	chains := append(append(lg.AliasChains(400*g.Scale), lg.StructChains(300*g.Scale)...), lg.IterChains(300*g.Scale)...)
	for i, tr := range chains {
		g.Emit("common " + s(tr.B) + " " + s(tr.A))
		g.Emit("common " + s(tr.C) + " " + s(tr.B))
		if i%2 == 0 {
			g.Emit("common " + s(tr.A) + " " + s(tr.C))
		}
		g.Emit("gen " + s(tr.B))
		if w, ok := lg.Witness(tr.C); ok {
			g.Emit("infer " + s(tr.A) + " " + w.String())
		}
	}
	units := lg.UnitNested(600 * g.Scale)
	for i, t := range units {
		g.Emit("gen " + s(t))
		o := lg.Ty(1 + g.Rng.Intn(2))
		switch i % 4 {
		case 0:
			o = units[(i*7+3)%len(units)]
		case 1:
			o = lg.Narrow(t)
		}
		g.Emit("common " + s(t) + " " + s(o))
		g.Emit("common " + s(o) + " " + s(t))
		// the shape of the recorded witness: two Tuples, a Unit-holding member in one slot
		g.Emit("common " + s(lat.Tup([]lat.Ty{lg.Leaf(), lg.Leaf()})) + " " + s(lat.Tup([]lat.Ty{t, lg.Leaf()})))
	}
	lg.NoUnit = false

	// ---- (3) malformed stream (implementation only) ----------------------------------------------------------------
	odd := []string{"(int 2 1)", "(var str)", "(struct (x f str))", "(obj 3)", "(enum t x41)", "(arr any 3 1)"}
	for i := 0; i < 200; i++ {
		x := odd[i%len(odd)]
		g.Emit("@gen " + x)
		g.Emit("@common " + x + " " + s(lg.Ty(1)))
		g.Emit("@ptype (a (t " + x + "))")
	}
	// ---- (2'') types given as TEXT in every parameter form of the creators: generalisation and common type of what they denote
	spells := lg.Spellings(px.CurrentContext(), 200*g.Scale)
	for i, sc := range spells {
		ta := lat.Txt(sc.Text).String()
		g.Emit("gen " + ta)
		o := spells[(i*7+3)%len(spells)]
		g.Emit("common " + ta + " " + lat.Txt(o.Text).String())
		if w, ok := lg.Witness(sc.Ty); ok {
			g.Emit("infer " + ta + " " + w.String())
		}
	}

	lat.GenTier2(g.Emit, g.Rng, "C04")
}
