package c10

// builtin (implementation only): instances of the object types pcore implements in Go — Parameter, TypedName, Deferred
// — are "object instances" in the sense of the property like any instance of a user-defined type, but their
// Equals / InitHash / constructors are hand-written Go, not the generic attribute-slice code the modelled `o` nodes exercise.
// Each is sent through the serializer under the given options / capabilities (recorded stream fed to the real deserializer,
// and the serializer wired directly to the deserializer); what comes back must be equal to the original in both receiver
// orders.  Found: Parameter.Equals compared pointers (fixed in /repo 7cec7b6, witness in corpus/C10/builtin.ops).

import (
	"fmt"

	"github.com/lyraproj/pcore/px"
	"github.com/lyraproj/pcore/serialization"
	"github.com/lyraproj/pcore/types"
	"verif/harness/core"
	"verif/harness/sx"
)

// (a bare Pcore::StructElement cannot be serialized at all: known finding C10-struct-type-with-object-member, no attribute
// reader - it is exercised there, not here)
var builtinKinds = []string{"param", "tname", "deferred"}

const builtinVariants = 12
const builtinShapes = 5

func builtinValue(c px.Context, which string, n int) px.Value {
	tys := []px.Type{types.DefaultStringType(), c.ParseType("Integer[0, 9]"), c.ParseType("Optional[Array[String]]"),
		c.ParseType("Variant[Integer, Enum['a', 'b']]")}
	vals := []px.Value{nil, px.Undef, types.WrapInteger(int64(n)), types.WrapString("a value long enough to be de-duplicated"),
		types.WrapValues([]px.Value{types.WrapInteger(1), types.WrapString("x")}),
		types.WrapHash([]*types.HashEntry{types.WrapHashEntry2("k", types.WrapFloat(1.5))})}
	switch which {
	case "param":
		return px.NewParameter(fmt.Sprintf("p%d", n%3), tys[n%len(tys)], vals[n%len(vals)], n%5 == 4)
	case "tname":
		ns := []px.Namespace{px.NsType, px.NsFunction, px.NsConstructor, px.NsAllocator, px.NsDefinition}
		names := []string{"A", "My::Type", "my::type", "Deep::Er::Name"}
		return px.NewTypedName(ns[n%len(ns)], names[n%len(names)])
	case "deferred":
		args := []px.Value{}
		for i := 0; i < n%3; i++ {
			if v := vals[(n+i)%len(vals)]; v != nil {
				args = append(args, v)
			}
		}
		if n%4 == 3 {
			args = append(args, types.NewDeferred("$inner", types.WrapString("k")))
		}
		name := []string{"$x", "fn", "some::fn"}[n%3]
		return types.NewDeferred(name, args...)
	case "selem":
		var key px.Value = types.WrapString(fmt.Sprintf("m%d", n%3))
		if n%2 == 1 {
			key = types.NewOptionalType(c.ParseType(fmt.Sprintf("String['m%d']", n%3)))
		}
		return types.NewStructElement(key, tys[n%len(tys)])
	}
	bad("builtin kind")
	return nil
}

func builtinShape(c px.Context, which string, n, shape int) px.Value {
	v := builtinValue(c, which, n)
	switch shape {
	case 0:
		return v
	case 1: // the same instance twice: the second is a back-reference when de-duplication is on
		return types.WrapValues([]px.Value{v, v})
	case 2: // two separately built equal instances and a different one
		return types.WrapValues([]px.Value{v, builtinValue(c, which, n), builtinValue(c, which, n+1)})
	case 3:
		return types.WrapHash([]*types.HashEntry{types.WrapHashEntry2("first", v), types.WrapHashEntry2("again", v)})
	case 4:
		return types.WrapValues([]px.Value{types.WrapSensitive(v), types.WrapValues([]px.Value{v})})
	}
	bad("builtin shape")
	return nil
}

func builtin(c px.Context, which string, n, shape int, o opts, cp caps) core.Result {
	tags := []string{"builtin:" + which}
	fail := func(class, detail string) core.Result {
		r := core.Fail("builtin", class, detail)
		r.Tags = tags
		return r
	}
	var v px.Value
	if err := safely(func() { v = builtinShape(c, which, n, shape) }); err != nil {
		bad("cannot build value: %v", err)
	}
	if !o.rich {
		// without rich data an object instance is emitted as its string form by specification: no round trip is promised
		return core.Result{Out: "n/a", Pred: "n/a", Tags: tags}
	}
	same := func(a, b px.Value) (eq bool, err interface{}) {
		err = safely(func() { eq = px.Equals(normalize(a), normalize(b), nil) && px.Equals(normalize(b), normalize(a), nil) })
		return
	}
	// 1. recorded stream -> deserializer
	rec := newRecorder(cp.bin, cp.cplx, int(cp.thr))
	if err := safely(func() { serialization.NewSerializer(c, serOptions(o)).Convert(v, rec) }); err != nil {
		return fail("builtin-ser-panic", which+": "+oneLine(err))
	}
	if len(rec.stack) != 1 || len(rec.stack[0]) != 1 {
		return fail("builtin-ser-shape", fmt.Sprintf("Convert emitted %d top-level events", len(rec.stack[0])))
	}
	var back px.Value
	if err := safely(func() {
		ds := serialization.NewDeserializer(c, px.EmptyMap)
		feed(rec.stack[0][0], ds)
		back = ds.Value()
	}); err != nil {
		return fail("builtin-deser-panic", which+": "+oneLine(err))
	}
	if eq, err := same(v, back); err != nil {
		return fail("builtin-roundtrip", which+": comparison panicked: "+oneLine(err))
	} else if !eq {
		return fail("builtin-roundtrip-"+which, fmt.Sprintf("%s comes back as %s, which is not equal to it", v.String(), back.String()))
	}
	// 2. serializer wired to the deserializer (its own capabilities)
	var back2 px.Value
	if err := safely(func() {
		ds := serialization.NewDeserializer(c, px.EmptyMap)
		serialization.NewSerializer(c, serOptions(o)).Convert(v, ds)
		back2 = ds.Value()
	}); err != nil {
		return fail("builtin-direct-panic", which+": "+oneLine(err))
	}
	if eq, err := same(v, back2); err != nil || !eq {
		return fail("builtin-roundtrip-"+which, fmt.Sprintf("%s comes back (direct) as %s, which is not equal to it", v.String(), back2.String()))
	}
	// the printed forms agree as well (an equal value that prints differently would not survive print/parse)
	if v.String() != back.String() {
		return fail("builtin-print-"+which, fmt.Sprintf("%s comes back printing %s", v.String(), back.String()))
	}
	return core.Result{Out: "ok", Pred: "ok", NonTrivial: true, Tags: tags}
}

func emitBuiltins(g *core.G) {
	for _, k := range builtinKinds {
		for n := 0; n < builtinVariants; n++ {
			for shape := 0; shape < builtinShapes; shape++ {
				// a slice of the option x capability matrix: every option combination, two capability corners, two thresholds
				for _, lref := range []bool{true, false} {
					for dedup := 0; dedup <= 2; dedup++ {
						caps := [][3]string{{"t", "t", "0"}, {"f", "f", "20"}}
						if g.Thorough() {
							caps = append(caps, [3]string{"t", "f", "1"}, [3]string{"f", "t", "1000000"})
						}
						for _, cp := range caps {
							g.Emit(fmt.Sprintf("@builtin %s %d %d (o t %s %d) (c %s %s %s)", k, n, shape, sx.B(lref), dedup, cp[0], cp[1], cp[2]))
						}
					}
				}
			}
		}
		g.Emit(fmt.Sprintf("@builtin %s 0 0 (o f t 2) (c t t 0)", k))
	}
}
