// Package c10: rich-data serialization round trip (property C10).
//
// op (model + implementation):
//
//	ser <opts> <caps> <val>
//	    opts  (o RICH LOCALREF DEDUP)      rich_data t|f, local_reference t|f, dedup_level 0..2
//	    caps  (c BIN CPLX THR)             consumer: CanDoBinary, CanDoComplexKeys, StringDedupThreshold
//	    val   the value, a tree with object identities (a DAG written in pre-order; the first
//	          occurrence of an id defines the object, `(= ID)` uses the same object again):
//	            (u) (df) (b t|f) (i N) (f BITS) (s xHEX)
//	            (x ID xBYTES)               *types.Binary
//	            (l ID KIND xENC xDISP)      leaf: rx sv svr ts tm uri ty; ENC = SerializationString(), DISP = String()
//	            (sn ID v)                   *types.Sensitive
//	            (a ID v*)                   *types.Array
//	            (h ID (k v)*)               *types.Hash
//	            (o ID xTYPE xDISP (xATTR v)*)   instance of an object type of the catalogue (Verif::Pair/Box/Unit); the
//	                                        attributes are the entries of its init hash, in order
//	            (tdef ID xTEXT xDISP init)  an object type definition that no loader knows; init = its init hash as a value
//	                                        (what the model serializes: an instance of Pcore::ObjectType)
//	            (tdefx ID xTEXT xDISP)      the same when the init hash cannot be written in this syntax (implementation only)
//	            (rt ID xTEXT)               *types.RuntimeValue wrapping a Go struct that prints as &{TEXT} (implementation only)
//	            (= ID)
//	          the TYPE of an `o` node may also be the text of an Object definition that no loader knows (implementation only);
//	          the TEXT of a tdefx node may be `alias NAME = TYPE`: an alias definition that no loader knows
//	          leaf kind td = a named type the loader knows (alias Verif::Ints, object types of the catalogue)
//	    Out:  <event tree> | <deserialized value, ids renumbered by first occurrence>     (or `| err`)
//	            events: (u) (b t) (i N) (f BITS) (s xHEX) (x xHEX) (r N) (a e*) (h e*)
//
// implementation-only ops: @codec KIND xSRC (a leaf codec on its own, held to the canonical source text), @builtin (builtin.go),
// @unbuildable xVALUE (written by the generator in place of a value of its catalogue that pcore refuses to build: always a FAIL).
//
// The direct predicate (evaluated on the implementation only) is described at `judge`.
package c10

import (
	"context"
	"fmt"
	"math"
	"strconv"
	"strings"
	"time"

	"verif/harness/core"
	"verif/harness/sx"

	"github.com/lyraproj/issue/issue"
	"github.com/lyraproj/pcore/pcore"
	"github.com/lyraproj/pcore/px"
	"github.com/lyraproj/pcore/serialization"
	"github.com/lyraproj/pcore/types"
	"github.com/lyraproj/semver/semver"
)

func init() {
	core.Register(&core.Prop{
		ID:   "C10",
		Rule: "distinct op lines (value x options x capabilities); non-trivial = the value holds a container, a rich leaf, or a string long enough to be de-duplicated",
		Gen:  gen,
		Exec: exec,
	})
}

// ---- values ---------------------------------------------------------------------------------------------

type node struct {
	kind  string // u df b i f s x l sn a h =
	id    int64
	b     bool
	i     int64
	f     uint64
	s     string   // s: text; x: bytes; l: enc
	disp  string   // l
	lk    string   // l: leaf kind
	kids  []*node  // sn: 1; a: elements; h: k v k v …; o: attribute values
	names []string // o: attribute names
	init  *node    // tdef: the type's init hash as a value tree (what the model serializes), nil = not expressible
}

type badOp struct{ msg string }

func bad(format string, a ...interface{}) { panic(badOp{fmt.Sprintf(format, a...)}) }

// "tx": a type that cannot be written as a type string (it holds an Object type): it travels as an instance of its meta
// type, attribute by attribute — outside the model, judged by the round trip on the implementation
var leafKinds = []string{"rx", "sv", "svr", "ts", "tm", "uri", "ty", "td", "tx"}

func isLeafKind(k string) bool {
	for _, x := range leafKinds {
		if x == k {
			return true
		}
	}
	return false
}

// parse reads the value syntax; `defined` tracks the ids seen so far (pre-order)
func parse(e sx.Sexp, defined map[int64]*node, open map[int64]bool) *node {
	tag := e.Tag()
	a := e.Args()
	need := func(n int) {
		if len(a) != n {
			bad("arity of %s", e)
		}
	}
	id := func() int64 {
		if len(a) < 1 {
			bad("missing id in %s", e)
		}
		n, err := a[0].AsInt()
		if err != nil || n < 0 {
			bad("bad id in %s", e)
		}
		if _, dup := defined[n]; dup || open[n] {
			bad("id %d defined twice", n)
		}
		return n
	}
	str := func(x sx.Sexp) string {
		b, err := x.AsBytes()
		if err != nil {
			bad("bad string %s", x)
		}
		return string(b)
	}
	switch tag {
	case "u":
		need(0)
		return &node{kind: "u"}
	case "df":
		need(0)
		return &node{kind: "df"}
	case "b":
		need(1)
		if a[0].IsList || (a[0].Atom != "t" && a[0].Atom != "f") {
			bad("bad bool")
		}
		return &node{kind: "b", b: a[0].Atom == "t"}
	case "i":
		need(1)
		n, err := a[0].AsInt()
		if err != nil {
			bad("bad int")
		}
		return &node{kind: "i", i: n}
	case "f":
		need(1)
		u, err := strconv.ParseUint(a[0].Atom, 10, 64)
		if err != nil || a[0].IsList {
			bad("bad float bits")
		}
		return &node{kind: "f", f: u}
	case "s":
		need(1)
		return &node{kind: "s", s: str(a[0])}
	case "x":
		need(2)
		n := &node{kind: "x", id: id(), s: str(a[1])}
		defined[n.id] = n
		return n
	case "rt":
		need(2)
		n := &node{kind: "rt", id: id(), s: str(a[1])}
		defined[n.id] = n
		return n
	case "l":
		need(4)
		n := &node{kind: "l", id: id(), lk: a[1].Atom, s: str(a[2]), disp: str(a[3])}
		if a[1].IsList || !isLeafKind(n.lk) {
			bad("bad leaf kind")
		}
		defined[n.id] = n
		return n
	case "sn":
		need(2)
		n := &node{kind: "sn", id: id()}
		open[n.id] = true
		n.kids = []*node{parse(a[1], defined, open)}
		delete(open, n.id)
		defined[n.id] = n
		return n
	case "a":
		n := &node{kind: "a", id: id()}
		open[n.id] = true
		for _, k := range a[1:] {
			n.kids = append(n.kids, parse(k, defined, open))
		}
		delete(open, n.id)
		defined[n.id] = n
		return n
	case "h":
		n := &node{kind: "h", id: id()}
		open[n.id] = true
		for _, kv := range a[1:] {
			if !kv.IsList || len(kv.List) != 2 {
				bad("bad hash entry")
			}
			n.kids = append(n.kids, parse(kv.List[0], defined, open), parse(kv.List[1], defined, open))
		}
		delete(open, n.id)
		defined[n.id] = n
		return n
	case "o":
		if len(a) < 3 {
			bad("arity of %s", e)
		}
		n := &node{kind: "o", id: id(), s: str(a[1]), disp: str(a[2])}
		open[n.id] = true
		for _, kv := range a[3:] {
			if !kv.IsList || len(kv.List) != 2 {
				bad("bad attribute")
			}
			n.names = append(n.names, str(kv.List[0]))
			n.kids = append(n.kids, parse(kv.List[1], defined, open))
		}
		delete(open, n.id)
		defined[n.id] = n
		return n
	case "tdef", "tdefx":
		// tdef carries the init hash for the model; tdefx (implementation only) does not
		if (tag == "tdef" && len(a) != 4) || (tag == "tdefx" && len(a) != 3) {
			bad("arity of %s", e)
		}
		n := &node{kind: "tdef", id: id(), s: str(a[1]), disp: str(a[2])}
		if len(a) == 4 {
			// the init hash of the type, for the model; it gets its own identities (never shared with the rest)
			n.init = parse(a[3], map[int64]*node{}, map[int64]bool{})
			if n.init.kind != "h" {
				bad("init hash of a type definition")
			}
		}
		defined[n.id] = n
		return n
	case "=":
		need(1)
		r, err := a[0].AsInt()
		if err != nil {
			bad("bad ref")
		}
		d, ok := defined[r]
		if !ok {
			bad("use of undefined id %d", r)
		}
		return d // the very same node: sharing
	}
	bad("bad value %s", e)
	return nil
}

// build makes the px.Value; one Go object per node (memoised by *node), types interned by text
type builder struct {
	c     px.Context
	memo  map[*node]px.Value
	types map[string]px.Value
}

func (b *builder) build(n *node) px.Value {
	if v, ok := b.memo[n]; ok {
		return v
	}
	var v px.Value
	switch n.kind {
	case "u":
		return px.Undef
	case "df":
		return types.WrapDefault()
	case "b":
		return types.WrapBoolean(n.b)
	case "i":
		return types.WrapInteger(n.i)
	case "f":
		return types.WrapFloat(math.Float64frombits(n.f))
	case "s":
		return types.WrapString(n.s)
	case "x":
		v = types.WrapBinary([]byte(n.s))
	case "l":
		v = b.leaf(n.lk, n.s)
	case "sn":
		v = types.WrapSensitive(b.build(n.kids[0]))
	case "a":
		es := make([]px.Value, len(n.kids))
		for i, k := range n.kids {
			es[i] = b.build(k)
		}
		v = types.WrapValues(es)
	case "h":
		es := make([]*types.HashEntry, 0, len(n.kids)/2)
		for i := 0; i+1 < len(n.kids); i += 2 {
			es = append(es, types.WrapHashEntry(b.build(n.kids[i]), b.build(n.kids[i+1])))
		}
		v = types.WrapHash(es)
	case "o":
		// the type: a name of the catalogue, or the text of a definition no loader knows (interned by text, so that the
		// instances of one definition and a `tdef` node with the same text hold ONE type object)
		t, ok := b.typeOf(n.s).(px.ObjectType)
		if !ok {
			bad("not an object type: %s", n.s)
		}
		attrs := t.AttributesInfo().Attributes()
		if len(n.kids) > len(attrs) {
			bad("too many attributes")
		}
		// always through the named-argument constructor: a single positional argument that happens to be a hash matching
		// the init struct would be taken for the init hash (constructor ambiguity, not this property's business)
		es := make([]*types.HashEntry, len(n.kids))
		at := 0
		for i, k := range n.kids {
			if freshObj(n) {
				// an instance of a definition (implementation only): any attributes, in the order of the type
				for at < len(attrs) && attrs[at].Name() != n.names[i] {
					at++
				}
				if at == len(attrs) {
					bad("attribute %s out of order", n.names[i])
				}
				at++
			} else if attrs[i].Name() != n.names[i] {
				bad("attribute %s out of order", n.names[i])
			}
			es[i] = types.WrapHashEntry2(n.names[i], b.build(k))
		}
		if len(es) == 0 {
			v = px.New(b.c, t)
		} else {
			v = px.New(b.c, t, types.WrapHash(es))
		}
	case "tdef":
		v = b.typeOf(n.s)
	case "rt":
		v = types.WrapRuntime(&rtBox{n.s})
	default:
		bad("cannot build %s", n.kind)
	}
	b.memo[n] = v
	return v
}

// leaf builds a leaf value from its serialization string (the inverse codec is pcore's own constructor where a
// simple public one exists)
func (b *builder) leaf(kind, enc string) px.Value {
	switch kind {
	case "rx":
		return types.WrapRegexp(enc)
	case "sv":
		return types.WrapSemVer(semver.MustParseVersion(enc))
	case "svr":
		return types.WrapSemVerRange(semver.MustParseVersionRange(enc))
	case "ts":
		// the serialized form of a Timespan is the default format [-]D-HH:MM:SS.F (read here by the harness's own parser)
		d, ok := parseSpan(enc)
		if !ok {
			bad("timespan payload")
		}
		return types.WrapTimespan(d)
	case "tm":
		return types.ParseTimestamp(enc, types.DefaultTimestampFormats, "")
	case "uri":
		return types.WrapURI2(enc)
	case "ty", "td", "tx":
		return b.typeOf(enc)
	}
	bad("leaf kind %s", kind)
	return nil
}

// typeOf: one type object per text.  `alias NAME = TYPE` (the harness's own notation) is a type alias that no loader
// knows: it travels as an instance of Pcore::TypeAlias and is registered by the deserializer
func (b *builder) typeOf(text string) px.Value {
	if t, ok := b.types[text]; ok {
		return t
	}
	var t px.Value
	if strings.HasPrefix(text, aliasPrefix) {
		parts := strings.SplitN(text[len(aliasPrefix):], " = ", 2)
		if len(parts) != 2 {
			bad("alias definition %s", text)
		}
		t = types.NewTypeAliasType(parts[0], nil, b.typeOf(parts[1]).(px.Type))
	} else {
		t = b.c.ParseType(text)
	}
	b.types[text] = t
	return t
}

const aliasPrefix = "alias "

// rtBox: what a RuntimeValue of the harness wraps; the serializer turns a RuntimeValue into the string fmt prints for
// the wrapped Go value (`%v`), with a warning: rtText is the harness's own statement of that text
type rtBox struct{ S string }

func rtText(s string) string { return "&{" + s + "}" }

// freshObj: an `o` node whose type is written as a definition (no loader knows it) rather than a catalogue name
func freshObj(n *node) bool { return n.kind == "o" && strings.HasPrefix(n.s, "Object[") }

// fmtSpan / parseSpan: the harness's own reading of the default Timespan format %D-%H:%M:%S.%-N (independent of pcore's)
func fmtSpan(d time.Duration) string {
	sign := ""
	n := int64(d)
	if n < 0 {
		sign, n = "-", -n
	}
	frac := strings.TrimRight(fmt.Sprintf("%09d", n%1000000000), "0")
	if frac == "" {
		frac = "0"
	}
	sec := n / 1000000000
	return fmt.Sprintf("%s%d-%02d:%02d:%02d.%s", sign, sec/86400, sec/3600%24, sec/60%60, sec%60, frac)
}

func parseSpan(s string) (time.Duration, bool) {
	neg := strings.HasPrefix(s, "-")
	if neg {
		s = s[1:]
	}
	var d, h, m, sec int64
	var frac string
	if n, err := fmt.Sscanf(s, "%d-%d:%d:%d.%s", &d, &h, &m, &sec, &frac); err != nil || n != 5 || len(frac) > 9 {
		return 0, false
	}
	f, err := strconv.ParseInt(frac+strings.Repeat("0", 9-len(frac)), 10, 64)
	if err != nil {
		return 0, false
	}
	n := (((d*24+h)*60+m)*60+sec)*1000000000 + f
	if neg {
		n = -n
	}
	r := time.Duration(n)
	return r, fmtSpan(r) == map[bool]string{true: "-", false: ""}[neg]+s
}

// ---- events ---------------------------------------------------------------------------------------------

type ev struct {
	kind string // u b i f s x r a h ?
	b    bool
	i    int64
	f    uint64
	s    string
	kids []*ev
	val  px.Value // the value handed to Add
}

func (e *ev) write(sb *strings.Builder) {
	switch e.kind {
	case "u":
		sb.WriteString("(u)")
	case "b":
		sb.WriteString("(b " + sx.B(e.b) + ")")
	case "i":
		sb.WriteString("(i " + strconv.FormatInt(e.i, 10) + ")")
	case "f":
		sb.WriteString("(f " + strconv.FormatUint(e.f, 10) + ")")
	case "s":
		sb.WriteString("(s " + sx.Str(e.s).Atom + ")")
	case "x":
		sb.WriteString("(x " + sx.Str(e.s).Atom + ")")
	case "?":
		sb.WriteString("(? " + sx.Str(e.s).Atom + ")")
	case "r":
		sb.WriteString("(r " + strconv.FormatInt(e.i, 10) + ")")
	default:
		sb.WriteString("(" + e.kind)
		for _, k := range e.kids {
			sb.WriteByte(' ')
			k.write(sb)
		}
		sb.WriteByte(')')
	}
}

func (e *ev) String() string {
	var sb strings.Builder
	e.write(&sb)
	return sb.String()
}

// recorder is the configurable px.ValueConsumer placed between serializer and deserializer
type recorder struct {
	bin, cplx bool
	thr       int
	stack     [][]*ev
}

func newRecorder(bin, cplx bool, thr int) *recorder {
	return &recorder{bin: bin, cplx: cplx, thr: thr, stack: [][]*ev{nil}}
}
func (r *recorder) CanDoBinary() bool         { return r.bin }
func (r *recorder) CanDoComplexKeys() bool    { return r.cplx }
func (r *recorder) StringDedupThreshold() int { return r.thr }
func (r *recorder) add(e *ev)                 { t := len(r.stack) - 1; r.stack[t] = append(r.stack[t], e) }
func (r *recorder) AddRef(ref int)            { r.add(&ev{kind: "r", i: int64(ref)}) }
func (r *recorder) nest(kind string, doer px.Doer) {
	r.stack = append(r.stack, nil)
	doer()
	t := len(r.stack) - 1
	kids := r.stack[t]
	r.stack = r.stack[:t]
	r.add(&ev{kind: kind, kids: kids})
}
func (r *recorder) AddArray(n int, doer px.Doer) { r.nest("a", doer) }
func (r *recorder) AddHash(n int, doer px.Doer)  { r.nest("h", doer) }
func (r *recorder) Add(v px.Value) {
	switch t := v.(type) {
	case px.Integer:
		r.add(&ev{kind: "i", i: t.Int(), val: v})
	case px.Float:
		r.add(&ev{kind: "f", f: math.Float64bits(t.Float()), val: v})
	case px.StringValue:
		r.add(&ev{kind: "s", s: t.String(), val: v})
	case px.Boolean:
		r.add(&ev{kind: "b", b: t.Bool(), val: v})
	case *types.Binary:
		r.add(&ev{kind: "x", s: string(t.Bytes()), val: v})
	case *types.UndefValue:
		r.add(&ev{kind: "u", val: v})
	default:
		s := "nil"
		if v != nil {
			s = fmt.Sprintf("%T", v)
		}
		r.add(&ev{kind: "?", s: s, val: v})
	}
}

func feed(e *ev, c px.ValueConsumer) {
	switch e.kind {
	case "r":
		c.AddRef(int(e.i))
	case "a":
		c.AddArray(len(e.kids), func() {
			for _, k := range e.kids {
				feed(k, c)
			}
		})
	case "h":
		c.AddHash(len(e.kids)/2, func() {
			for _, k := range e.kids {
				feed(k, c)
			}
		})
	default:
		c.Add(e.val)
	}
}

// ---- stream laws ------------------------------------------------------------------------------------------

type laws struct {
	pos      int   // positions consumed so far (Add / AddArray / AddHash; AddRef consumes none)
	byPos    []*ev // expanded event at each position (nil while the container is still open)
	dangling string
	oddHash  bool
	binary   bool
	nonData  string
	cplxKey  string
}

// expand walks the stream in emission order, checks the positional laws and returns the stream with every
// back-reference replaced by (the expansion of) the event at the position it names
func (l *laws) expand(e *ev, isKey bool) *ev {
	if isKey && e.kind != "s" && l.cplxKey == "" {
		l.cplxKey = e.String()
	}
	switch e.kind {
	case "r":
		if e.i < 0 || int(e.i) >= l.pos {
			if l.dangling == "" {
				l.dangling = fmt.Sprintf("ref %d emitted when only %d positions existed", e.i, l.pos)
			}
			return e
		}
		t := l.byPos[e.i]
		if t == nil {
			if l.dangling == "" {
				l.dangling = fmt.Sprintf("ref %d names a container that is still open", e.i)
			}
			return e
		}
		return t
	case "a", "h":
		p := l.pos
		l.pos++
		l.byPos = append(l.byPos, nil)
		if e.kind == "h" && len(e.kids)%2 != 0 {
			l.oddHash = true
		}
		x := &ev{kind: e.kind}
		for i, k := range e.kids {
			x.kids = append(x.kids, l.expand(k, e.kind == "h" && i%2 == 0))
		}
		l.byPos[p] = x
		return x
	case "x":
		l.binary = true
	case "?":
		if l.nonData == "" {
			l.nonData = e.s
		}
	}
	l.pos++
	l.byPos = append(l.byPos, e)
	return e
}

func hasKeyEv(e *ev, key string) bool {
	if e.kind == "h" {
		for i := 0; i < len(e.kids); i += 2 {
			if e.kids[i].kind == "s" && e.kids[i].s == key {
				return true
			}
		}
	}
	for _, k := range e.kids {
		if hasKeyEv(k, key) {
			return true
		}
	}
	return false
}

// ---- the original value: classification -------------------------------------------------------------------

type facts struct {
	kinds      map[string]bool
	isData     bool       // undef, bool, int, float, string, arrays and string-keyed hashes of those
	isDataBin  bool       // … allowing Binary too (it is handed over as it is to a consumer that can do binary)
	reserved   bool       // a hash whose keys are all strings and that has the key __ptype: re-interpreted by the deserializer
	ptHashes   [][]string // key kinds of every hash that has the key __ptype
	ptypeStr   bool       // the string __ptype occurs as a hash key somewhere
	shared     bool       // some identified object or de-dupable string occurs twice
	nonStrKey  bool
	containers int
	implOnly   bool // holds something the model does not cover
	hasDefs    bool // holds a type definition no loader knows, or an instance of one
}

func classify(n *node, f *facts, seen map[*node]bool, strs map[string]int) {
	f.kinds[n.kind] = true
	if n.kind == "l" {
		f.kinds["l:"+n.lk] = true
	}
	if n.kind == "s" {
		strs[n.s]++
		if strs[n.s] > 1 {
			f.shared = true
		}
	}
	if (n.kind == "tdef" && n.init == nil) || (n.kind == "l" && n.lk == "tx") || n.kind == "rt" || freshObj(n) {
		f.implOnly = true
	}
	if n.kind == "tdef" || freshObj(n) {
		f.hasDefs = true
	}
	if n.kind == "o" || n.kind == "tdef" || n.kind == "rt" {
		f.isData = false
		f.isDataBin = false
	}
	if n.id >= 0 && (n.kind == "rt" || n.kind == "x" || n.kind == "l" || n.kind == "sn" || n.kind == "a" || n.kind == "h" || n.kind == "o" || n.kind == "tdef") {
		if seen[n] {
			f.shared = true
			return
		}
		seen[n] = true
	}
	switch n.kind {
	case "x":
		f.isData = false
	case "l", "sn", "df":
		f.isData = false
		f.isDataBin = false
	case "a":
		f.containers++
	case "h":
		f.containers++
		all := true
		pt := false
		for i := 0; i < len(n.kids); i += 2 {
			if n.kids[i].kind != "s" {
				all = false
				f.nonStrKey = true
			} else if n.kids[i].s == serialization.PcoreTypeKey {
				pt = true
				f.ptypeStr = true
			}
		}
		if !all {
			f.isData = false
			f.isDataBin = false
		}
		if all && pt {
			f.reserved = true
		}
		if pt {
			var ks []string
			for i := 0; i < len(n.kids); i += 2 {
				ks = append(ks, n.kids[i].kind)
			}
			f.ptHashes = append(f.ptHashes, ks)
		}
	}
	for _, k := range n.kids {
		classify(k, f, seen, strs)
	}
}

// ---- result printing ----------------------------------------------------------------------------------------

type printer struct {
	ids   map[interface{}]int
	sb    strings.Builder
	fresh func(px.ObjectType) bool // is this object type unknown to the loaders the op started with?
	anon  bool
}

func (p *printer) ident(v px.Value) (int, bool) {
	if n, ok := p.ids[v]; ok {
		return n, true
	}
	n := len(p.ids)
	p.ids[v] = n
	return n, false
}

func (p *printer) print(v px.Value) {
	w := func(s string) { p.sb.WriteString(s) }
	labelled := func(tag string) bool {
		if p.anon {
			// inside a type definition nothing is printed with an identity (the init hash is rebuilt on every call)
			w("(" + tag + " -")
			return true
		}
		n, seen := p.ident(v)
		if seen {
			w("(= " + strconv.Itoa(n) + ")")
			return false
		}
		w("(" + tag + " " + strconv.Itoa(n))
		return true
	}
	leaf := func(kind string, ident bool, enc string) {
		if ident && !p.anon {
			if labelled("l") {
				w(" " + kind + " " + sx.Str(enc).Atom + ")")
			}
			return
		}
		w("(l - " + kind + " " + sx.Str(enc).Atom + ")")
	}
	switch t := v.(type) {
	case nil:
		w("(nil)")
	case *types.UndefValue:
		w("(u)")
	case *types.DefaultValue:
		w("(df)")
	case px.Boolean:
		w("(b " + sx.B(t.Bool()) + ")")
	case px.Integer:
		w("(i " + strconv.FormatInt(t.Int(), 10) + ")")
	case px.Float:
		w("(f " + strconv.FormatUint(math.Float64bits(t.Float()), 10) + ")")
	case px.StringValue:
		w("(s " + sx.Str(t.String()).Atom + ")")
	case *types.Binary:
		w("(x " + sx.Str(string(t.Bytes())).Atom + ")")
	case *types.Sensitive:
		if labelled("sn") {
			w(" ")
			p.print(t.Unwrap())
			w(")")
		}
	case *types.Array:
		if labelled("a") {
			t.Each(func(e px.Value) { w(" "); p.print(e) })
			w(")")
		}
	case *types.Hash:
		if labelled("h") {
			t.EachPair(func(k, e px.Value) { w(" ("); p.print(k); w(" "); p.print(e); w(")") })
			w(")")
		}
	case *types.Regexp:
		leaf("rx", true, encOf(t))
	case *types.SemVer:
		leaf("sv", true, encOf(t))
	case *types.SemVerRange:
		leaf("svr", true, encOf(t))
	case types.Timespan:
		leaf("ts", false, encOf(t))
	case *types.Timestamp:
		leaf("tm", true, encOf(t))
	case *types.UriValue:
		leaf("uri", true, encOf(t))
	case px.Type:
		if ot, ok := t.(px.ObjectType); ok && p.fresh != nil && p.fresh(ot) {
			// an object type no loader knew before this op: it travelled as a Pcore::ObjectType instance
			w("(o - " + sx.Str("Pcore::ObjectType").Atom)
			was := p.anon
			p.anon = true
			ot.(px.PuppetObject).InitHash().EachPair(func(k, e px.Value) { w(" (" + sx.Str(k.String()).Atom + " "); p.print(e); w(")") })
			p.anon = was
			w(")")
			return
		}
		leaf("ty", false, t.String())
	case px.PuppetObject:
		if labelled("o") {
			w(" " + sx.Str(t.PType().Name()).Atom)
			t.InitHash().EachPair(func(k, e px.Value) { w(" (" + sx.Str(k.String()).Atom + " "); p.print(e); w(")") })
			w(")")
		}
	default:
		w("(? " + sx.Str(fmt.Sprintf("%T", v)).Atom + ")")
	}
}

// encOf is SerializationString() where the value has one (public API only: the interface, not the concrete method)
func encOf(v px.Value) string {
	if ss, ok := v.(px.SerializeAsString); ok && ss.CanSerializeAsString() {
		return ss.SerializationString()
	}
	return "!" + v.String()
}

// normalize replaces every Sensitive by a marker array holding its content so that px.Equals compares
// Sensitive values by what they wrap (the property's reading of equality)
func normalize(v px.Value) px.Value {
	switch t := v.(type) {
	case *types.RuntimeValue:
		// by specification a RuntimeValue is emitted as the text of the wrapped Go value (with a warning)
		if box, ok := t.Interface().(*rtBox); ok {
			return types.WrapString(rtText(box.S))
		}
	case types.Timespan:
		// Timespan.Equals compares whole seconds; the round trip is held to the exact duration
		return types.WrapValues([]px.Value{types.WrapString("\x00timespan"), types.WrapInteger(int64(t.Duration()))})
	case *types.Sensitive:
		return types.WrapValues([]px.Value{types.WrapString("\x00sensitive"), normalize(t.Unwrap())})
	case *types.Array:
		es := make([]px.Value, 0, t.Len())
		t.Each(func(e px.Value) { es = append(es, normalize(e)) })
		return types.WrapValues(es)
	case *types.Hash:
		es := make([]*types.HashEntry, 0, t.Len())
		t.EachPair(func(k, e px.Value) { es = append(es, types.WrapHashEntry(normalize(k), normalize(e))) })
		return types.WrapHash(es)
	case px.Type:
		return v
	case px.PuppetObject:
		if ot, ok := t.PType().(px.ObjectType); ok {
			es := []*types.HashEntry{}
			t.InitHash().EachPair(func(k, e px.Value) { es = append(es, types.WrapHashEntry(k, normalize(e))) })
			if len(es) == 0 {
				return v
			}
			return px.New(px.CurrentContext(), ot, types.WrapHash(es))
		}
	}
	return v
}

// ---- exec -------------------------------------------------------------------------------------------------

type nullLogger struct{}

func (nullLogger) Log(level px.LogLevel, args ...px.Value)                    {}
func (nullLogger) Logf(level px.LogLevel, format string, args ...interface{}) {}
func (nullLogger) LogIssue(i issue.Reported)                                  {}

// the object types and the alias every op may use (added once to the worker's loader)
var catalogue = []string{
	`Object[{name => 'Verif::Pair', attributes => {a => Any, b => Any}}]`,
	`Object[{name => 'Verif::Box', attributes => {v => {type => Any, value => undef}}}]`,
	`Object[{name => 'Verif::Unit'}]`,
	`Object[{name => 'Verif::P', type_parameters => {p => Integer}, attributes => {a => Integer, p => {type => Optional[Integer], value => undef}}}]`,
}

func ensureCatalogue(c px.Context) {
	if _, ok := px.Load(c, px.NewTypedName(px.NsType, "Verif::Pair")); ok {
		return
	}
	ts := []px.Type{}
	for _, t := range catalogue {
		ts = append(ts, c.ParseType(t))
	}
	ts = append(ts, types.NewTypeAliasType("Verif::Ints", nil, c.ParseType("Array[Integer]")))
	px.AddTypes(c, ts...)
}

func safely(f func()) (err interface{}) {
	defer func() {
		if e := recover(); e != nil {
			if b, ok := e.(badOp); ok {
				panic(b)
			}
			err = e
		}
	}()
	f()
	return nil
}

type opts struct {
	rich, lref bool
	dedup      int64
}
type caps struct {
	bin, cplx bool
	thr       int64
}

func parseOpts(e sx.Sexp) opts {
	a := e.Args()
	if e.Tag() != "o" || len(a) != 3 {
		bad("opts")
	}
	d := a[2].MustInt()
	if d < 0 || d > 2 {
		bad("dedup level")
	}
	return opts{a[0].MustBool(), a[1].MustBool(), d}
}

func parseCaps(e sx.Sexp) caps {
	a := e.Args()
	if e.Tag() != "c" || len(a) != 3 {
		bad("caps")
	}
	t := a[2].MustInt()
	if t < 0 {
		bad("threshold")
	}
	return caps{a[0].MustBool(), a[1].MustBool(), t}
}

func serOptions(o opts) px.OrderedMap {
	return types.WrapHash([]*types.HashEntry{
		types.WrapHashEntry2("rich_data", types.WrapBoolean(o.rich)),
		types.WrapHashEntry2("local_reference", types.WrapBoolean(o.lref)),
		types.WrapHashEntry2("dedup_level", types.WrapInteger(o.dedup)),
	})
}

func exec(c px.Context, op string, args []sx.Sexp) (res core.Result) {
	defer func() {
		if e := recover(); e != nil {
			if b, ok := e.(badOp); ok {
				_ = b
				// a malformed op line: the model answers bad-op too; outside the property's quantifier
				res = core.Result{Out: "bad-op", Pred: "n/a"}
				return
			}
			panic(e)
		}
	}()
	if op == "unbuildable" && len(args) == 1 {
		// emitted by the generator in place of a value of its catalogue that pcore refused to build
		return core.Fail("unbuildable", "gen-unbuildable", "pcore cannot build "+args[0].MustStr())
	}
	if op == "codec" && len(args) == 2 {
		ensureCatalogue(c)
		q := pcore.WithParent(context.Background(), px.NewParentedLoader(c.Loader()), nullLogger{}, c.ImplementationRegistry())
		px.DoWithContext(q, func(ctx px.Context) { res = codec(ctx, args[0].Atom, args[1].MustStr()) })
		return res
	}
	if op == "builtin" && len(args) == 5 {
		ensureCatalogue(c)
		n, e1 := args[1].AsInt()
		shape, e2 := args[2].AsInt()
		if e1 != nil || e2 != nil {
			bad("builtin indices")
		}
		q := pcore.WithParent(context.Background(), px.NewParentedLoader(c.Loader()), nullLogger{}, c.ImplementationRegistry())
		px.DoWithContext(q, func(ctx px.Context) {
			res = builtin(ctx, args[0].Atom, int(n), int(shape), parseOpts(args[3]), parseCaps(args[4]))
		})
		return res
	}
	if op == "span" && len(args) == 1 {
		// the Timespan codec against its model: decode the text the way the deserializer does, print it back
		src := args[0].MustStr()
		out := "err"
		var back px.Value
		if err := safely(func() { back = px.New(c, c.ParseType("Timespan"), types.WrapString(src)) }); err == nil {
			if ts, ok := back.(types.Timespan); ok {
				out = sx.Str(ts.SerializationString()).Atom
				// direct predicate: the printed form is the harness's own reading of the default format, and is a fixpoint
				if want := fmtSpan(ts.Duration()); ts.SerializationString() != want {
					return core.Fail(out, "codec-ts", fmt.Sprintf("%q decodes to %v, printed %q (expected %q)", src, ts.Duration(), ts.SerializationString(), want))
				}
			}
		}
		return core.Result{Out: out, Pred: "ok", NonTrivial: out != "err", Tags: []string{"span"}}
	}
	if op != "ser" || len(args) != 3 {
		return core.Result{Out: "bad-op", Pred: "FAIL harness-bad-op " + op}
	}
	ensureCatalogue(c)
	parentCtx = c
	// a fresh defining loader per op: type definitions that arrive in a stream are registered there and nowhere else
	quiet := pcore.WithParent(context.Background(), px.NewParentedLoader(c.Loader()), nullLogger{}, c.ImplementationRegistry())
	px.DoWithContext(quiet, func(ctx px.Context) { res = ser(ctx, parseOpts(args[0]), parseCaps(args[1]), args[2]) })
	return res
}

// freshType: an object type is fresh when the worker's own loader (the parent of the per-op loader) cannot load it
func freshType(parent px.Context) func(px.ObjectType) bool {
	return func(t px.ObjectType) bool {
		if t.Name() == "" {
			return true
		}
		_, ok := px.Load(parent, px.NewTypedName(px.NsType, t.Name()))
		return !ok
	}
}

var parentCtx px.Context

// valueNode renders a px.Value (the init hash of a type definition) as a value tree; ok=false when it holds something
// the op syntax cannot say
func valueNode(v px.Value, next *int64, fresh func(px.ObjectType) bool) (n *node, ok bool) {
	id := func() int64 { *next++; return *next }
	switch t := v.(type) {
	case *types.UndefValue:
		return &node{kind: "u"}, true
	case *types.DefaultValue:
		return &node{kind: "df"}, true
	case px.Boolean:
		return &node{kind: "b", b: t.Bool()}, true
	case px.Integer:
		return &node{kind: "i", i: t.Int()}, true
	case px.Float:
		return &node{kind: "f", f: math.Float64bits(t.Float())}, true
	case px.StringValue:
		return &node{kind: "s", s: t.String()}, true
	case *types.Array:
		n = &node{kind: "a", id: id()}
		ok = true
		t.Each(func(e px.Value) {
			k, o := valueNode(e, next, fresh)
			ok = ok && o
			n.kids = append(n.kids, k)
		})
		return n, ok
	case *types.Hash:
		n = &node{kind: "h", id: id()}
		ok = true
		t.EachPair(func(k, e px.Value) {
			kn, o1 := valueNode(k, next, fresh)
			en, o2 := valueNode(e, next, fresh)
			ok = ok && o1 && o2
			n.kids = append(n.kids, kn, en)
		})
		return n, ok
	case px.Type:
		if ot, isObj := t.(px.ObjectType); isObj && fresh(ot) {
			return nil, false // a nested fresh definition: not expressed
		}
		if _, isAlias := t.(*types.TypeAliasType); isAlias {
			return &node{kind: "l", id: id(), lk: "td", s: t.String(), disp: t.String()}, true
		}
		if _, isObj := t.(px.ObjectType); isObj {
			return &node{kind: "l", id: id(), lk: "td", s: t.String(), disp: t.String()}, true
		}
		if ss, isS := t.(px.SerializeAsString); isS && ss.CanSerializeAsString() {
			return &node{kind: "l", id: id(), lk: "ty", s: t.String(), disp: t.String()}, true
		}
	}
	return nil, false
}

func ser(c px.Context, o opts, cp caps, vs sx.Sexp) core.Result {
	root := parse(vs, map[int64]*node{}, map[int64]bool{})
	f := &facts{kinds: map[string]bool{}, isData: true, isDataBin: true}
	classify(root, f, map[*node]bool{}, map[string]int{})
	tags := []string{}
	for k := range f.kinds {
		tags = append(tags, "k:"+k)
	}
	if f.shared {
		tags = append(tags, "shared")
	}
	if f.nonStrKey {
		tags = append(tags, "nonstr-key")
	}
	if f.reserved {
		tags = append(tags, "reserved-key")
	}
	nt := f.containers > 0 || !f.isData
	done := func(out, pred string) core.Result {
		return core.Result{Out: out, Pred: pred, NonTrivial: nt, Tags: tags}
	}
	fail := func(out, class, detail string) core.Result {
		r := core.Fail(out, class, detail)
		r.Tags = tags
		return r
	}

	// build the value (leaf constructors are pcore's: a failure here is a malformed op, not a finding)
	var v px.Value
	bld := &builder{c: c, memo: map[*node]px.Value{}, types: map[string]px.Value{}}
	if err := safely(func() { v = bld.build(root) }); err != nil {
		bad("cannot build value: %v", err)
	}
	// the abstract payloads the model works with must be what the real codecs print
	for n, lv := range bld.memo {
		if n.kind == "tdef" && n.init != nil {
			// the init hash written in the op (what the model serializes) must be the type's own
			var sb1, sb2 strings.Builder
			n.init.write(&sb1, map[*node]bool{})
			next := 1000 * (n.id + 1) // the identity range of this definition's init hash (gen.go finish)
			if ot, ok := lv.(px.ObjectType); ok {
				if mine, ok := valueNode(ot.(px.PuppetObject).InitHash(), &next, freshType(parentCtx)); ok {
					mine.write(&sb2, map[*node]bool{})
				}
			}
			if sb1.String() != sb2.String() {
				bad("init hash of the type definition differs: %s / %s", sb1.String(), sb2.String())
			}
		}
		if n.kind == "o" {
			if d := lv.String(); d != n.disp {
				return fail("leaf-codec", "leaf-codec", fmt.Sprintf("object prints %q (expected %q)", d, n.disp))
			}
		}
		if n.kind == "l" {
			enc, disp := "", ""
			if err := safely(func() {
				enc = n.s
				// a leaf without SerializeAsString is serialized some other way: the round trip decides
				if ss, ok := lv.(px.SerializeAsString); ok && ss.CanSerializeAsString() {
					enc = ss.SerializationString()
				}
				disp = lv.String()
			}); err != nil {
				return fail("leaf-codec", "leaf-codec", fmt.Sprintf("%s %q: %v", n.lk, n.s, err))
			}
			if enc != n.s || disp != n.disp {
				return fail("leaf-codec", "leaf-codec", fmt.Sprintf("%s built from %q prints %q / %q (expected %q / %q)", n.lk, n.s, enc, disp, n.s, n.disp))
			}
		}
	}

	// serialize into the recording consumer
	rec := newRecorder(cp.bin, cp.cplx, int(cp.thr))
	if err := safely(func() { serialization.NewSerializer(c, serOptions(o)).Convert(v, rec) }); err != nil {
		if strings.Contains(fmt.Sprint(err), "attribute Pcore::StructElement[") {
			// known finding C10-struct-type-with-object-member: a Struct type that holds an Object type has no type string
			// and the members of its meta type cannot be read
			return fail("ser-panic", "struct-element-no-reader", fmt.Sprint(err))
		}
		return fail("ser-panic", "ser-panic", fmt.Sprint(err))
	}
	if len(rec.stack) != 1 || len(rec.stack[0]) != 1 {
		return fail("ser-shape", "ser-shape", fmt.Sprintf("Convert emitted %d top-level events", len(rec.stack[0])))
	}
	stream := rec.stack[0][0]
	evs := stream.String()
	tags = append(tags, "ev:"+stream.kind)
	if strings.Contains(evs, "(r ") {
		tags = append(tags, "has-ref")
	}

	// the reference-free stream (local_reference=false), taken BEFORE deserializing: the deserializer registers type
	// definitions that arrive in the stream, after which the serializer would emit them by name
	rec0 := newRecorder(cp.bin, cp.cplx, int(cp.thr))
	if err := safely(func() {
		serialization.NewSerializer(c, serOptions(opts{o.rich, false, 0})).Convert(v, rec0)
	}); err != nil {
		return fail("ser-panic", "ser-panic", fmt.Sprint(err))
	}

	// stream laws first: a stream with a dangling reference is not fed to the collector (a reference to a container that
	// is still open would make it build a cyclic value, on which printing and Equals do not terminate; the model answers
	// `err` for both kinds of dangling reference)
	l := &laws{}
	expanded := l.expand(stream, false)

	// deserialize the recorded events with the real collector
	out := evs + " | "
	var back px.Value
	var derr interface{}
	if l.dangling != "" {
		derr = l.dangling
		out += "err"
	} else {
		derr = safely(func() {
			ds := serialization.NewDeserializer(c, px.EmptyMap)
			feed(stream, ds)
			back = ds.Value()
		})
		if derr != nil {
			out += "err"
		} else {
			p := &printer{ids: map[interface{}]int{}, fresh: freshType(parentCtx)}
			if err := safely(func() { p.print(back) }); err != nil {
				out += "err"
				derr = err
			} else {
				out += p.sb.String()
			}
		}
	}

	// ---- the property, directly on the implementation (judge) ----
	// stream laws: hold for every value, option and capability
	if l.dangling != "" {
		return fail(out, "dangling-ref", l.dangling)
	}
	if l.oddHash {
		return fail(out, "odd-hash", "a hash received an odd number of children")
	}
	if l.nonData != "" {
		return fail(out, "rich-leak", "Add received a "+l.nonData)
	}
	if l.binary && !cp.bin {
		return fail(out, "binary-leak", "Binary handed to a consumer that cannot do binary")
	}
	if l.cplxKey != "" && !cp.cplx {
		return fail(out, "complex-key-leak", "hash key event "+l.cplxKey+" for a consumer without complex keys")
	}
	if !o.rich && !f.ptypeStr && hasKeyEv(stream, serialization.PcoreTypeKey) {
		return fail(out, "rich-leak", "__ptype hash emitted with rich_data=false")
	}
	// every reference stands for an equal value: the stream with all references expanded is the reference-free stream
	if x, y := expanded.String(), rec0.stack[0][0].String(); x != y {
		return fail(out, "wrong-ref", "references expand to "+x+" but the reference-free stream is "+y)
	}
	// with rich_data=false non-string keys may be emitted as strings (String() of a rich key; every key when the
	// consumer cannot do complex keys): a hash with the key __ptype then reaches the deserializer all-string-keyed too
	if !o.rich {
		for _, ks := range f.ptHashes {
			all := true
			for _, k := range ks {
				if !(k == "s" || !cp.cplx || k == "l" || k == "sn" || k == "df" || (k == "x" && !cp.bin)) {
					all = false
				}
			}
			if all {
				f.reserved = true
			}
		}
	}
	// round trip
	claimed := o.rich || f.isData || (f.isDataBin && cp.bin)
	if derr != nil {
		if f.reserved {
			return fail(out, "reserved-key", "user hash with key __ptype is re-interpreted: "+oneLine(derr))
		}
		return fail(out, "deser-panic", oneLine(derr))
	}
	if !claimed {
		return done(out, "ok")
	}
	eq := false
	if err := safely(func() { eq = px.Equals(normalize(v), normalize(back), nil) }); err != nil {
		return fail(out, "roundtrip", "comparison panicked: "+oneLine(err))
	}
	if !eq {
		if f.reserved {
			return fail(out, "reserved-key", "user hash with key __ptype is re-interpreted")
		}
		// name the kind of the first node that differs, so that unrelated defects get different classes
		return fail(out, "roundtrip-"+diffKind(v, back), "deserialized value differs from the original")
	}
	// a stream that carries type definitions, read once more: the loader knows the definitions by now (the first reading
	// registered them), the stream still holds them in full; the value that comes back is the same
	if f.hasDefs && !f.reserved {
		var again px.Value
		if err := safely(func() {
			ds := serialization.NewDeserializer(c, px.EmptyMap)
			feed(stream, ds)
			again = ds.Value()
		}); err != nil {
			return fail(out, "reread-panic", oneLine(err))
		}
		if err := safely(func() {
			eq = px.Equals(normalize(v), normalize(again), nil) && px.Equals(normalize(again), normalize(back), nil)
		}); err != nil || !eq {
			return fail(out, "reread-"+diffKind(v, again), "the stream read a second time (its type definitions are known by then) gives a different value")
		}
	}
	return done(out, "ok")
}

func kindName(v px.Value) string {
	switch v.(type) {
	case *types.Array:
		return "array"
	case *types.Hash:
		return "hash"
	case *types.Sensitive:
		return "sensitive"
	case *types.Binary:
		return "binary"
	case *types.Regexp:
		return "regexp"
	case *types.SemVer:
		return "semver"
	case *types.SemVerRange:
		return "semverrange"
	case types.Timespan:
		return "timespan"
	case *types.Timestamp:
		return "timestamp"
	case *types.UriValue:
		return "uri"
	case *types.DefaultValue:
		return "default"
	case px.Type:
		return "type"
	case px.PuppetObject:
		return "object"
	case px.StringValue:
		return "string"
	}
	return "scalar"
}

// diffKind descends into the first differing element of two values of the same shape
func diffKind(a, b px.Value) string {
	eq := func(x, y px.Value) bool { return px.Equals(normalize(x), normalize(y), nil) }
	switch x := a.(type) {
	case *types.Array:
		if y, ok := b.(*types.Array); ok && x.Len() == y.Len() {
			for i := 0; i < x.Len(); i++ {
				if !eq(x.At(i), y.At(i)) {
					return diffKind(x.At(i), y.At(i))
				}
			}
		}
	case *types.Hash:
		if y, ok := b.(*types.Hash); ok && x.Len() == y.Len() {
			xe, ye := x.Entries(), y.Entries()
			for i := 0; i < x.Len(); i++ {
				ex, ey := xe.At(i).(*types.HashEntry), ye.At(i).(*types.HashEntry)
				if !eq(ex.Key(), ey.Key()) {
					return diffKind(ex.Key(), ey.Key())
				}
				if !eq(ex.Value(), ey.Value()) {
					return diffKind(ex.Value(), ey.Value())
				}
			}
		}
	case *types.Sensitive:
		if y, ok := b.(*types.Sensitive); ok {
			return diffKind(x.Unwrap(), y.Unwrap())
		}
	}
	return kindName(a)
}

var leafTypeName = map[string]string{"rx": "Regexp", "sv": "SemVer", "svr": "SemVerRange", "ts": "Timespan", "tm": "Timestamp",
	"uri": "URI", "ty": "Type", "td": "Type", "tx": "Type"}

// the sources of the codec stream that are not written in canonical form, with their canonical form
var canonicalOf = map[string]string{
	"Float[1.5, 2.5]":                     "Float[1.50000, 2.50000]",
	"Timespan[0, 90]":                     "Timespan['0-00:00:00.0', '0-00:01:30.0']",
	"http://example.com/é":                "http://example.com/%C3%A9",
	"SemVer['>=1.0.0 <2.0.0', '>=3.0.0']": "SemVer['>=1.0.0 <2.0.0 || >=3.0.0']",
	"URI['http://example.com/a']":         "URI[{'scheme' => 'http', 'host' => 'example.com', 'path' => '/a'}]",
	"Integer[-9223372036854775808, -1]":   "Integer[default, -1]",
}

// sources of the codec stream that pcore does not read (kept: they must stay outside the quantifier, not change sides silently)
var knownUnbuildable = map[string]bool{"Runtime['go', 'x']": true, "Like[String]": true}

// codec (implementation only): the real leaf codec on its own — what the deserializer does with {__ptype: T, __pvalue: s}
// is ParseTypeValue(T) and px.New(type, s); the result must equal the original and print the same serialization string
func codec(c px.Context, kind, src string) core.Result {
	tags := []string{"codec:" + kind}
	if !isLeafKind(kind) {
		bad("leaf kind")
	}
	var v px.Value
	if err := safely(func() { v = (&builder{c: c, memo: map[*node]px.Value{}, types: map[string]px.Value{}}).leaf(kind, src) }); err != nil {
		if knownUnbuildable[src] {
			return core.Result{Out: "unbuildable", Pred: "n/a", Tags: tags}
		}
		// a canonical text of the stream that pcore no longer reads: what was written with it cannot be read back
		r := core.Fail("unbuildable", "codec-"+kind, fmt.Sprintf("%q cannot be read: %s", src, oneLine(err)))
		r.Tags = tags
		return r
	}
	ss, ok := v.(px.SerializeAsString)
	if !ok || !ss.CanSerializeAsString() {
		return core.Result{Out: "not-string-serializable", Pred: "n/a", Tags: tags}
	}
	enc := ""
	var back px.Value
	if err := safely(func() {
		enc = ss.SerializationString()
		back = px.New(c, c.ParseType(leafTypeName[kind]), types.WrapString(enc))
	}); err != nil {
		r := core.Fail("codec-panic", "codec-"+kind, fmt.Sprintf("%q -> %q: %s", src, enc, oneLine(err)))
		r.Tags = tags
		return r
	}
	// the sources are canonical texts (the specification the codecs are held to): the value built from one prints it
	want := src
	if c, ok := canonicalOf[src]; ok {
		want = c
	}
	if enc != want {
		r := core.Fail("codec-differs", "codec-"+kind, fmt.Sprintf("the value built from %q serializes as %q (expected %q)", src, enc, want))
		r.Tags = tags
		return r
	}
	enc2 := ""
	if bs, ok := back.(px.SerializeAsString); ok {
		enc2 = bs.SerializationString()
	}
	if !px.Equals(v, back, nil) || !px.Equals(back, v, nil) || enc2 != enc {
		r := core.Fail("codec-differs", "codec-"+kind, fmt.Sprintf("%q serializes as %q and comes back as %q (%s)", src, enc, enc2, back.String()))
		r.Tags = tags
		return r
	}
	return core.Result{Out: "ok", Pred: "ok", NonTrivial: true, Tags: tags}
}

func oneLine(e interface{}) string {
	s := strings.Replace(fmt.Sprint(e), "\n", " ", -1)
	if len(s) > 200 {
		s = s[:200]
	}
	return s
}
