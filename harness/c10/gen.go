package c10

import (
	"fmt"
	"math"
	"math/rand"

	"verif/harness/core"
	"verif/harness/sx"

	"github.com/lyraproj/pcore/px"
)

// ---- generator -----------------------------------------------------------------------------------------------

var longStr = "a string long enough to be de-duplicated"
var longUni = "ééééééééééé" // 11 characters, 22 bytes: the threshold counts bytes

// strings that collide with what the serializer itself emits, plus ordinary ones
var genStrs = []string{"", "a", "b", "k", "1", "90", "AQID", "default", "Default", "Sensitive", "Hash", "Binary", "Type", "Regexp",
	"__ptype", "__pvalue", "__pref", longStr, longUni, "Sensitive [value redacted]", "é"}
var genInts = []int64{0, 1, -1, 42, math.MaxInt64, math.MinInt64}
var genFloats = []float64{0, 1, -1.5, 1e21, math.SmallestNonzeroFloat64, math.Inf(1)}
var genBins = [][]byte{{1, 2, 3}, {}, {0xff}, []byte("0123456789abcdefghijklmnop")}

var leafSrc = map[string][]string{
	"rx":  {"a.*b", "", "[a-z]+/x", `\d+`},
	"sv":  {"1.2.3", "1.0.0-rc1+b5", "0.0.0"},
	"svr": {">=1.0.0 <2.0.0", "1.x", "~1.2.3", ">=1.0.0"},
	"ts":  {"0", "90", "-5", "86400"},
	"tm":  {"2020-01-02T03:04:05.000006000 UTC", "1970-01-01T00:00:00.000000000 UTC"},
	"uri": {"http://example.com/a?b=c#d", "file:///tmp/x", "urn:isbn:1"},
	"ty": {"String", "Integer[1, 2]", "Array[String]", "Optional[Hash[String, Integer]]", "Type[Integer]",
		"Struct[{'a' => String}]", "Enum['a', 'b']", "Variant[String, Integer]", "Any", "Pattern[/a/]"},
}

type leafSpec struct{ kind, enc, disp string }

// leafCatalogue: the serialization string of every entry is its (canonical) source text — that is the specification the
// codecs are held to; only String() (not part of this property) is taken from the implementation
func leafCatalogue() []leafSpec {
	b := &builder{c: px.CurrentContext(), memo: map[*node]px.Value{}, types: map[string]px.Value{}}
	var out []leafSpec
	for _, k := range leafKinds {
		for _, src := range leafSrc[k] {
			func() {
				defer func() { _ = recover() }()
				v := b.leaf(k, src)
				out = append(out, leafSpec{k, src, v.String()})
			}()
		}
	}
	return out
}

// gv is a generated value: its op syntax and its identity-free text (used to keep hash keys distinct)
type gv struct {
	sx      sx.Sexp
	abs     string
	unkeyed bool // holds a Sensitive: never equal to itself, so not usable as a hash key
}

type vgen struct {
	r      *rand.Rand
	next   int64
	pool   []poolEntry // completed identified objects, usable through (= id)
	leaves []leafSpec
}

type poolEntry struct {
	id      int64
	abs     string
	unkeyed bool
}

func (g *vgen) id() int64 { g.next++; return g.next }

func (g *vgen) str() gv {
	s := genStrs[g.r.Intn(len(genStrs))]
	return gv{sx.T("s", sx.Str(s)), "s" + s, false}
}

func (g *vgen) scalar() gv {
	switch g.r.Intn(8) {
	case 0:
		return gv{sx.T("u"), "u", false}
	case 1:
		b := g.r.Intn(2) == 0
		return gv{sx.T("b", sx.Bool(b)), "b" + sx.B(b), false}
	case 2:
		i := genInts[g.r.Intn(len(genInts))]
		return gv{sx.T("i", sx.Int(i)), fmt.Sprint("i", i), false}
	case 3:
		f := math.Float64bits(genFloats[g.r.Intn(len(genFloats))])
		return gv{sx.T("f", sx.A(fmt.Sprint(f))), fmt.Sprint("f", f), false}
	case 4:
		return gv{sx.T("df"), "df", false}
	default:
		return g.str()
	}
}

func (g *vgen) define(tag string, abs string, rest func(id int64) []sx.Sexp) gv {
	id := g.id()
	xs := append([]sx.Sexp{sx.Int(id)}, rest(id)...)
	g.pool = append(g.pool, poolEntry{id, abs, false})
	return gv{sx.T(tag, xs...), abs, false}
}

func (g *vgen) leaf() gv {
	l := g.leaves[g.r.Intn(len(g.leaves))]
	return g.define("l", "l"+l.kind+l.enc, func(int64) []sx.Sexp { return []sx.Sexp{sx.A(l.kind), sx.Str(l.enc), sx.Str(l.disp)} })
}

func (g *vgen) bin() gv {
	b := genBins[g.r.Intn(len(genBins))]
	return g.define("x", "x"+string(b), func(int64) []sx.Sexp { return []sx.Sexp{sx.Bytes(b)} })
}

// value generates a value; key = it will be used as a hash key (no Sensitive, no NaN: they are never equal to themselves)
func (g *vgen) value(depth int, key bool) gv {
	if len(g.pool) > 0 && g.r.Intn(4) == 0 {
		p := g.pool[g.r.Intn(len(g.pool))]
		if !key || !p.unkeyed {
			return gv{sx.T("=", sx.Int(p.id)), p.abs, p.unkeyed}
		}
	}
	if depth <= 0 {
		switch g.r.Intn(6) {
		case 0:
			return g.leaf()
		case 1:
			return g.bin()
		}
		return g.scalar()
	}
	switch g.r.Intn(10) {
	case 0, 1:
		return g.scalar()
	case 2:
		return g.leaf()
	case 3:
		return g.bin()
	case 4:
		if key {
			return g.scalar()
		}
		id := g.id()
		in := g.value(depth-1, false)
		g.pool = append(g.pool, poolEntry{id, "sn(" + in.abs + ")", true})
		return gv{sx.T("sn", sx.Int(id), in.sx), "sn(" + in.abs + ")", true}
	case 5, 6, 7:
		id := g.id()
		n := g.r.Intn(4)
		xs := []sx.Sexp{sx.Int(id)}
		abs := "a("
		unkeyed := false
		for i := 0; i < n; i++ {
			e := g.value(depth-1, key)
			xs = append(xs, e.sx)
			abs += e.abs + ","
			unkeyed = unkeyed || e.unkeyed
		}
		abs += ")"
		g.pool = append(g.pool, poolEntry{id, abs, unkeyed})
		return gv{sx.T("a", xs...), abs, unkeyed}
	default:
		return g.hash(depth, key)
	}
}

func (g *vgen) hash(depth int, key bool) gv {
	id := g.id()
	n := g.r.Intn(4)
	xs := []sx.Sexp{sx.Int(id)}
	abs := "h("
	seen := map[string]bool{}
	unkeyed := false
	strOnly := g.r.Intn(2) == 0
	for i := 0; i < n; i++ {
		save := len(g.pool)
		var k gv
		if strOnly || g.r.Intn(2) == 0 {
			k = g.str()
		} else {
			k = g.value(depth-1, true)
		}
		if seen[k.abs] {
			g.pool = g.pool[:save]
			continue
		}
		seen[k.abs] = true
		v := g.value(depth-1, key)
		xs = append(xs, sx.L(k.sx, v.sx))
		abs += k.abs + "=>" + v.abs + ","
		unkeyed = unkeyed || v.unkeyed
	}
	abs += ")"
	g.pool = append(g.pool, poolEntry{id, abs, unkeyed})
	return gv{sx.T("h", xs...), abs, unkeyed}
}

// hardKey: some hash has a non-string key that is a float or a container; with rich_data=false and a consumer without
// complex keys the serializer prints such a key with String(), which the model does not cover (floats in decimal,
// container formatting): those matrix cells are evaluated on the implementation only ('@' lines)
func hardKey(n *node, seen map[*node]bool) bool {
	if seen[n] {
		return false
	}
	seen[n] = true
	if n.kind == "h" {
		for i := 0; i < len(n.kids); i += 2 {
			if k := n.kids[i].kind; k == "f" || k == "a" || k == "h" {
				return true
			}
		}
	}
	for _, k := range n.kids {
		if hardKey(k, seen) {
			return true
		}
	}
	return false
}

// the whole option x capability matrix for one value
func emitMatrix(g *core.G, val string) {
	hard := false
	if xs, err := sx.Parse(val); err == nil && len(xs) == 1 {
		func() {
			defer func() { _ = recover() }()
			hard = hardKey(parse(xs[0], map[int64]*node{}, map[int64]bool{}), map[*node]bool{})
		}()
	}
	for _, rich := range []bool{true, false} {
		for _, lref := range []bool{true, false} {
			for dedup := 0; dedup <= 2; dedup++ {
				for _, bin := range []bool{true, false} {
					for _, cplx := range []bool{true, false} {
						for _, thr := range []int{0, 1, 20, 1000000} {
							at := ""
							if hard && !rich && !cplx {
								at = "@"
							}
							g.Emit(fmt.Sprintf("%sser (o %s %s %d) (c %s %s %d) %s", at, sx.B(rich), sx.B(lref), dedup, sx.B(bin), sx.B(cplx), thr, val))
						}
					}
				}
			}
		}
	}
}

func s(x string) string { return "(s " + sx.Str(x).Atom + ")" }

// hand-written shapes: every leaf kind alone / shared / as key, sharing of every identified kind, the witnesses of the
// repaired defects, reserved keys
func fixedValues(leaves []leafSpec) []string {
	L := s(longStr)
	out := []string{
		"(u)", "(df)", "(b t)", "(i 7)", "(f 4609434218613702656)", s("a"), L, "(x 1 x010203)", "(a 1)", "(h 1)",
		// the pre-fix dangling reference: ['AQID', bin, bin]
		"(a 1 " + s("AQID") + " (x 2 x010203) (= 2))",
		"(a 1 (x 2 x010203) (= 2) " + s("AQID") + ")",
		"(a 1 " + s("Sensitive [value redacted]") + " (sn 2 (i 1)) (= 2))",
		// same array / hash / long string / sensitive twice
		"(a 1 (a 2 (i 1) " + L + ") (= 2) " + L + ")",
		"(a 1 (h 2 (" + s("k") + " " + L + ")) (= 2) (= 2))",
		"(a 1 (sn 2 " + L + ") (= 2) (sn 3 (= 2)))",
		"(h 1 (" + L + " " + L + ") (" + s("b") + " " + L + "))",
		// non-string keys, a hash used as a key, shared key objects
		"(h 1 ((i 1) " + s("one") + ") ((a 2 (i 1) (i 2)) (= 2)) ((h 3 (" + s("a") + " (i 1))) (= 3)))",
		"(h 1 ((f 4609434218613702656) (u)) ((b t) (df)) ((u) (i 0)) ((df) (i 1)))",
		"(a 1 (h 2 ((i 1) " + L + ")) (= 2) (h 3 ((= 2) (= 2))))",
		"(h 1 ((x 2 x010203) (= 2)) (" + s("AQID") + " (= 2)))",
		// strings that collide with the serializer's own
		"(a 1 " + s("__ptype") + " (df) " + s("Default") + " (sn 2 " + s("__pvalue") + ") " + s("Sensitive") + ")",
		"(a 1 (df) (df) (sn 2 (df)) (x 3 x) (= 3))",
		"(a 1 " + s("default") + " (df) " + s("default") + ")",
		// reserved keys in user hashes (known finding when all keys are strings and __ptype is among them)
		"(h 1 (" + s("__ptype") + " " + s("Sensitive") + ") (" + s("__pvalue") + " (i 1)))",
		"(h 1 (" + s("__ptype") + " " + s("Default") + "))",
		"(h 1 (" + s("__ptype") + " " + s("Hash") + ") (" + s("__pvalue") + " (a 2 (i 1) (i 2))))",
		"(h 1 (" + s("__ptype") + " " + s("NoSuchType") + ") (" + s("__pvalue") + " " + s("x") + "))",
		"(h 1 (" + s("__ptype") + " " + s("Regexp") + ") (" + s("__pvalue") + " " + s("a") + "))",
		"(h 1 (" + s("__pvalue") + " (i 1)) (" + s("__pref") + " (i 0)))",
		"(h 1 (" + s("__ptype") + " " + s("Sensitive") + ") ((i 1) (i 1)))",
		"(a 1 (h 2 (" + s("__pref") + " (i 0))) (= 2))",
	}
	for i, l := range leaves {
		lf := fmt.Sprintf("(l 2 %s %s %s)", l.kind, sx.Str(l.enc).Atom, sx.Str(l.disp).Atom)
		if i%3 == 0 {
			out = append(out, lf)
		}
		// shared, next to a string equal to its text forms, and as a hash key
		out = append(out, "(a 1 "+s(l.enc)+" "+lf+" (= 2) "+s(l.disp)+")")
		if i%2 == 0 {
			out = append(out, "(h 1 ("+lf+" (= 2)) ("+s("k")+" (= 2)))")
		}
	}
	return out
}

// exhaustive small universe: every array of at most n elements drawn from seven templates, where a repeated template
// is the SAME object (or an equal string) again
func smallUniverse(n int) []string {
	L := s(longStr)
	tmpl := []struct{ def, again string }{
		{"(i 1)", "(i 1)"},
		{L, L},
		{s("AQID"), s("AQID")},
		{"(x 11 x010203)", "(= 11)"},
		{"(a 12 " + L + ")", "(= 12)"},
		{"(sn 13 " + L + ")", "(= 13)"},
		{"(h 14 ((i 1) " + L + "))", "(= 14)"},
	}
	var out []string
	var rec func(prefix []int)
	rec = func(prefix []int) {
		if len(prefix) > 0 {
			used := map[int]bool{}
			t := "(a 1"
			for _, i := range prefix {
				if used[i] {
					t += " " + tmpl[i].again
				} else {
					t += " " + tmpl[i].def
				}
				used[i] = true
			}
			out = append(out, t+")")
		}
		if len(prefix) == n {
			return
		}
		for i := range tmpl {
			rec(append(append([]int{}, prefix...), i))
		}
	}
	rec(nil)
	return out
}

func gen(g *core.G) {
	leaves := leafCatalogue()
	for _, v := range fixedValues(leaves) {
		emitMatrix(g, v)
	}
	// exhaustive small universe: all arrays of <= 3 elements over the seven templates (thorough: <= 4 is 2800 arrays, sampled)
	for _, v := range smallUniverse(3) {
		emitMatrix(g, v)
	}
	if g.Thorough() {
		u4 := smallUniverse(4)
		for i := 0; i < 600; i++ {
			emitMatrix(g, u4[g.Rng.Intn(len(u4))])
		}
	}
	// random DAGs with deliberate sharing
	for i := 0; i < 300*g.Scale/2+150; i++ {
		vg := &vgen{r: g.Rng, leaves: leaves}
		v := vg.value(1+g.Rng.Intn(3), false)
		emitMatrix(g, v.sx.String())
	}
	// malformed ops (outside the quantifier; both sides must answer bad-op)
	for _, v := range []string{"(= 1)", "(a 1 (= 1))", "(a 1 (a 1))", "(h 1 ((i 1)))", "(q)", "(l 1 zz x x)"} {
		g.Emit("ser (o t t 2) (c t t 0) " + v)
	}
}
