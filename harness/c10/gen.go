package c10

import (
	"fmt"
	"math"
	"math/rand"
	"strconv"
	"strings"
	"time"

	"verif/harness/core"
	"verif/harness/sx"

	"github.com/lyraproj/pcore/px"
)

// ---- generator -----------------------------------------------------------------------------------------------
//
// Values are generated as node trees (a shared node is the same *node), built once with pcore to learn what String()
// prints for leaves and objects (the `disp` payload — not part of this property, so it is taken from the
// implementation), and printed in the op syntax.  The serialization string of a leaf is NOT taken from the
// implementation: it is the canonical source text below — that is the specification the codecs are held to.

var longStr = "a string long enough to be de-duplicated"
var str19, str20, str21 = "exactly 19 bytes ..", "exactly twenty bytes", "exactly 21 bytes ...."
var uni20 = "éééééééééé"
var longUni = "ééééééééééé" // 11 characters, 22 bytes: the threshold counts bytes

// strings that collide with what the serializer itself emits, plus ordinary ones
var genStrs = []string{"", "a", "b", "k", "1", "90", "AQID", "default", "Default", "Sensitive", "Hash", "Binary", "Type", "Regexp",
	"__ptype", "__pvalue", "__pref", longStr, longUni, "Sensitive [value redacted]", "é", "Verif::Pair", "Verif::Ints", "0-00:01:30.0"}
var genInts = []int64{0, 1, -1, 42, math.MaxInt64, math.MinInt64}
var genFloats = []float64{0, 1, -1.5, 1e21, math.SmallestNonzeroFloat64, math.Inf(1)}
var genBins = [][]byte{{1, 2, 3}, {}, {0xff}, []byte("0123456789abcdefghijklmnop")}

var leafSrc = map[string][]string{
	"rx":  {"a.*b", "", "[a-z]+/x", `\d+`},
	"sv":  {"1.2.3", "1.0.0-rc1+b5", "0.0.0"},
	"svr": {">=1.0.0 <2.0.0", "1.x", "~1.2.3", ">=1.0.0"},
	"ts":  {"0-00:00:00.0", "0-00:01:30.0", "-0-00:00:05.0", "1-00:00:00.0", "0-00:00:01.5", "0-00:00:00.05", "-0-00:00:00.000000001"},
	"tm":  {"2020-01-02T03:04:05.000006000 UTC", "1970-01-01T00:00:00.000000000 UTC"},
	"uri": {"http://example.com/a?b=c#d", "file:///tmp/x", "urn:isbn:1", "http://user:pw@example.com:8080/p%20q?x=1&y=%2F#f"},
	"ty": {"String", "Integer[1, 2]", "Array[String]", "Optional[Hash[String, Integer]]", "Type[Integer]",
		"Struct[{'a' => String}]", "Enum['a', 'b']", "Variant[String, Integer]", "Any", "Pattern[/a/]", "String[1, 2]",
		"Timespan['0-00:00:00.0', '0-00:01:30.0']", "Timestamp[default, '2020-01-01T00:00:00.000000000 UTC']"},
	"td": {"Verif::Pair", "Verif::Ints", "Verif::Unit"},
	// not string-serializable: serialized through the attributes of their meta types (valueToDataHash, attribute-list branch;
	// trailing attributes that have their default are left out)
	"tx": {"Hash[Any, Verif::Pair, 1, 3]", "Hash[Any, Verif::Pair]", "Hash[String, Verif::Ints]", "Array[Verif::Pair, 1, 3]", "Array[Verif::Pair]",
		"Optional[Verif::Ints]", "Tuple[Verif::Pair, String]", "Tuple[Verif::Pair, 1, 3]", "Variant[Verif::Pair, String]", "Sensitive[Verif::Pair]",
		"Type[Verif::Pair]", "NotUndef[Verif::Unit]", "Iterable[Verif::Pair]", "Callable[[Verif::Pair], String]", "Array[Array[Verif::Pair, 0, 2]]",
		"Array[Object[{attributes => {'y' => String}}]]", "Hash[Any, Object[{attributes => {'y' => String}}], 2, 2]", "Hash[Verif::Unit, Any]",
		"Struct[{'a' => Verif::Pair}]", "Array[Struct[{'a' => Optional[Verif::Ints]}]]",
		// a parameterized Object type (an extension of a known type) and types that hold one
		"Verif::P[3]", "Array[Verif::P[3]]", "Optional[Verif::P[0]]"},
}

// object type definitions no loader knows: they travel as Pcore::ObjectType instances (the init hash is written into the
// op for the model) and are registered by the deserializer
var tdefSrc = []string{
	`Object[{name => 'Verif::Fresh', attributes => {'z' => Integer}}]`,
	`Object[{attributes => {'z' => Integer}}]`,
	`Object[{name => 'Verif::Fresh2', parent => Verif::Pair, attributes => {'c' => {'type' => String, 'value' => 'x'}}}]`,
	`Object[{name => 'Verif::Fresh3', attributes => {'a' => {'type' => Array[Integer], 'value' => [1, 2]}, 'b' => {'type' => Optional[String], 'value' => undef}}, equality => ['a']}]`,
	`Object[{name => 'Verif::Fresh4', attributes => {'k' => {'type' => Integer, 'kind' => 'constant', 'value' => 3}, 'n' => Verif::Ints}}]`,
	`Object[{name => 'Verif::Fresh5', attributes => {'h' => {'type' => Hash[String, Integer], 'value' => {'x' => 1}}}, equality_include_type => false}]`,
}

// alias definitions no loader knows (the harness's notation, builder.typeOf): they travel as Pcore::TypeAlias instances
var aliasSrc = []string{
	"alias Verif::FreshA = Array[Integer]",
	"alias Verif::FreshB = Hash[String, Verif::Pair]", // the aliased type has no type string: attribute by attribute
	"alias Verif::FreshC = Variant[String, Verif::Ints]",
	"alias Verif::FreshD = " + tdefSrc[0], // an alias of a definition no loader knows either
}

// instances of the definitions of tdefSrc: the serializer finds no loader that knows the type of the instance and sends
// the definition in place of the type name (pcoreTypeToData); attrs = attribute names in the order of the type, with a
// maker of a value of the attribute's type (nil: any value)
type freshSpec struct {
	src   string
	names []string
	mk    []func(g *vgen, depth int) *node
	must  int // the first `must` attributes are required
}

func mkInt(g *vgen, depth int) *node { return &node{kind: "i", i: genInts[g.r.Intn(len(genInts))]} }
func mkStr(g *vgen, depth int) *node { return g.str() }
func mkAny(g *vgen, depth int) *node { return g.value(depth-1, false) }
func mkInts(g *vgen, depth int) *node {
	n := &node{kind: "a", id: g.id()}
	for i, m := 0, g.r.Intn(3); i < m; i++ {
		n.kids = append(n.kids, mkInt(g, depth))
	}
	return g.keep(n)
}
func mkStrIntHash(g *vgen, depth int) *node {
	n := &node{kind: "h", id: g.id()}
	for i, m := 0, g.r.Intn(3); i < m; i++ {
		n.kids = append(n.kids, &node{kind: "s", s: []string{"x", "y", longStr}[i]}, mkInt(g, depth))
	}
	return g.keep(n)
}

func freshSpecs() []freshSpec {
	return []freshSpec{
		{tdefSrc[0], []string{"z"}, []func(*vgen, int) *node{mkInt}, 1},
		{tdefSrc[1], []string{"z"}, []func(*vgen, int) *node{mkInt}, 1},
		{tdefSrc[2], []string{"a", "b", "c"}, []func(*vgen, int) *node{mkAny, mkAny, mkStr}, 2},
		{tdefSrc[3], []string{"a", "b"}, []func(*vgen, int) *node{mkInts, mkStr}, 0},
		{tdefSrc[5], []string{"h"}, []func(*vgen, int) *node{mkStrIntHash}, 0},
	}
}

// further sources for the stand-alone codec check
var codecExtra = [][2]string{
	{"rx", `a/b`}, {"rx", `\\/`}, {"rx", "(?i)x"}, {"rx", "é+"}, {"rx", "a\nb"}, {"rx", "^$"}, {"rx", `[/]`}, {"rx", `'"`},
	{"uri", "http://user:pw@example.com:8080/p%20q?x=1&y=%2F#f"}, {"uri", "http://[::1]:80/"}, {"uri", "mailto:a@b.c"},
	{"uri", "/relative/path"}, {"uri", "?q"}, {"uri", "http://example.com/é"}, {"uri", "a:b:c"},
	{"ts", "106751-23:47:16.854775807"}, {"ts", "-106751-23:47:16.854775807"},
	{"tm", "0001-01-01T00:00:00.000000000 UTC"}, {"tm", "9999-12-31T23:59:59.999999999 UTC"}, {"tm", "2020-02-29T12:00:00.000000000 UTC"},
	{"ty", "Callable[[String, Integer], Float]"}, {"ty", "Struct[{Optional['a'] => String, 'b' => Integer}]"}, {"ty", "Tuple[String, Integer, 1, 3]"},
	{"ty", `Enum['it\'s', 'a\\b']`}, {"ty", `Pattern[/a\/b/]`}, {"ty", "String[1, 2]"}, {"ty", "Float[1.5, 2.5]"}, {"ty", "Sensitive[String]"},
	{"ty", "Type[Array[Integer[0, 9]]]"}, {"ty", "Iterable[String]"}, {"ty", "NotUndef[Integer]"}, {"ty", "Timespan[0, 90]"}, {"ty", "SemVer['>=1.0.0']"},
	{"ty", "Hash[String, Array[Variant[Integer, Undef]], 1, 5]"}, {"ty", "Optional['x']"}, {"ty", "Integer[default, 5]"}, {"ty", "Collection[1, 2]"},
	{"ty", "Array[String, 0, 0]"}, {"ty", "Regexp[/x/]"}, {"ty", "URI[{'scheme' => 'http'}]"}, {"ty", "Binary"}, {"ty", "Boolean[true]"}, {"ty", "Default"},
	{"ty", "Runtime['go', 'x']"}, {"ty", "TypeReference['A::B']"}, {"ty", "Like[String]"}, {"ty", "Init[Integer]"}, {"ty", "Undef"},
	// the types of the leaf kinds themselves: default, and with every form of parameter list they print
	{"ty", "SemVer"}, {"ty", "SemVerRange"}, {"ty", "Regexp"}, {"ty", "Timespan"}, {"ty", "Timestamp"}, {"ty", "Sensitive"}, {"ty", "URI"},
	{"ty", "Timespan['0-00:00:01.0']"}, {"ty", "Timespan[default, '0-00:01:30.0']"}, {"ty", "Timespan['-0-00:00:01.5', '0-00:00:00.000000001']"},
	{"ty", "Timestamp['2020-01-01T00:00:00.000000000 UTC']"},
	{"ty", "Timestamp['2020-01-01T00:00:00.000000000 UTC', '2021-01-01T00:00:00.500000000 UTC']"},
	{"ty", "SemVer['>=1.0.0 <2.0.0 || >=3.0.0']"}, {"ty", "SemVer['>=1.0.0 <2.0.0', '>=3.0.0']"}, {"ty", "SemVer['1.x']"},
	{"ty", `Regexp[/a\/b/]`}, {"ty", "Regexp[/é+/]"}, {"ty", `Pattern[/a/, /b\/c/]`}, {"ty", "Sensitive[Binary]"}, {"ty", "Type[Regexp[/x/]]"},
	{"ty", "Array[Timespan['0-00:00:01.0', '0-00:00:02.0'], 1, 2]"}, {"ty", "Hash[SemVer['>=1.0.0'], URI]"},
	{"ty", "URI['http://example.com/a']"}, {"ty", "URI[{'scheme' => 'http', 'host' => 'example.com', 'path' => '/a'}]"},
	{"ty", "Variant[Regexp[/x/], Timestamp, SemVerRange]"}, {"ty", "Struct[{'r' => Regexp[/x/], Optional['t'] => Timespan}]"},
	{"ty", "Optional[Sensitive[String]]"}, {"ty", "Float[default, 2.50000]"}, {"ty", "Float[1e+21]"}, {"ty", "Integer[5]"},
	{"ty", "Integer[-9223372036854775808, -1]"}, {"ty", "Boolean[false]"}, {"ty", "Enum['a', 'b', true]"},
	{"ty", "Callable[0, 0]"}, {"ty", "Callable[[0, 0], Float]"}, {"ty", "Callable[[String, 1, default], Callable[String]]"},
	{"ty", "Iterator[Integer]"}, {"ty", "Tuple[String, 0, 0]"}, {"ty", "Tuple"}, {"ty", "Struct"}, {"ty", "Object"}, {"ty", "Type"},
	{"ty", "Type[Type[Type]]"}, {"ty", "Runtime"}, {"ty", "Runtime['go']"}, {"ty", "Array[0, 0]"}, {"ty", "Hash[0, 0]"}, {"ty", "NotUndef['x']"},
	{"ty", "NotUndef"}, {"ty", "Optional"}, {"ty", "Iterable"}, {"ty", "Init[String, 'x']"}, {"ty", "Init"}, {"ty", "Scalar"}, {"ty", "ScalarData"},
	{"ty", "Numeric"}, {"ty", "Collection"},
}

type vgen struct {
	r    *rand.Rand
	next int64
	pool []*node // completed identified objects, usable again (the same object)
}

func (g *vgen) id() int64 { g.next++; return g.next }

func (g *vgen) str() *node { return &node{kind: "s", s: genStrs[g.r.Intn(len(genStrs))]} }

func (g *vgen) scalar() *node {
	switch g.r.Intn(8) {
	case 0:
		return &node{kind: "u"}
	case 1:
		return &node{kind: "b", b: g.r.Intn(2) == 0}
	case 2:
		return &node{kind: "i", i: genInts[g.r.Intn(len(genInts))]}
	case 3:
		return &node{kind: "f", f: math.Float64bits(genFloats[g.r.Intn(len(genFloats))])}
	case 4:
		return &node{kind: "df"}
	default:
		return g.str()
	}
}

func (g *vgen) keep(n *node) *node { g.pool = append(g.pool, n); return n }

func (g *vgen) leaf() *node {
	k := leafKinds[g.r.Intn(len(leafKinds))]
	src := leafSrc[k]
	return g.keep(&node{kind: "l", id: g.id(), lk: k, s: src[g.r.Intn(len(src))]})
}

func (g *vgen) tdef() *node {
	src := tdefSrc[g.r.Intn(len(tdefSrc))]
	if g.r.Intn(4) == 0 {
		src = aliasSrc[g.r.Intn(len(aliasSrc))]
	}
	// one definition per text in a value: a second one is the SAME type object once more (two separately parsed
	// definitions of one name are two objects whose init hashes hold separate but equal types — identities the
	// term syntax, which interns types by text, cannot tell apart)
	for _, n := range g.pool {
		if n.kind == "tdef" && n.s == src {
			return n
		}
	}
	return g.keep(&node{kind: "tdef", id: g.id(), s: src})
}

func (g *vgen) bin() *node {
	return g.keep(&node{kind: "x", id: g.id(), s: string(genBins[g.r.Intn(len(genBins))])})
}

// holds a Sensitive (never equal to itself) or an object: not used as a hash key
func unkeyed(n *node) bool {
	if n.kind == "sn" || n.kind == "o" || n.kind == "tdef" || n.kind == "rt" {
		return true
	}
	for _, k := range n.kids {
		if unkeyed(k) {
			return true
		}
	}
	return false
}

// absText: identity-free text, used to keep the keys of one hash distinct
func absText(n *node) string {
	var sb strings.Builder
	sb.WriteString(n.kind + ":" + n.lk + ":" + n.s + ":" + strconv.FormatInt(n.i, 10) + ":" + strconv.FormatUint(n.f, 10) + ":" + sx.B(n.b) + "(")
	for _, k := range n.kids {
		sb.WriteString(absText(k) + ",")
	}
	sb.WriteString(")")
	return sb.String()
}

func (g *vgen) value(depth int, key bool) *node {
	if len(g.pool) > 0 && g.r.Intn(4) == 0 {
		p := g.pool[g.r.Intn(len(g.pool))]
		if !key || !unkeyed(p) {
			return p
		}
	}
	if depth <= 0 {
		switch g.r.Intn(6) {
		case 0:
			return g.leaf()
		case 1:
			return g.bin()
		case 2:
			if !key && g.r.Intn(4) == 0 {
				return g.rt()
			}
		}
		return g.scalar()
	}
	switch g.r.Intn(12) {
	case 0, 1:
		return g.scalar()
	case 2:
		return g.leaf()
	case 3:
		return g.bin()
	case 4:
		if key {
			return g.scalar()
		}
		n := &node{kind: "sn", id: g.id()}
		n.kids = []*node{g.value(depth-1, false)}
		return g.keep(n)
	case 5, 6, 7:
		n := &node{kind: "a", id: g.id()}
		for i, m := 0, g.r.Intn(4); i < m; i++ {
			n.kids = append(n.kids, g.value(depth-1, key))
		}
		return g.keep(n)
	case 8:
		if key {
			return g.scalar()
		}
		if g.r.Intn(5) == 0 {
			return g.tdef()
		}
		return g.object(depth)
	default:
		return g.hash(depth, key)
	}
}

func (g *vgen) rt() *node {
	return g.keep(&node{kind: "rt", id: g.id(), s: []string{"", "ab", longStr, "__ptype"}[g.r.Intn(4)]})
}

// an instance of a definition no loader knows (an attribute that has its default is left out of the init hash, so it is
// not given: the op syntax lists the entries of the init hash)
func (g *vgen) freshObject(depth int) *node {
	specs := freshSpecs()
	sp := specs[g.r.Intn(len(specs))]
	n := &node{kind: "o", id: g.id(), s: sp.src}
	for i, name := range sp.names {
		if i >= sp.must && g.r.Intn(2) == 0 {
			continue
		}
		v := sp.mk[i](g, depth)
		if i >= sp.must && isDefaultOf(sp.src, name, v) {
			continue
		}
		n.names, n.kids = append(n.names, name), append(n.kids, v)
	}
	return g.keep(n)
}

// the defaults written in tdefSrc
func isDefaultOf(src, name string, v *node) bool {
	switch {
	case src == tdefSrc[2] && name == "c":
		return v.kind == "s" && v.s == "x"
	case src == tdefSrc[3] && name == "a":
		return v.kind == "a" && len(v.kids) == 2 && v.kids[0].i == 1 && v.kids[1].i == 2
	case src == tdefSrc[3] && name == "b":
		return v.kind == "u"
	case src == tdefSrc[5] && name == "h":
		return v.kind == "h" && len(v.kids) == 2 && v.kids[0].s == "x" && v.kids[1].i == 1
	}
	return false
}

func (g *vgen) object(depth int) *node {
	if g.r.Intn(5) == 0 {
		return g.freshObject(depth)
	}
	n := &node{kind: "o", id: g.id()}
	switch g.r.Intn(4) {
	case 0:
		n.s = "Verif::Unit"
	case 1:
		n.s = "Verif::Box" // its attribute has the default undef: omitted from the init hash
		if g.r.Intn(3) != 0 {
			v := g.value(depth-1, false)
			if v.kind != "u" {
				n.names, n.kids = []string{"v"}, []*node{v}
			}
		}
	default:
		n.s = "Verif::Pair"
		n.names, n.kids = []string{"a", "b"}, []*node{g.value(depth-1, false), g.value(depth-1, false)}
	}
	return g.keep(n)
}

func (g *vgen) hash(depth int, key bool) *node {
	n := &node{kind: "h", id: g.id()}
	seen := map[string]bool{}
	strOnly := g.r.Intn(2) == 0
	for i, m := 0, g.r.Intn(4); i < m; i++ {
		save := len(g.pool)
		var k *node
		if strOnly || g.r.Intn(2) == 0 {
			k = g.str()
		} else {
			k = g.value(depth-1, true)
		}
		if t := absText(k); seen[t] {
			g.pool = g.pool[:save]
			continue
		} else {
			seen[t] = true
		}
		n.kids = append(n.kids, k, g.value(depth-1, key))
	}
	return g.keep(n)
}

// hardKey: some hash has a non-string key that is a float or a container; with rich_data=false and a consumer without
// complex keys the serializer prints such a key with String(), which the model does not cover (floats in decimal,
// container formatting): those matrix cells are evaluated on the implementation only ('@' lines)
func hardKey(n *node, seen map[*node]bool) bool {
	if seen[n] {
		return false
	}
	seen[n] = true
	if n.kind == "h" {
		for i := 0; i < len(n.kids); i += 2 {
			if k := n.kids[i].kind; k == "f" || k == "a" || k == "h" {
				return true
			}
		}
	}
	for _, k := range n.kids {
		if hardKey(k, seen) {
			return true
		}
	}
	return false
}

// implOnly: the value holds something the model does not cover
func implOnly(n *node) bool {
	if (n.kind == "tdef" && n.init == nil) || (n.kind == "l" && n.lk == "tx") || n.kind == "rt" || freshObj(n) {
		return true
	}
	for _, k := range n.kids {
		if implOnly(k) {
			return true
		}
	}
	return false
}

// write prints the op syntax: the first occurrence of an identified node defines it, later ones are (= id)
func (n *node) write(sb *strings.Builder, seen map[*node]bool) {
	hx := func(s string) string { return sx.Str(s).Atom }
	switch n.kind {
	case "u", "df":
		sb.WriteString("(" + n.kind + ")")
		return
	case "b":
		sb.WriteString("(b " + sx.B(n.b) + ")")
		return
	case "i":
		sb.WriteString("(i " + strconv.FormatInt(n.i, 10) + ")")
		return
	case "f":
		sb.WriteString("(f " + strconv.FormatUint(n.f, 10) + ")")
		return
	case "s":
		sb.WriteString("(s " + hx(n.s) + ")")
		return
	}
	if seen[n] {
		sb.WriteString("(= " + strconv.FormatInt(n.id, 10) + ")")
		return
	}
	seen[n] = true
	id := strconv.FormatInt(n.id, 10)
	switch n.kind {
	case "x", "rt":
		sb.WriteString("(" + n.kind + " " + id + " " + hx(n.s) + ")")
	case "l":
		sb.WriteString("(l " + id + " " + n.lk + " " + hx(n.s) + " " + hx(n.disp) + ")")
	case "tdef":
		if n.init != nil {
			sb.WriteString("(tdef " + id + " " + hx(n.s) + " " + hx(n.disp) + " ")
			n.init.write(sb, map[*node]bool{})
		} else {
			sb.WriteString("(tdefx " + id + " " + hx(n.s) + " " + hx(n.disp))
		}
		sb.WriteByte(')')
	case "sn", "a":
		sb.WriteString("(" + n.kind + " " + id)
		for _, k := range n.kids {
			sb.WriteByte(' ')
			k.write(sb, seen)
		}
		sb.WriteByte(')')
	case "h":
		sb.WriteString("(h " + id)
		for i := 0; i+1 < len(n.kids); i += 2 {
			sb.WriteString(" (")
			n.kids[i].write(sb, seen)
			sb.WriteByte(' ')
			n.kids[i+1].write(sb, seen)
			sb.WriteByte(')')
		}
		sb.WriteByte(')')
	case "o":
		sb.WriteString("(o " + id + " " + hx(n.s) + " " + hx(n.disp))
		for i, k := range n.kids {
			sb.WriteString(" (" + hx(n.names[i]) + " ")
			k.write(sb, seen)
			sb.WriteByte(')')
		}
		sb.WriteByte(')')
	}
}

// finish builds the value with pcore to fill in what String() prints, and returns the op text
func finish(c px.Context, root *node) (text string, ok bool) {
	defer func() {
		if e := recover(); e != nil {
			ok = false
		}
	}()
	b := &builder{c: c, memo: map[*node]px.Value{}, types: map[string]px.Value{}}
	b.build(root)
	for n, v := range b.memo {
		if n.kind == "l" || n.kind == "o" || n.kind == "tdef" {
			n.disp = v.String()
		}
		if n.kind == "tdef" {
			// the identities of the init hash: a range of its own per definition (two definitions in one value must not
			// share identities: the model driver rejects that as incoherent sharing)
			next := 1000 * (n.id + 1)
			n.init = nil
			if ot, ok := v.(px.ObjectType); ok {
				if tree, ok := valueNode(ot.(px.PuppetObject).InitHash(), &next, freshType(c)); ok {
					n.init = tree
				}
			}
		}
	}
	var sb strings.Builder
	root.write(&sb, map[*node]bool{})
	return sb.String(), true
}

// userPtype: some hash has the key __ptype.  What the deserializer makes of such a hash depends on constructors the
// model does not cover (px.New(Array[String], {}) …); randomly generated ones run on the implementation only, the
// hand-written witnesses of the known finding are compared with the model
func userPtype(n *node) bool {
	if n.kind == "h" {
		for i := 0; i < len(n.kids); i += 2 {
			if n.kids[i].kind == "s" && n.kids[i].s == "__ptype" {
				return true
			}
		}
	}
	for _, k := range n.kids {
		if userPtype(k) {
			return true
		}
	}
	return false
}

// the whole option x capability matrix for one value
func emitMatrix(g *core.G, c px.Context, root *node) { emitMatrix2(g, c, root, false) }

func emitMatrix2(g *core.G, c px.Context, root *node, random bool) {
	emitMatrix3(g, c, root, random, []int{0, 1, 20, 1000000})
}

// emitMatrix3: every option combination and capability corner, the given thresholds
func emitMatrix3(g *core.G, c px.Context, root *node, random bool, thrs []int) {
	val, ok := finish(c, root)
	if !ok {
		// every value of the generator's catalogue is a value pcore can build on the unchanged tree: when it cannot, that is
		// reported as a failure of the property's precondition on a concrete value (not as broken machinery)
		var sb strings.Builder
		root.write(&sb, map[*node]bool{})
		g.Emit("@unbuildable " + h(sb.String()))
		return
	}
	hard := hardKey(root, map[*node]bool{})
	only := implOnly(root) || (random && userPtype(root))
	for _, rich := range []bool{true, false} {
		for _, lref := range []bool{true, false} {
			for dedup := 0; dedup <= 2; dedup++ {
				for _, bin := range []bool{true, false} {
					for _, cplx := range []bool{true, false} {
						for _, thr := range thrs {
							at := ""
							if only || (hard && !rich && !cplx) {
								at = "@"
							}
							g.Emit(fmt.Sprintf("%sser (o %s %s %d) (c %s %s %d) %s", at, sx.B(rich), sx.B(lref), dedup, sx.B(bin), sx.B(cplx), thr, val))
						}
					}
				}
			}
		}
	}
}

func emitText(g *core.G, c px.Context, val string) {
	xs, err := sx.Parse(val)
	if err != nil || len(xs) != 1 {
		panic("bad fixed value " + val)
	}
	emitMatrix(g, c, parse(xs[0], map[int64]*node{}, map[int64]bool{}))
}

func s(x string) string { return "(s " + sx.Str(x).Atom + ")" }
func h(x string) string { return sx.Str(x).Atom }

// hand-written shapes (the String() payloads are written `x` here and filled in by finish): every leaf kind alone /
// shared / as key, sharing of every identified kind, the witnesses of the repaired defects, reserved keys, objects
func fixedValues() []string {
	L := s(longStr)
	out := []string{
		"(u)", "(df)", "(b t)", "(i 7)", "(f 4609434218613702656)", s("a"), L, "(x 1 x010203)", "(a 1)", "(h 1)",
		// the pre-fix dangling reference: ['AQID', bin, bin]
		"(a 1 " + s("AQID") + " (x 2 x010203) (= 2))",
		"(a 1 (x 2 x010203) (= 2) " + s("AQID") + ")",
		"(a 1 " + s("Sensitive [value redacted]") + " (sn 2 (i 1)) (= 2))",
		// same array / hash / long string / sensitive twice
		"(a 1 (a 2 (i 1) " + L + ") (= 2) " + L + ")",
		"(a 1 (h 2 (" + s("k") + " " + L + ")) (= 2) (= 2))",
		"(a 1 (sn 2 " + L + ") (= 2) (sn 3 (= 2)))",
		"(h 1 (" + L + " " + L + ") (" + s("b") + " " + L + "))",
		// non-string keys, a hash used as a key, shared key objects
		"(h 1 ((i 1) " + s("one") + ") ((a 2 (i 1) (i 2)) (= 2)) ((h 3 (" + s("a") + " (i 1))) (= 3)))",
		"(h 1 ((f 4609434218613702656) (u)) ((b t) (df)) ((u) (i 0)) ((df) (i 1)))",
		"(a 1 (h 2 ((i 1) " + L + ")) (= 2) (h 3 ((= 2) (= 2))))",
		"(h 1 ((x 2 x010203) (= 2)) (" + s("AQID") + " (= 2)))",
		// strings that collide with the serializer's own
		"(a 1 " + s("__ptype") + " (df) " + s("Default") + " (sn 2 " + s("__pvalue") + ") " + s("Sensitive") + ")",
		"(a 1 (df) (df) (sn 2 (df)) (x 3 x) (= 3))",
		"(a 1 " + s("default") + " (df) " + s("default") + ")",
		// reserved keys in user hashes (known finding when all keys are strings and __ptype is among them)
		"(h 1 (" + s("__ptype") + " " + s("Sensitive") + ") (" + s("__pvalue") + " (i 1)))",
		"(h 1 (" + s("__ptype") + " " + s("Default") + "))",
		"(h 1 (" + s("__ptype") + " " + s("Hash") + ") (" + s("__pvalue") + " (a 2 (i 1) (i 2))))",
		"(h 1 (" + s("__ptype") + " " + s("NoSuchType") + ") (" + s("__pvalue") + " " + s("x") + "))",
		"(h 1 (" + s("__ptype") + " " + s("Regexp") + ") (" + s("__pvalue") + " " + s("a") + "))",
		"(h 1 (" + s("__pvalue") + " (i 1)) (" + s("__pref") + " (i 0)))",
		"(h 1 (" + s("__ptype") + " " + s("Sensitive") + ") ((i 1) (i 1)))",
		"(a 1 (h 2 (" + s("__pref") + " (i 0))) (= 2))",
		// object instances: shared, nested, with the default attribute omitted, next to strings equal to their type name
		"(o 1 " + h("Verif::Unit") + " x)",
		"(o 1 " + h("Verif::Box") + " x)",
		"(o 1 " + h("Verif::Pair") + " x (x61 (i 1)) (x62 " + L + "))",
		"(a 1 " + s("Verif::Pair") + " (o 2 " + h("Verif::Pair") + " x (x61 (i 1)) (x62 " + L + ")) (= 2) (o 3 " + h("Verif::Box") + " x (x76 (= 2))) " + L + ")",
		"(o 1 " + h("Verif::Pair") + " x (x61 (sn 2 (x 3 x010203))) (x62 (h 4 ((i 1) (= 2)) ((= 3) (df)))))",
		"(h 1 (" + s("k") + " (o 2 " + h("Verif::Box") + " x (x76 (a 3 (o 4 " + h("Verif::Unit") + " x) (= 4))))))",
		// strings at the de-duplication thresholds of the matrix (0, 1, 20 bytes) and one byte to either side, each twice;
		// as hash keys and values too (the threshold counts bytes: 10 two-byte characters are 20 bytes)
		"(a 1 " + s("") + " " + s("") + " " + s("a") + " " + s("a") + " " + s("ab") + " " + s("ab") + ")",
		"(a 1 " + s(str19) + " " + s(str19) + " " + s(str20) + " " + s(str20) + " " + s(str21) + " " + s(str21) + " " + s(uni20) + " " + s(uni20) + ")",
		"(h 1 (" + s(str20) + " " + s(str20) + ") (" + s(str19) + " " + s(str19) + ") (" + s("k") + " (h 2 (" + s(str20) + " " + s(str19) + "))))",
		"(h 1 ((i 1) " + s(str20) + ") (" + s(str20) + " " + s(uni20) + ") (" + s(uni20) + " (sn 2 " + s(str20) + ")))",
		// named types the loader knows, shared, next to the bare name
		"(a 1 (l 2 td " + h("Verif::Pair") + " x) (= 2) " + s("Verif::Pair") + " (l 3 td " + h("Verif::Ints") + " x) " + s("Type") + " (l 4 ty " + h("String") + " x))",
	}
	for _, t := range tdefSrc {
		out = append(out, "(tdefx 1 "+h(t)+" x)", "(a 1 (tdefx 2 "+h(t)+" x) (= 2) "+s("Pcore::ObjectType")+" "+s("attributes")+")")
	}
	// instances of definitions no loader knows (the definition travels in place of the type name), alone, twice, next to
	// the definition itself (before and after), inside a Sensitive / a hash / an instance of a known type
	F, AN, F2, F3 := h(tdefSrc[0]), h(tdefSrc[1]), h(tdefSrc[2]), h(tdefSrc[3])
	out = append(out,
		"(o 1 "+F+" x (x7a (i 3)))", "(o 1 "+AN+" x (x7a (i 3)))", "(o 1 "+F3+" x)", "(o 1 "+F3+" x (x62 "+L+"))",
		"(o 1 "+F2+" x (x61 (i 1)) (x62 "+L+"))", "(o 1 "+F2+" x (x61 (i 1)) (x62 "+L+") (x63 "+s("y")+"))",
		"(a 1 (o 2 "+F+" x (x7a (i 3))) (o 3 "+F+" x (x7a (i 4))) (= 2) (tdefx 4 "+F+" x) "+s("Verif::Fresh")+")",
		"(a 1 (tdefx 2 "+F+" x) (o 3 "+F+" x (x7a (i 3))) (= 3) (= 2))",
		"(a 1 (o 2 "+AN+" x (x7a (i 3))) (o 3 "+AN+" x (x7a (i 3))) (tdefx 4 "+AN+" x) (= 2))",
		"(h 1 ("+s("k")+" (sn 2 (o 3 "+F+" x (x7a (i 3))))) ("+s("Verif::Fresh")+" (= 3)))",
		"(o 1 "+h("Verif::Box")+" x (x76 (o 2 "+F2+" x (x61 (o 3 "+F+" x (x7a (i 3)))) (x62 (= 3)))))",
		"(a 1 (o 2 "+F2+" x (x61 (i 1)) (x62 (i 2))) (o 3 "+h("Verif::Pair")+" x (x61 (i 1)) (x62 (i 2))) (l 4 td "+h("Verif::Pair")+" x))",
		// RuntimeValues: emitted as the text of the wrapped Go value; the same one twice, two that print alike, next to the text
		"(rt 1 x6162)", "(a 1 (rt 2 "+h(longStr)+") (= 2) (rt 3 "+h(longStr)+") "+s("&{"+longStr+"}")+")",
		"(h 1 ((rt 2 x6162) (= 2)) ("+s("k")+" (sn 3 (= 2))))", "(o 1 "+h("Verif::Box")+" x (x76 (rt 2 x)))",
	)
	for _, t := range aliasSrc {
		out = append(out, "(tdefx 1 "+h(t)+" x)", "(a 1 (tdefx 2 "+h(t)+" x) (= 2) "+s(strings.Fields(t)[1])+" (l 3 ty "+h("Array[Integer]")+" x))")
	}
	// an alias of a definition next to the definition and an instance of it
	out = append(out, "(a 1 (tdefx 2 "+h(aliasSrc[3])+" x) (tdefx 3 "+F+" x) (o 4 "+F+" x (x7a (i 3))))",
		"(a 1 (o 4 "+F+" x (x7a (i 3))) (tdefx 2 "+h(aliasSrc[3])+" x) (= 2))")
	i := 0
	for _, k := range leafKinds {
		for _, src := range leafSrc[k] {
			lf := fmt.Sprintf("(l 2 %s %s x)", k, h(src))
			if i%3 == 0 {
				out = append(out, lf)
			}
			// shared, next to a string equal to its text, and as a hash key
			out = append(out, "(a 1 "+s(src)+" "+lf+" (= 2) "+s("/"+src+"/")+")")
			if i%2 == 0 {
				out = append(out, "(h 1 ("+lf+" (= 2)) ("+s("k")+" (= 2)))")
			}
			i++
		}
	}
	return out
}

// deepChains: containers nested inside each other, every level with elements BEFORE and AFTER the nested container (a
// consumer that keeps one frame per open container must come back to the right frame when the nested one ends: a frame
// stack that is reallocated while a doer runs - 8, 16 frames - loses what is added to the enclosing containers afterwards).
// Shapes: arrays, string-keyed hashes, a mix (array / hash / Sensitive / integer-keyed hash / object instance), and a rich
// value whose levels cost three or four stream levels each ({Integer => Sensitive([…, nested, default]), 'tail' => Regexp}).
// Value depths are chosen so that the stream depth passes 8 and 16 from one below to two above, whatever a level costs.
func deepChains() []string {
	L := s(longStr)
	var out []string
	chain := func(depth int, level func(i int, id int64, nested string) string, innermost string) string {
		v := innermost
		for i := depth; i >= 1; i-- {
			v = level(i, int64(10*i), v)
		}
		return v
	}
	arr := func(i int, id int64, nested string) string {
		return fmt.Sprintf("(a %d (i %d) %s %s (i %d))", id, i, nested, s(fmt.Sprintf("after %d", i)), -i)
	}
	hsh := func(i int, id int64, nested string) string {
		return fmt.Sprintf("(h %d (%s (i %d)) (%s %s) (%s %s) (%s %s))", id, s("before"), i, s("nested"), nested, s("after"), s(fmt.Sprintf("after %d", i)), L, L)
	}
	mixed := func(i int, id int64, nested string) string {
		switch i % 5 {
		case 0:
			return arr(i, id, nested)
		case 1:
			return hsh(i, id, nested)
		case 2:
			return fmt.Sprintf("(a %d (i %d) (sn %d %s) %s)", id, i, id+1, nested, L)
		case 3:
			return fmt.Sprintf("(h %d ((i %d) (i %d)) ((i %d) %s) ((b t) %s))", id, i, i, -i, nested, s(fmt.Sprintf("after %d", i)))
		default:
			return fmt.Sprintf("(o %d %s x (x61 %s) (x62 %s))", id, h("Verif::Pair"), nested, s(fmt.Sprintf("after %d", i)))
		}
	}
	rich := func(i int, id int64, nested string) string {
		return fmt.Sprintf("(h %d ((i %d) (sn %d (a %d (i %d) %s (df)))) (%s (l %d rx %s x)))", id, i, id+1, id+2, i, nested, s("tail"), id+3, h("a.*b"))
	}
	for _, d := range []int{6, 7, 8, 9, 10, 15, 16, 17, 18} {
		out = append(out, chain(d, arr, "(a 1 "+s("leaf")+")"), chain(d, hsh, "(h 1 ("+s("leaf")+" (u)))"), chain(d, mixed, "(a 1 "+s("leaf")+" (x 2 x010203))"))
	}
	for _, d := range []int{2, 3, 4, 5, 6} {
		out = append(out, chain(d, rich, "(a 1 "+s("leaf")+")"))
	}
	return out
}

// exhaustive small universe: every array of at most n elements drawn from seven templates, where a repeated template
// is the SAME object (or an equal string) again
func smallUniverse(n int) []string {
	L := s(longStr)
	tmpl := []struct{ def, again string }{
		{"(i 1)", "(i 1)"},
		{L, L},
		{s("AQID"), s("AQID")},
		{"(x 11 x010203)", "(= 11)"},
		{"(a 12 " + L + ")", "(= 12)"},
		{"(sn 13 " + L + ")", "(= 13)"},
		{"(h 14 ((i 1) " + L + "))", "(= 14)"},
	}
	var out []string
	var rec func(prefix []int)
	rec = func(prefix []int) {
		if len(prefix) > 0 {
			used := map[int]bool{}
			t := "(a 1"
			for _, i := range prefix {
				if used[i] {
					t += " " + tmpl[i].again
				} else {
					t += " " + tmpl[i].def
				}
				used[i] = true
			}
			out = append(out, t+")")
		}
		if len(prefix) == n {
			return
		}
		for i := range tmpl {
			rec(append(append([]int{}, prefix...), i))
		}
	}
	rec(nil)
	return out
}

func gen(g *core.G) {
	c := px.CurrentContext()
	ensureCatalogue(c)
	for _, v := range fixedValues() {
		emitText(g, c, v)
	}
	// deep chains: containers inside each other, stream depth around every reallocation of a collector's frame stack
	for _, v := range deepChains() {
		xs, err := sx.Parse(v)
		if err != nil || len(xs) != 1 {
			panic("bad deep chain " + v)
		}
		emitMatrix3(g, c, parse(xs[0], map[int64]*node{}, map[int64]bool{}), false, []int{0, 1000000})
	}
	// exhaustive small universe: all arrays of <= 3 elements over the seven templates (thorough: <= 4 is 2800 arrays, sampled)
	for _, v := range smallUniverse(3) {
		emitText(g, c, v)
	}
	if g.Thorough() {
		u4 := smallUniverse(4)
		for i := 0; i < 600; i++ {
			emitText(g, c, u4[g.Rng.Intn(len(u4))])
		}
	}
	// random DAGs with deliberate sharing
	for i := 0; i < 300*g.Scale/2+150; i++ {
		vg := &vgen{r: g.Rng}
		emitMatrix2(g, c, vg.value(1+g.Rng.Intn(3), false), true)
	}
	// instances of the object types pcore implements in Go (implementation only)
	emitBuiltins(g)
	// the real leaf codecs on their own (implementation only)
	for _, k := range leafKinds {
		for _, src := range leafSrc[k] {
			g.Emit("@codec " + k + " " + h(src))
		}
	}
	for _, kv := range codecExtra {
		g.Emit("@codec " + kv[0] + " " + h(kv[1]))
	}
	r := g.Rng
	for i := 0; i < 300*g.Scale; i++ {
		span := time.Duration(r.Int63n(4000000000)-2000000000) * time.Second
		switch r.Intn(3) {
		case 0:
			span += time.Duration(r.Int63n(1000000000))
		case 1:
			span += time.Duration(r.Int63n(1000)) * time.Millisecond
		}
		g.Emit("@codec ts " + h(fmtSpan(span)))
		t := time.Unix(r.Int63n(8000000000)-4000000000, int64(r.Intn(1000000000))).UTC()
		g.Emit("@codec tm " + h(t.Format("2006-01-02T15:04:05.000000000")+" UTC"))
		ver := fmt.Sprintf("%d.%d.%d", r.Intn(30), r.Intn(30), r.Intn(30))
		if r.Intn(2) == 0 {
			ver += "-" + []string{"rc1", "alpha.1", "0.3.7", "x.7.z.92", "beta"}[r.Intn(5)]
		}
		if r.Intn(3) == 0 {
			ver += "+" + []string{"b5", "20130313144700", "exp.sha.5114f85"}[r.Intn(3)]
		}
		g.Emit("@codec sv " + h(ver))
		// a non-empty range: lo < hi (the empty range has several representations that the semver library does not equate)
		lo, hi := fmt.Sprintf("%d.%d.%d", r.Intn(10), r.Intn(30), r.Intn(30)), fmt.Sprintf("%d.%d.%d", 10+r.Intn(10), r.Intn(30), r.Intn(30))
		rng := []string{">=" + ver, "<" + ver, ">" + lo + " <=" + hi, "~" + hi, "^" + hi, lo + " - " + hi, lo + " || " + hi, fmt.Sprintf("%d.x", r.Intn(9)), fmt.Sprintf("%d.%d.x", r.Intn(9), r.Intn(9))}[r.Intn(9)]
		g.Emit("@codec svr " + h(rng))
	}
	// the Timespan codec against its model: canonical and non-canonical texts of the default format, and near misses
	for _, src := range []string{"0-00:00:00.0", "1-1:2:3.4", "0-99:00:00.0", "00-00:00:00.5", "-0-00:00:00.0", "0-00:00:00.000000001",
		"0-00:00:00.0000000001", "0-00:00:00.", "0-000:00:00.0", "0-00:00:00.0x", " 0-00:00:00.0", "0-00:00:0a.0", "--1-00:00:00.0",
		"106751-23:47:16.854775807", "0-0:0:0.0"} {
		g.Emit("span " + h(src))
	}
	for i := 0; i < 400*g.Scale; i++ {
		src := ""
		if r.Intn(3) == 0 {
			src = "-"
		}
		two := func() string {
			if r.Intn(4) == 0 {
				return strconv.Itoa(r.Intn(10))
			}
			return fmt.Sprintf("%02d", r.Intn(100))
		}
		frac := strconv.FormatInt(r.Int63n(1000000000), 10)
		frac = strings.Repeat("0", r.Intn(10-len(frac))) + frac
		frac = frac[:1+r.Intn(len(frac))]
		src += strconv.Itoa(r.Intn(100000)) + "-" + two() + ":" + two() + ":" + two() + "." + frac
		g.Emit("span " + h(src))
	}
	// malformed ops (outside the quantifier; both sides must answer bad-op)
	for _, v := range []string{"(= 1)", "(a 1 (= 1))", "(a 1 (a 1))", "(h 1 ((i 1)))", "(q)", "(l 1 zz x x)"} {
		g.Emit("ser (o t t 2) (c t t 0) " + v)
	}
}
