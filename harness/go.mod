module verif/harness

go 1.13

require (
	github.com/lyraproj/issue v0.0.0-20190606092846-e082d6813d15
	github.com/lyraproj/pcore v0.0.0
	github.com/lyraproj/semver v0.0.0-20181213164306-02ecea2cd6a2
)

replace github.com/lyraproj/pcore => /repo
