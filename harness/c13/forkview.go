package c13

// What a forked goroutine observes of the shared loader hierarchy (px.Fork / px.Go, px/context.go): the loader chain, the
// variables and the location stack of the CALLER'S context AT THE CALL, whatever the caller does with its context afterwards
// (a context belongs to one goroutine; the caller goes on using — and changing — its own).
//
//	C13 forkview KIND MODE       KIND ::= fork | go       MODE ::= gated | free
//
// The caller's context is wrapped (gateCtx): its Fork() — the snapshot px.Fork takes — is the one call the harness can see.
// Scenario: a scoped loader (child of the context's loader) binds a name; INSIDE `DoWithLoader(scoped, …)`, with variable
// k = 1 and one frame on the location stack, the caller calls px.Fork(ctx, routine) (or px.Go with ctx current); right after
// the call it leaves the DoWithLoader block (the loader is restored), points the context at another loader, sets k = 2 and
// pushes a second frame.  The routine reports whether it finds the scoped name, the value of k and the depth of the stack.
//
//	gated   deterministic: when the snapshot is taken on ANOTHER goroutine than the caller's, the wrapper holds it until the
//	        caller has finished those changes (on a correct tree the snapshot is taken by the caller inside px.Fork and the
//	        gate is never used); one round; variables included
//	free    free-running, 200 rounds, no gate; loader and stack only (a snapshot taken late would iterate the variables map
//	        while the caller writes it — a fatal runtime error that no recover can turn into an observation)
//
// Output: `loader:call var:call stack:call` (`late` instead of `call` for what was observed as the caller left it AFTER the
// call).  Predicate class `fork-view-late`.  The model side answers the same line: the view at the call is the specification
// (C14 proves it of its context model: C14_fork_isolated; `./check C14` reports the same change as `fork-copy-late`).

import (
	"bytes"
	"fmt"
	"runtime"
	"strconv"
	"time"

	"verif/harness/core"
	"verif/harness/sx"

	"github.com/lyraproj/issue/issue"
	"github.com/lyraproj/pcore/pcore"
	"github.com/lyraproj/pcore/px"
	"github.com/lyraproj/pcore/types"
)

func goid() int64 {
	var buf [64]byte
	b := buf[:runtime.Stack(buf[:], false)]
	b = bytes.TrimPrefix(b, []byte("goroutine "))
	if i := bytes.IndexByte(b, ' '); i > 0 {
		if n, err := strconv.ParseInt(string(b[:i]), 10, 64); err == nil {
			return n
		}
	}
	return -1
}

type gateCtx struct {
	px.Context
	owner   int64
	gated   bool
	mutated chan struct{}
	late    bool // the snapshot was taken on another goroutine than the caller's
}

func (g *gateCtx) Fork() px.Context {
	if goid() != g.owner {
		g.late = true
		if g.gated {
			select {
			case <-g.mutated:
			case <-time.After(2 * time.Second):
			}
		}
	}
	return g.Context.Fork()
}

var forkSerial int

type forkObs struct {
	found bool
	k     interface{}
	depth int
	fault interface{}
}

func forkRound(c px.Context, kind string, gated bool) (obs forkObs, late bool) {
	forkSerial++
	base := px.NewParentedLoader(c.Loader())
	other := px.NewParentedLoader(c.Loader())
	scoped := px.NewParentedLoader(base)
	name := px.NewTypedName(px.NsType, fmt.Sprintf("Vf::S%d", forkSerial))
	scoped.SetEntry(name, px.NewLoaderEntry(types.DefaultIntegerType(), nil))
	g := &gateCtx{Context: pcore.NewContext(base, pcore.Logger()), owner: goid(), gated: gated, mutated: make(chan struct{})}
	result := make(chan forkObs, 1)
	routine := func(cf px.Context) {
		var o forkObs
		defer func() {
			if e := recover(); e != nil {
				o.fault = e
			}
			result <- o
		}()
		_, o.found = px.Load(cf, name)
		o.k, _ = cf.Get("k")
		o.depth = len(cf.Stack())
	}
	px.DoWithContext(g, func(px.Context) {
		if gated {
			g.Set("k", 1)
		}
		g.StackPush(issue.NewLocation("caller", 1, 0))
		g.DoWithLoader(scoped, func() {
			if kind == "go" {
				px.Go(routine)
			} else {
				px.Fork(g, routine)
			}
		})
		// the caller goes on with its own context
		g.SetLoader(other)
		if gated {
			g.Set("k", 2)
		}
		g.StackPush(issue.NewLocation("caller", 2, 0))
		close(g.mutated)
		select {
		case obs = <-result:
		case <-time.After(5 * time.Second):
			obs.fault = "the forked routine did not report"
		}
	})
	return obs, g.late
}

func execForkView(c px.Context, args []sx.Sexp) core.Result {
	bad := core.Result{Out: "bad-op", Pred: "n/a"}
	if len(args) != 2 || args[0].IsList || args[1].IsList || (args[0].Atom != "fork" && args[0].Atom != "go") ||
		(args[1].Atom != "gated" && args[1].Atom != "free") {
		return bad
	}
	kind, gated := args[0].Atom, args[1].Atom == "gated"
	rounds := 200
	if gated {
		rounds = 1
	}
	res := core.Result{Out: "loader:call var:call stack:call", Pred: "ok", NonTrivial: true, Tags: []string{"forkview:" + args[1].Atom}}
	for r := 0; r < rounds; r++ {
		obs, late := forkRound(c, kind, gated)
		if obs.fault != nil {
			res.Out = "fault"
			res.Pred = fmt.Sprintf("FAIL crash round %d: the forked routine ended in %v", r, obs.fault)
			return res
		}
		loader, vr, stack := "call", "call", "call"
		if !obs.found {
			loader = "late"
		}
		if gated && obs.k != interface{}(1) {
			vr = "late"
		}
		if obs.depth != 1 {
			stack = "late"
		}
		if loader != "call" || vr != "call" || stack != "call" {
			res.Out = fmt.Sprintf("loader:%s var:%s stack:%s", loader, vr, stack)
			res.Pred = fmt.Sprintf("FAIL fork-view-late round %d: the routine started by px.%s found the name bound in the loader of the call: %v, k = %v (1 at the call), %d stack frame(s) (1 at the call); the snapshot of the caller's context was taken on another goroutine: %v",
				r, map[string]string{"fork": "Fork", "go": "Go"}[kind], obs.found, obs.k, obs.depth, late)
			return res
		}
	}
	return res
}
