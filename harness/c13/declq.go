package c13

// The declare / resolve queue under concurrency (types/types.go resolvableTypes + resolvableTypesLock,
// internal/context.go resolveResolvables): types are DECLARED on one goroutine while another one takes the list of
// declared types over and binds + resolves them.
//
//	C13 declq (pend N) (threads (th STEP*) …) (sched T*)      STEP ::= decl | resolve
//	C13 declstress N R                                          free-running, see execDeclStress
//	C13 queuerace                                               answered by the model side from the regenerated table of sites
//
// N types are declared before the threads start (what init() functions do).  `decl` declares one more type
// (px.RegisterResolvableType: one critical section); `resolve` is px.ResolveResolvables in a context of the thread's own
// whose loader is ONE shared defining loader.  Items are numbered in the order of their declaration (exactly one
// controlled goroutine runs at any time, so the numbering is a function of the schedule).  Every declared type is an
// unresolved Object type wrapped so that its Resolve can be counted, and the shared loader is wrapped so that SetEntry
// can be counted — these two are also the yield points (there is no instrumented line inside resolveResolvables):
//
//	"op"             before every step
//	"declq.bind"     entry of the loader's SetEntry for a declared type  (the element of the popped slice was read BEFORE)
//	"declq.resolve"  entry of the type's Resolve                         (ditto)
//
// Output: `0:[res(b0 b1 r0 r1) ; d2] 1:[d3] | q=(2 3) 0=1/1 1=1/1 2=0/0 3=0/0` — per thread and step what it did
// (bN = bound item N, rN = resolved item N, dN = declared item N), then the items left in the queue and per item how
// often it was bound / resolved.
//
// Predicate (on the implementation): every declared type is either still pending in the queue (once, untouched) or was
// bound exactly once and resolved exactly once, is loadable through the shared loader and IS resolved (its attribute
// exists); every `resolve` resolved exactly what it bound, after it had bound all of it; nothing panicked.
// Classes: crash, queue-item-lost, queue-item-twice, queue-batch-mismatch, queue-item-unusable.

import (
	"fmt"
	"strings"
	"sync"

	"verif/harness/core"
	"verif/harness/sx"

	"github.com/lyraproj/pcore/pcore"
	"github.com/lyraproj/pcore/px"
	"github.com/lyraproj/pcore/types"
)

var qSerial int

type qRun struct {
	serial int
	lock   sync.Mutex // only the free-running stress needs it
	items  []*qType
	bound  []int
	res    []int
	// events of the step each thread is in (deterministic runs: the running thread is scheduler.current)
	events map[int]*[]string
}

// qType is a declared type: an unresolved Object type whose Resolve is counted
type qType struct {
	px.ObjectType
	run *qRun
	id  int
}

func (t *qType) Resolve(c px.Context) px.Type {
	yield("declq.resolve")
	t.run.event(t.id, "r")
	return t.ObjectType.(px.ResolvableType).Resolve(c)
}

// qLoader is the shared defining loader: SetEntry of a declared type is counted
type qLoader struct {
	px.DefiningLoader
	run *qRun
}

func (l *qLoader) SetEntry(name px.TypedName, entry px.LoaderEntry) px.LoaderEntry {
	if it, ok := entry.Value().(*qType); ok && it.run == l.run && name.Namespace() == px.NsType {
		yield("declq.bind")
		l.run.event(it.id, "b")
	}
	return l.DefiningLoader.SetEntry(name, entry)
}

func (r *qRun) event(id int, what string) {
	r.lock.Lock()
	defer r.lock.Unlock()
	if what == "b" {
		r.bound[id]++
	} else {
		r.res[id]++
	}
	if s := active; s != nil {
		if ev := r.events[s.current]; ev != nil {
			*ev = append(*ev, fmt.Sprintf("%s%d", what, id))
		}
	}
}

func (r *qRun) newItem() *qType {
	r.lock.Lock()
	defer r.lock.Unlock()
	id := len(r.items)
	it := &qType{run: r, id: id, ObjectType: types.MakeObjectType(fmt.Sprintf("Vq::L%dT%d", r.serial, id), nil,
		types.Parse(`{attributes => {a => Integer}}`).(px.OrderedMap), false)}
	r.items = append(r.items, it)
	r.bound = append(r.bound, 0)
	r.res = append(r.res, 0)
	return it
}

func (r *qRun) declare() int {
	it := r.newItem()
	px.RegisterResolvableType(it)
	return it.id
}

func newQRun() (*qRun, *qLoader) {
	qSerial++
	r := &qRun{serial: qSerial, events: map[int]*[]string{}}
	return r, &qLoader{DefiningLoader: px.NewParentedLoader(px.StaticLoader()), run: r}
}

// resolveOn runs px.ResolveResolvables on the calling goroutine in a context of its own over the shared loader
func resolveOn(gl *qLoader) (fault bool) {
	defer func() {
		if e := recover(); e != nil {
			fault = true
		}
	}()
	px.DoWithContext(pcore.NewContext(gl, pcore.Logger()), func(c px.Context) { px.ResolveResolvables(c) })
	return false
}

// drainQueue empties the queue of declared types: the ids of this run's items that were still pending ("?" for anything else)
func (r *qRun) drainQueue() []string {
	var ids []string
	for _, rt := range types.PopDeclaredTypes() {
		if it, ok := rt.(*qType); ok && it.run == r {
			ids = append(ids, fmt.Sprint(it.id))
		} else {
			ids = append(ids, "?")
		}
	}
	return ids
}

// verdict: the predicate over the final state
func (r *qRun) verdict(gl *qLoader, pending []string) (class, detail string) {
	pend := map[string]int{}
	for _, p := range pending {
		pend[p]++
	}
	if pend["?"] > 0 {
		return "queue-item-twice", "the queue of declared types holds something this run did not declare"
	}
	for id, it := range r.items {
		p, b, rs := pend[fmt.Sprint(id)], r.bound[id], r.res[id]
		switch {
		case p == 1 && b == 0 && rs == 0:
			continue
		case p == 0 && (b == 0 || rs == 0):
			return "queue-item-lost", fmt.Sprintf("declared type %d is no longer pending and was bound %d and resolved %d times: nobody will ever bind/resolve it", id, b, rs)
		case p == 0 && b == 1 && rs == 1:
		default:
			return "queue-item-twice", fmt.Sprintf("declared type %d: pending %d times, bound %d times, resolved %d times", id, p, b, rs)
		}
		var v interface{}
		var ok bool
		func() {
			defer func() { _ = recover() }()
			quietly(func() { v, ok = px.Load(pcore.NewContext(gl, pcore.Logger()), px.NewTypedName(px.NsType, it.Name())) })
		}()
		if !ok || v != interface{}(it) {
			return "queue-item-unusable", fmt.Sprintf("declared type %d was bound and resolved but cannot be loaded", id)
		}
		if _, has := it.Member("a"); !has {
			return "queue-item-unusable", fmt.Sprintf("declared type %d was bound and its Resolve was called, yet it is unresolved (no attribute)", id)
		}
	}
	return "", ""
}

// queueStuck resolves whatever is pending on the calling goroutine and then looks at the queue: after a resolve with no
// other goroutine around it must be empty.  If it is not (the queue is never emptied), every later resolve would bind and
// resolve everything again — reported at once, and nothing more is declared by this line (the queue of the process would
// only grow).
func queueStuck(c px.Context) (core.Result, bool) {
	px.ResolveResolvables(c)
	if n := len(types.PopDeclaredTypes()); n > 0 {
		return core.Result{Out: "queue-not-emptied", NonTrivial: true,
			Pred: fmt.Sprintf("FAIL queue-item-twice %d declared types are still pending right after ResolveResolvables on the only running goroutine: the list of declared types is handed out without being emptied, every resolve binds and resolves them again", n)}, true
	}
	return core.Result{}, false
}

func execDeclq(c px.Context, args []sx.Sexp) core.Result {
	bad := core.Result{Out: "bad-op", Pred: "n/a"}
	if len(args) != 3 || args[0].Tag() != "pend" || len(args[0].Args()) != 1 || args[1].Tag() != "threads" || args[2].Tag() != "sched" {
		return bad
	}
	pend, err := args[0].Args()[0].AsInt()
	if err != nil || pend < 0 || pend > 64 {
		return bad
	}
	var progs [][]string
	for _, t := range args[1].Args() {
		if t.Tag() != "th" {
			return bad
		}
		p := []string{}
		for _, o := range t.Args() {
			if o.IsList || (o.Atom != "decl" && o.Atom != "resolve") {
				return bad
			}
			p = append(p, o.Atom)
		}
		progs = append(progs, p)
	}
	if len(progs) == 0 {
		return bad
	}
	var schedule []int
	for _, a := range args[2].Args() {
		n, err := a.AsInt()
		if err != nil || n < 0 {
			return bad
		}
		schedule = append(schedule, int(n))
	}

	// whatever other code declared is resolved where it belongs before this run starts
	if r, stuck := queueStuck(c); stuck {
		return r
	}
	run, gl := newQRun()
	defer types.PopDeclaredTypes() // never leave items of this run to the next line
	for i := int64(0); i < pend; i++ {
		run.declare()
	}
	accept := func(site string) bool { return site == "op" || site == "declq.bind" || site == "declq.resolve" }
	declInside := false // a declaration ran while another thread was parked inside a resolve
	outs, sites, preempted := runThreadsB(len(progs), accept, func(t int, parkedAt []string, curStep []int) bool {
		if curStep[t] < len(progs[t]) && progs[t][curStep[t]] == "decl" && parkedAt[t] == "op" {
			for u := range progs {
				if u != t && (parkedAt[u] == "declq.bind" || parkedAt[u] == "declq.resolve") {
					declInside = true
				}
			}
		}
		return false
	}, func(t int) int { return len(progs[t]) }, func(t, i int) string {
		if progs[t][i] == "decl" {
			return fmt.Sprintf("d%d", run.declare())
		}
		var ev []string
		run.events[t] = &ev
		fault := resolveOn(gl)
		run.events[t] = nil
		if fault {
			return "fault(" + strings.Join(ev, " ") + ")"
		}
		return "res(" + strings.Join(ev, " ") + ")"
	}, schedule)
	pending := run.drainQueue()

	var sb strings.Builder
	for t := range progs {
		if t > 0 {
			sb.WriteByte(' ')
		}
		fmt.Fprintf(&sb, "%d:[%s]", t, strings.Join(outs[t], " ; "))
	}
	sb.WriteString(" | q=(" + strings.Join(pending, " ") + ")")
	resolvedAny := false
	for id := range run.items {
		fmt.Fprintf(&sb, " %d=%d/%d", id, run.bound[id], run.res[id])
		resolvedAny = resolvedAny || run.res[id] > 0
	}
	res := core.Result{Out: sb.String(), Pred: "ok", NonTrivial: len(progs) >= 2 && preempted && declInside && resolvedAny}
	for site := range sites {
		res.Tags = append(res.Tags, "site:"+site)
	}
	if declInside {
		res.Tags = append(res.Tags, "declared-while-resolving")
	}
	fail := func(class, detail string) core.Result {
		res.Pred = "FAIL " + class + " " + detail
		res.NonTrivial = true
		return res
	}
	for t := range progs {
		for i, o := range outs[t] {
			if strings.HasPrefix(o, "fault") {
				return fail("crash", fmt.Sprintf("thread %d step %d (%s) panicked: %s", t, i, progs[t][i], o))
			}
			if progs[t][i] != "resolve" {
				continue
			}
			// all binds, then the same items resolved in the same order
			var bs, rs []string
			mixed := false
			for _, e := range strings.Fields(strings.TrimSuffix(strings.TrimPrefix(o, "res("), ")")) {
				if e[0] == 'b' {
					mixed = mixed || len(rs) > 0
					bs = append(bs, e[1:])
				} else {
					rs = append(rs, e[1:])
				}
			}
			if mixed || strings.Join(bs, " ") != strings.Join(rs, " ") {
				return fail("queue-batch-mismatch", fmt.Sprintf("thread %d step %d took a list of declared types over, bound [%s] and resolved [%s]", t, i, strings.Join(bs, " "), strings.Join(rs, " ")))
			}
		}
	}
	if class, detail := run.verdict(gl, pending); class != "" {
		return fail(class, detail)
	}
	return res
}

// execDeclStress: free-running.  R rounds; each: N types are pending, goroutine A resolves (what entering a root pcore.Do
// does first) while goroutine B declares N more as soon as A has bound its first type, then resolves too.  Afterwards all
// 2N types must have been bound once and resolved once, be loadable and resolved.  On a correct tree no timing can fail it.
// Output: `ok`.
func execDeclStress(c px.Context, args []sx.Sexp) core.Result {
	if len(args) != 2 {
		return core.Result{Out: "bad-op", Pred: "n/a"}
	}
	n, err1 := args[0].AsInt()
	rounds, err2 := args[1].AsInt()
	if err1 != nil || err2 != nil || n <= 0 || rounds <= 0 || n > 2000 || rounds > 20 {
		return core.Result{Out: "bad-op", Pred: "n/a"}
	}
	res := core.Result{Out: "ok", Pred: "ok", NonTrivial: true, Tags: []string{"free-running"}}
	if r, stuck := queueStuck(c); stuck {
		return r
	}
	defer types.PopDeclaredTypes()
	for r := int64(0); r < rounds; r++ {
		run, gl := newQRun()
		for i := int64(0); i < n; i++ {
			run.declare()
		}
		later := make([]*qType, n)
		for i := range later {
			later[i] = run.newItem()
		}
		var wg sync.WaitGroup
		faults := make([]bool, 2)
		wg.Add(2)
		go func() {
			defer wg.Done()
			faults[0] = resolveOn(gl)
		}()
		go func() {
			defer wg.Done()
			for i := 0; i < 200000; i++ {
				run.lock.Lock()
				started := run.bound[0] > 0
				run.lock.Unlock()
				if started {
					break
				}
			}
			for _, it := range later {
				px.RegisterResolvableType(it)
			}
			faults[1] = resolveOn(gl)
		}()
		wg.Wait()
		pending := run.drainQueue()
		if faults[0] || faults[1] {
			res.Pred = fmt.Sprintf("FAIL crash round %d: ResolveResolvables panicked while another goroutine declared types", r)
			return res
		}
		if len(pending) > 0 {
			// B resolved after its declarations: nothing can be left
			res.Pred = fmt.Sprintf("FAIL queue-item-twice round %d: %d declared types are still (or again) pending after both goroutines resolved", r, len(pending))
			return res
		}
		if class, detail := run.verdict(gl, pending); class != "" {
			res.Pred = fmt.Sprintf("FAIL %s round %d: %s", class, r, detail)
			return res
		}
	}
	return res
}

func genDeclq(g *core.G) {
	g.Emit("queuerace")
	g.Emit("declstress 300 2")
	th := func(p []string) string { return "(th " + strings.Join(p, " ") + ")" }
	// slots a program needs at most when `items` types can be around: decl 1, resolve 1 + 2*items
	slotsOf := func(p []string, items int) int {
		n := 0
		for _, s := range p {
			if s == "decl" {
				n++
			} else {
				n += 1 + 2*items
			}
		}
		return n
	}
	var progs [][]string
	for _, x := range []string{"decl", "resolve"} {
		progs = append(progs, []string{x})
		for _, y := range []string{"decl", "resolve"} {
			progs = append(progs, []string{x, y})
		}
	}
	// 1. exhaustive: 0..2 types pending, two threads with programs of <= 2 steps over {decl, resolve}, EVERY schedule
	//    (thorough: 0..3 pending and additionally three threads with one-step programs … see below)
	maxPend := 2
	if g.Thorough() {
		maxPend = 3
	}
	for pend := 0; pend <= maxPend; pend++ {
		for i, p := range progs {
			for j, q := range progs {
				if j < i {
					continue
				}
				decls := 0
				for _, s := range append(append([]string{}, p...), q...) {
					if s == "decl" {
						decls++
					}
				}
				items := pend + decls
				emit := func(s []int) {
					g.Emit(fmt.Sprintf("declq (pend %d) (threads %s %s) %s", pend, th(p), th(q), schedStr(s)))
				}
				a, b := slotsOf(p, items), slotsOf(q, items)
				switch {
				case a+b <= 10 || (g.Thorough() && a+b <= 13):
					interleavings([]int{a, b}, emit)
				case g.Thorough():
					bounded([]int{a, b}, 4, emit)
				default:
					bounded([]int{a, b}, 3, emit)
				}
			}
		}
	}
	if g.Thorough() {
		for pend := 0; pend <= 2; pend++ {
			for _, p := range progs[:4] {
				for _, q := range progs[:4] {
					for _, r := range progs[:4] {
						items := pend + 3
						bounded([]int{slotsOf(p, items), slotsOf(q, items), slotsOf(r, items)}, 3, func(s []int) {
							g.Emit(fmt.Sprintf("declq (pend %d) (threads %s %s %s) %s", pend, th(p), th(q), th(r), schedStr(s)))
						})
					}
				}
			}
		}
	}
	// 2. random: 0..20 pending (so that the first array of 16 slots overflows now and then), 2–4 threads × 1–4 steps
	r := g.Rng
	for i := 0; i < 1500*g.Scale; i++ {
		pend := r.Intn(5)
		if r.Intn(6) == 0 {
			pend = 12 + r.Intn(9)
		}
		nt := 2 + r.Intn(3)
		var ths []string
		total := 0
		for t := 0; t < nt; t++ {
			var p []string
			for j, m := 0, 1+r.Intn(4); j < m; j++ {
				if r.Intn(5) < 3 {
					p = append(p, "decl")
					total++
				} else {
					p = append(p, "resolve")
					total += 2 + pend
				}
			}
			ths = append(ths, th(p))
		}
		var s []int
		for len(s) < total {
			t := r.Intn(nt)
			for j, m := 0, 1+r.Intn(4); j < m; j++ {
				s = append(s, t)
			}
		}
		g.Emit(fmt.Sprintf("declq (pend %d) (threads %s) %s", pend, strings.Join(ths, " "), schedStr(s)))
	}
	// 3. malformed
	for _, l := range []string{"declq (pend 65) (threads (th decl)) (sched)", "declq (pend 1) (threads) (sched)", "declq (pend -1) (threads (th)) (sched)",
		"declq (pend 1) (threads (th pop)) (sched)", "declq (pend 1) (threads (th resolve)) (sched -1)", "declq (pend x61) (threads (th)) (sched)",
		"declq (pend 1) (threads (xx)) (sched 0)", "declq (pend 0) (threads (th)) (sched 0 7 0)", "declstress 0 1"} {
		g.Emit(l)
	}
}
