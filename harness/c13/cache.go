package c13

// The lazily built type caches of shared values (third clause of C13: "an inferred type is never observed half-built").
//
//   C13 cache (val VAL) (threads (th OP*) (th OP*) …) (sched T*)
//
//   VAL ::= (a E*)              an Array of scalars
//         | (h (K E)*)          a Hash; keys are non-empty strings or integers, distinct
//   E, K ::= (i N) | (s xHEX)
//   OP  ::= ptype               v.PType()              (Array/Hash.privateReducedType)
//         | dtype               px.DetailedValueType(v) (Array/Hash.privateDetailedType)
//         | str                 v.PType(); v.String()  (ToString asks PType() for the format first; the text does not depend on it)
//         | hkey | eq | inst    px.ToKey(v) | v.Equals(copy) both ways | px.IsInstance(its detailed type, v): reads that
//                               touch no lazily built type (the model: one step, answer full)
//
// All threads work on ONE shared value.  Yield points: "op" (harness) and the verifhook points placed right after the
// publication of the cache pointer in the four fill functions (array|hash.reduced|detailed.published).
// Every operation is a pure read, so the only sequential answer is the one a single goroutine gets on a fresh equal
// value; an answer is rendered `full` when it equals that, `half` when it differs, `fault` when the operation crashed.
// Output: `0:[full ; half] 1:[full]`.  Predicate classes: `half-built` (some answer is `half`), `half-built-crash` (some answer is `fault`).

import (
	"fmt"
	"strings"

	"verif/harness/c12"
	"verif/harness/core"
	"verif/harness/sx"

	"github.com/lyraproj/pcore/px"
	"github.com/lyraproj/pcore/types"
)

func scalarOf(e sx.Sexp) px.Value {
	a := e.Args()
	switch e.Tag() {
	case "i":
		if len(a) == 1 {
			if n, err := a[0].AsInt(); err == nil {
				return types.WrapInteger(n)
			}
		}
	case "s":
		if len(a) == 1 {
			if b, err := a[0].AsBytes(); err == nil {
				return types.WrapString(string(b))
			}
		}
	}
	panic(c12.Bad{})
}

// buildVal makes a fresh value (a new object every time it is called)
func buildVal(e sx.Sexp) px.Value {
	switch e.Tag() {
	case "a":
		es := []px.Value{}
		for _, x := range e.Args() {
			es = append(es, scalarOf(x))
		}
		return types.WrapValues(es)
	case "h":
		ents := []*types.HashEntry{}
		seen := map[string]bool{}
		for _, kv := range e.Args() {
			if !kv.IsList || len(kv.List) != 2 {
				panic(c12.Bad{})
			}
			k := scalarOf(kv.List[0])
			if s, ok := k.(px.StringValue); ok && s.String() == "" {
				panic(c12.Bad{})
			}
			if seen[kv.List[0].String()] {
				panic(c12.Bad{})
			}
			seen[kv.List[0].String()] = true
			ents = append(ents, types.WrapHashEntry(k, scalarOf(kv.List[1])))
		}
		return types.WrapHash(ents)
	}
	panic(c12.Bad{})
}

// cacheOp: the cache access of the op runs under the scheduler; rendering the answer does not (printing a type walks
// temporary Arrays of its own, whose cache fills would otherwise be scheduled too)
func cacheOp(v px.Value, op string, fresh func() px.Value, refType px.Type) (res string) {
	switch op {
	case "ptype":
		t := v.PType()
		quietly(func() { res = t.String() })
	case "dtype":
		t := px.DetailedValueType(v)
		quietly(func() { res = t.String() })
	case "str":
		v.PType() // what ToString does first (px.GetFormat(formatMap, v.PType()))
		quietly(func() { res = v.String() })
	case "hkey":
		res = fmt.Sprintf("%x", string(px.ToKey(v)))
	case "eq":
		res = fmt.Sprint(v.Equals(fresh(), nil), fresh().Equals(v, nil))
	case "inst":
		res = fmt.Sprint(px.IsInstance(refType, v))
	default:
		panic(c12.Bad{})
	}
	return
}

var cacheOps = map[string]bool{"ptype": true, "dtype": true, "str": true, "hkey": true, "eq": true, "inst": true}

func execCache(args []sx.Sexp) core.Result {
	if len(args) != 3 || args[0].Tag() != "val" || len(args[0].Args()) != 1 || args[1].Tag() != "threads" || args[2].Tag() != "sched" {
		return core.Result{Out: "bad-op", Pred: "n/a"}
	}
	vs := args[0].Args()[0]
	shared := buildVal(vs)
	var progs [][]string
	for _, t := range args[1].Args() {
		if t.Tag() != "th" {
			return core.Result{Out: "bad-op", Pred: "n/a"}
		}
		var p []string
		for _, o := range t.Args() {
			if o.IsList || !cacheOps[o.Atom] {
				return core.Result{Out: "bad-op", Pred: "n/a"}
			}
			p = append(p, o.Atom)
		}
		progs = append(progs, p)
	}
	if len(progs) == 0 {
		return core.Result{Out: "bad-op", Pred: "n/a"}
	}
	var schedule []int
	for _, a := range args[2].Args() {
		n, err := a.AsInt()
		if err != nil || n < 0 {
			return core.Result{Out: "bad-op", Pred: "n/a"}
		}
		schedule = append(schedule, int(n))
	}
	// the sequential answers, on a fresh equal value
	ref := map[string]string{}
	fresh := func() px.Value { return buildVal(vs) }
	refType := px.DetailedValueType(fresh())
	for op := range cacheOps {
		ref[op] = cacheOp(fresh(), op, fresh, refType)
	}
	raw := make([][]string, len(progs))
	cacheSites := func(site string) bool {
		return site == "op" || strings.HasSuffix(site, ".reduced.published") || strings.HasSuffix(site, ".detailed.published")
	}
	outs, sites, preempted := runThreads(len(progs), cacheSites, func(t int) int { return len(progs[t]) }, func(t, i int) string {
		s := cacheOp(shared, progs[t][i], fresh, refType) // a panic is rendered "fault" by runThreads
		raw[t] = append(raw[t], s)
		if s == ref[progs[t][i]] {
			return "full"
		}
		return "half"
	}, schedule)
	var sb strings.Builder
	for t := range progs {
		if t > 0 {
			sb.WriteByte(' ')
		}
		fmt.Fprintf(&sb, "%d:[%s]", t, strings.Join(outs[t], " ; "))
	}
	res := core.Result{Out: sb.String(), Pred: "ok", NonTrivial: preempted && len(progs) >= 2}
	for site := range sites {
		res.Tags = append(res.Tags, "site:"+site)
	}
	res.Tags = append(res.Tags, "val:"+vs.Tag())
	for t := range progs {
		for i, o := range outs[t] {
			switch o {
			case "fault":
				res.Pred = fmt.Sprintf("FAIL half-built-crash thread %d step %d (%s of the shared value) ended in a runtime fault: a published type object was read before it was completed", t, i, progs[t][i])
				res.NonTrivial = true
				return res
			case "half":
				if res.Pred == "ok" {
					got := "?"
					if i < len(raw[t]) {
						got = raw[t][i]
					}
					res.Pred = fmt.Sprintf("FAIL half-built thread %d step %d: %s answered %s, sequentially %s", t, i, progs[t][i], got, ref[progs[t][i]])
					res.NonTrivial = true
				}
			}
		}
	}
	return res
}

func genCache(g *core.G) {
	vals := []string{
		"(a (i 1) (i 2) (i 3))", "(a (s x61))", "(a)", "(a (i 1) (s x61))",
		"(h ((s x61) (i 1)) ((s x62) (s x78)))", "(h ((i 1) (i 2)))", "(h ((s x61) (i 1)) ((i 2) (i 3)))", "(h)",
	}
	ops := []string{"ptype", "dtype", "str"}
	allOps := []string{"ptype", "dtype", "str", "hkey", "eq", "inst"}
	var progs [][]string
	for _, x := range ops {
		progs = append(progs, []string{x})
		for _, y := range ops {
			progs = append(progs, []string{x, y})
		}
	}
	slotsOf := func(p []string) int {
		n := 0
		for range p {
			n += 2 // op, and the publication point of a cache fill (ToString asks PType() too)
		}
		return n
	}
	// exhaustive: every value × every pair of programs of <= 2 steps × every schedule
	for _, v := range vals {
		for _, p := range progs {
			for _, q := range progs {
				interleavings([]int{slotsOf(p), slotsOf(q)}, func(s []int) {
					g.Emit("cache (val " + v + ") (threads (th " + strings.Join(p, " ") + ") (th " + strings.Join(q, " ") + ")) " + schedStr(s))
				})
			}
		}
	}
	// … and every pair of single steps over all six reads
	for _, v := range vals {
		for _, x := range allOps {
			for _, y := range allOps {
				interleavings([]int{2, 2}, func(s []int) {
					g.Emit("cache (val " + v + ") (threads (th " + x + ") (th " + y + ")) " + schedStr(s))
				})
			}
		}
	}
	// random: 3 threads × 1..3 steps
	r := g.Rng
	for i := 0; i < 500*g.Scale; i++ {
		var ths []string
		total := 0
		for t := 0; t < 3; t++ {
			var p []string
			for j, m := 0, 1+r.Intn(3); j < m; j++ {
				p = append(p, allOps[r.Intn(len(allOps))])
				total += 2
			}
			ths = append(ths, "(th "+strings.Join(p, " ")+")")
		}
		var s []int
		for len(s) < total {
			t := r.Intn(3)
			for j, m := 0, 1+r.Intn(3); j < m; j++ {
				s = append(s, t)
			}
		}
		g.Emit("cache (val " + vals[r.Intn(len(vals))] + ") (threads " + strings.Join(ths, " ") + ") " + schedStr(s))
	}
	for _, l := range []string{"cache (val (a (q 1))) (threads (th ptype)) (sched)", "cache (val (h ((s x) (i 1)))) (threads (th ptype)) (sched)",
		"cache (val (a)) (threads (th frob)) (sched)", "cache (val (a)) (threads) (sched)"} {
		g.Emit(l)
	}
}
