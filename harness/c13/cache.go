package c13

// The lazily built type caches of shared values (third clause of C13: "an inferred type is never observed half-built").
//
//   C13 cache (val VAL) (threads (th OP*) (th OP*) …) (sched T*)
//
//   VAL ::= (a (E | (y))*)      an Array of scalars and SLOW elements: (y) is a value of a harness-defined kind whose own
//                               PType() is a yield point ("elem.ptype") and answers NotUndef — the fill of the Array's
//                               caches can so be preempted INSIDE its fold over the elements
//         | (h (K E)*)          a Hash; keys are non-empty strings or integers, distinct
//   E, K ::= (i N) | (s xHEX)
//   OP  ::= ptype               v.PType()              (Array/Hash.privateReducedType)
//         | dtype               px.DetailedValueType(v) (Array/Hash.privateDetailedType)
//         | str                 v.PType(); v.String()  (ToString asks PType() for the format first; the text does not depend on it)
//         | hkey | eq | inst    px.ToKey(v) | v.Equals(copy) both ways | px.IsInstance(its detailed type, v): reads that
//                               touch no lazily built type (the model: one step, answer full)
//
// All threads work on ONE shared value.  Yield points: "op" (harness) and the verifhook points placed right after the
// publication of the cache pointer in the four fill functions (array|hash.reduced|detailed.published).
// Every operation is a pure read, so the only sequential answer is the one a single goroutine gets on a fresh equal
// value; an answer is rendered `full` when it equals that, `fault` when the operation crashed; otherwise `half` when the
// type handed out is at least a type of the shared value (px.IsInstance, asked at the moment it was handed out — the
// placeholder of the known finding is one) and `narrow` when it is not.  A value with slow elements is only asked for
// its types (ptype, dtype, str).
// Output: `0:[full ; half] 1:[full]`.  Predicate classes: `narrow-type` (some answer is `narrow`), `half-built` (some
// answer is `half`), `half-built-crash` (some answer is `fault`).
//
//   C13 typerace N R    free-running, see execTypeRace

import (
	"fmt"
	"io"
	"strings"
	"sync"

	"verif/harness/c12"
	"verif/harness/core"
	"verif/harness/sx"

	"github.com/lyraproj/pcore/px"
	"github.com/lyraproj/pcore/types"
)

func scalarOf(e sx.Sexp) px.Value {
	a := e.Args()
	switch e.Tag() {
	case "i":
		if len(a) == 1 {
			if n, err := a[0].AsInt(); err == nil {
				return types.WrapInteger(n)
			}
		}
	case "s":
		if len(a) == 1 {
			if b, err := a[0].AsBytes(); err == nil {
				return types.WrapString(string(b))
			}
		}
	}
	panic(c12.Bad{})
}

// slowElem: a value whose own type inference is a yield point
type slowElem struct{}

func (v *slowElem) String() string                                         { return "slow" }
func (v *slowElem) Equals(o interface{}, g px.Guard) bool                  { return v == o }
func (v *slowElem) ToString(b io.Writer, s px.FormatContext, g px.RDetect) { _, _ = io.WriteString(b, "slow") }
func (v *slowElem) PType() px.Type {
	yield("elem.ptype")
	return types.DefaultNotUndefType()
}

func hasSlow(e sx.Sexp) bool {
	for _, x := range e.Args() {
		if x.Tag() == "y" {
			return true
		}
	}
	return false
}

// buildVal makes a fresh value (a new object every time it is called)
func buildVal(e sx.Sexp) px.Value {
	switch e.Tag() {
	case "a":
		es := []px.Value{}
		for _, x := range e.Args() {
			if x.Tag() == "y" && len(x.Args()) == 0 && x.IsList {
				es = append(es, &slowElem{})
				continue
			}
			es = append(es, scalarOf(x))
		}
		return types.WrapValues(es)
	case "h":
		ents := []*types.HashEntry{}
		seen := map[string]bool{}
		for _, kv := range e.Args() {
			if !kv.IsList || len(kv.List) != 2 {
				panic(c12.Bad{})
			}
			k := scalarOf(kv.List[0])
			if s, ok := k.(px.StringValue); ok && s.String() == "" {
				panic(c12.Bad{})
			}
			if seen[kv.List[0].String()] {
				panic(c12.Bad{})
			}
			seen[kv.List[0].String()] = true
			ents = append(ents, types.WrapHashEntry(k, scalarOf(kv.List[1])))
		}
		return types.WrapHash(ents)
	}
	panic(c12.Bad{})
}

// cacheOp: the cache access of the op runs under the scheduler; rendering the answer does not (printing a type walks
// temporary Arrays of its own, whose cache fills would otherwise be scheduled too)
func cacheOp(v px.Value, op string, fresh func() px.Value, refType px.Type) (res string) {
	res, _ = cacheOp2(v, op, fresh, refType)
	return
}

// cacheOp2 also tells whether a type that was handed out is a type of the value (asked at once: the object may be completed
// in place later)
func cacheOp2(v px.Value, op string, fresh func() px.Value, refType px.Type) (res string, sound bool) {
	sound = true
	switch op {
	case "ptype":
		t := v.PType()
		quietly(func() { res = t.String(); sound = px.IsInstance(t, v) })
	case "dtype":
		t := px.DetailedValueType(v)
		quietly(func() { res = t.String(); sound = px.IsInstance(t, v) })
	case "str":
		v.PType() // what ToString does first (px.GetFormat(formatMap, v.PType()))
		quietly(func() { res = v.String() })
	case "hkey":
		res = fmt.Sprintf("%x", string(px.ToKey(v)))
	case "eq":
		res = fmt.Sprint(v.Equals(fresh(), nil), fresh().Equals(v, nil))
	case "inst":
		res = fmt.Sprint(px.IsInstance(refType, v))
	default:
		panic(c12.Bad{})
	}
	return
}

var cacheOps = map[string]bool{"ptype": true, "dtype": true, "str": true, "hkey": true, "eq": true, "inst": true}

func execCache(args []sx.Sexp) core.Result {
	if len(args) != 3 || args[0].Tag() != "val" || len(args[0].Args()) != 1 || args[1].Tag() != "threads" || args[2].Tag() != "sched" {
		return core.Result{Out: "bad-op", Pred: "n/a"}
	}
	vs := args[0].Args()[0]
	shared := buildVal(vs)
	var progs [][]string
	for _, t := range args[1].Args() {
		if t.Tag() != "th" {
			return core.Result{Out: "bad-op", Pred: "n/a"}
		}
		var p []string
		for _, o := range t.Args() {
			if o.IsList || !cacheOps[o.Atom] {
				return core.Result{Out: "bad-op", Pred: "n/a"}
			}
			p = append(p, o.Atom)
		}
		progs = append(progs, p)
	}
	if len(progs) == 0 {
		return core.Result{Out: "bad-op", Pred: "n/a"}
	}
	var schedule []int
	for _, a := range args[2].Args() {
		n, err := a.AsInt()
		if err != nil || n < 0 {
			return core.Result{Out: "bad-op", Pred: "n/a"}
		}
		schedule = append(schedule, int(n))
	}
	if hasSlow(vs) {
		for _, p := range progs {
			for _, o := range p {
				if o != "ptype" && o != "dtype" && o != "str" {
					return core.Result{Out: "bad-op", Pred: "n/a"}
				}
			}
		}
	}
	// the sequential answers, on a fresh equal value
	ref := map[string]string{}
	fresh := func() px.Value { return buildVal(vs) }
	refType := px.DetailedValueType(fresh())
	for op := range cacheOps {
		if hasSlow(vs) && op != "ptype" && op != "dtype" && op != "str" {
			continue
		}
		ref[op] = cacheOp(fresh(), op, fresh, refType)
	}
	raw := make([][]string, len(progs))
	cacheSites := func(site string) bool {
		return site == "op" || site == "elem.ptype" || strings.HasSuffix(site, ".reduced.published") || strings.HasSuffix(site, ".detailed.published")
	}
	outs, sites, preempted := runThreads(len(progs), cacheSites, func(t int) int { return len(progs[t]) }, func(t, i int) string {
		s, sound := cacheOp2(shared, progs[t][i], fresh, refType) // a panic is rendered "fault" by runThreads
		raw[t] = append(raw[t], s)
		if s == ref[progs[t][i]] {
			return "full"
		}
		if !sound {
			return "narrow"
		}
		return "half"
	}, schedule)
	var sb strings.Builder
	for t := range progs {
		if t > 0 {
			sb.WriteByte(' ')
		}
		fmt.Fprintf(&sb, "%d:[%s]", t, strings.Join(outs[t], " ; "))
	}
	res := core.Result{Out: sb.String(), Pred: "ok", NonTrivial: preempted && len(progs) >= 2}
	for site := range sites {
		res.Tags = append(res.Tags, "site:"+site)
	}
	res.Tags = append(res.Tags, "val:"+vs.Tag())
	for t := range progs {
		for i, o := range outs[t] {
			if o == "narrow" {
				got := "?"
				if i < len(raw[t]) {
					got = raw[t][i]
				}
				res.Pred = fmt.Sprintf("FAIL narrow-type thread %d step %d: %s handed out %s, which is NOT a type of the shared value (sequentially %s): an intermediate value of a type that is completed in place after its publication", t, i, progs[t][i], got, ref[progs[t][i]])
				res.NonTrivial = true
				return res
			}
		}
	}
	for t := range progs {
		for i, o := range outs[t] {
			switch o {
			case "fault":
				res.Pred = fmt.Sprintf("FAIL half-built-crash thread %d step %d (%s of the shared value) ended in a runtime fault: a published type object was read before it was completed", t, i, progs[t][i])
				res.NonTrivial = true
				return res
			case "half":
				if res.Pred == "ok" {
					got := "?"
					if i < len(raw[t]) {
						got = raw[t][i]
					}
					res.Pred = fmt.Sprintf("FAIL half-built thread %d step %d: %s answered %s, sequentially %s", t, i, progs[t][i], got, ref[progs[t][i]])
					res.NonTrivial = true
				}
			}
		}
	}
	return res
}

func genCache(g *core.G) {
	vals := []string{
		"(a (i 1) (i 2) (i 3))", "(a (s x61))", "(a)", "(a (i 1) (s x61))",
		"(h ((s x61) (i 1)) ((s x62) (s x78)))", "(h ((i 1) (i 2)))", "(h ((s x61) (i 1)) ((i 2) (i 3)))", "(h)",
	}
	ops := []string{"ptype", "dtype", "str"}
	allOps := []string{"ptype", "dtype", "str", "hkey", "eq", "inst"}
	var progs [][]string
	for _, x := range ops {
		progs = append(progs, []string{x})
		for _, y := range ops {
			progs = append(progs, []string{x, y})
		}
	}
	slotsOf := func(p []string) int {
		n := 0
		for range p {
			n += 2 // op, and the publication point of a cache fill (ToString asks PType() too)
		}
		return n
	}
	// exhaustive: every value × every pair of programs of <= 2 steps × every schedule
	for _, v := range vals {
		for _, p := range progs {
			for _, q := range progs {
				interleavings([]int{slotsOf(p), slotsOf(q)}, func(s []int) {
					g.Emit("cache (val " + v + ") (threads (th " + strings.Join(p, " ") + ") (th " + strings.Join(q, " ") + ")) " + schedStr(s))
				})
			}
		}
	}
	// … and every pair of single steps over all six reads
	for _, v := range vals {
		for _, x := range allOps {
			for _, y := range allOps {
				interleavings([]int{2, 2}, func(s []int) {
					g.Emit("cache (val " + v + ") (threads (th " + x + ") (th " + y + ")) " + schedStr(s))
				})
			}
		}
	}
	// Arrays with slow elements: the fill is preempted inside its fold; every pair of programs of <= 2 steps over the three
	// type reads, every schedule when it needs <= 8 slots, else every schedule with <= 2 (thorough 3) switches
	slowVals := []string{"(a (i 1) (y))", "(a (y) (i 1))", "(a (y) (y))", "(a (i 1) (y) (s x61))", "(a (i 1) (i 2) (y))"}
	for _, v := range slowVals {
		ns := strings.Count(v, "(y)")
		for _, p := range progs {
			for _, q := range progs {
				a, b := (2+ns)*len(p), (2+ns)*len(q)
				emit := func(s []int) {
					g.Emit("cache (val " + v + ") (threads (th " + strings.Join(p, " ") + ") (th " + strings.Join(q, " ") + ")) " + schedStr(s))
				}
				switch {
				case a+b <= 8:
					interleavings([]int{a, b}, emit)
				case g.Thorough():
					bounded([]int{a, b}, 3, emit)
				default:
					bounded([]int{a, b}, 2, emit)
				}
			}
		}
	}
	g.Emit("typerace 20000 3")
	// random: 3 threads × 1..3 steps
	r := g.Rng
	for i := 0; i < 500*g.Scale; i++ {
		var ths []string
		total := 0
		for t := 0; t < 3; t++ {
			var p []string
			for j, m := 0, 1+r.Intn(3); j < m; j++ {
				p = append(p, allOps[r.Intn(len(allOps))])
				total += 2
			}
			ths = append(ths, "(th "+strings.Join(p, " ")+")")
		}
		var s []int
		for len(s) < total {
			t := r.Intn(3)
			for j, m := 0, 1+r.Intn(3); j < m; j++ {
				s = append(s, t)
			}
		}
		g.Emit("cache (val " + vals[r.Intn(len(vals))] + ") (threads " + strings.Join(ths, " ") + ") " + schedStr(s))
	}
	for _, l := range []string{"cache (val (a (y))) (threads (th hkey)) (sched)", "cache (val (a (y 1))) (threads (th ptype)) (sched)", "typerace 0 1",
		"cache (val (h ((s x61) (y)))) (threads (th ptype)) (sched)", "cache (val (a (q 1))) (threads (th ptype)) (sched)", "cache (val (h ((s x) (i 1)))) (threads (th ptype)) (sched)",
		"cache (val (a)) (threads (th frob)) (sched)", "cache (val (a)) (threads) (sched)"} {
		g.Emit(l)
	}
}

// execTypeRace: free-running.  R rounds; each: a fresh shared Array [r, <nested Array of N mixed scalars>]; one goroutine
// infers its type for the first time (a.PType()) while three readers keep asking for it; every type a reader is handed
// must be a type of the array (px.IsInstance) — the placeholder of the known finding is one, an element type that only
// covers the elements folded so far is not.  On a correct tree no timing can fail it.  Output: `ok`; class `narrow-type`.
func execTypeRace(args []sx.Sexp) core.Result {
	if len(args) != 2 {
		return core.Result{Out: "bad-op", Pred: "n/a"}
	}
	n, err1 := args[0].AsInt()
	rounds, err2 := args[1].AsInt()
	if err1 != nil || err2 != nil || n <= 0 || rounds <= 0 || n > 200000 || rounds > 50 {
		return core.Result{Out: "bad-op", Pred: "n/a"}
	}
	res := core.Result{Out: "ok", Pred: "ok", NonTrivial: true, Tags: []string{"free-running"}}
	for r := int64(0); r < rounds; r++ {
		inner := make([]px.Value, n)
		for i := range inner {
			if i%2 == 0 {
				inner[i] = types.WrapInteger(int64(i))
			} else {
				inner[i] = types.WrapString(fmt.Sprintf("s%d", i))
			}
		}
		a := types.WrapValues([]px.Value{types.WrapInteger(r), types.WrapValues(inner)})
		start := make(chan struct{})
		done := make(chan struct{})
		bad := make(chan string, 4)
		var wg sync.WaitGroup
		wg.Add(4)
		go func() {
			defer wg.Done()
			defer close(done)
			defer func() { _ = recover() }()
			<-start
			a.PType()
		}()
		for k := 0; k < 3; k++ {
			go func() {
				defer wg.Done()
				defer func() {
					if e := recover(); e != nil {
						bad <- fmt.Sprintf("a reader of the type of the shared Array panicked: %v", e)
					}
				}()
				<-start
				for {
					t := a.PType()
					if !px.IsInstance(t, a) {
						bad <- fmt.Sprintf("a reader was handed %.80s, which is not a type of the shared Array", t.String())
						return
					}
					select {
					case <-done:
						return
					default:
					}
				}
			}()
		}
		close(start)
		wg.Wait()
		select {
		case m := <-bad:
			res.Pred = fmt.Sprintf("FAIL narrow-type round %d: %s", r, m)
			return res
		default:
		}
	}
	return res
}
