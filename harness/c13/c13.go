// Package c13: concurrent use of a shared loader hierarchy under a deterministic scheduler (property C13).
//
//	C13 sched (tree NODE*) (threads (th STEP*) (th STEP*) …) (sched T*)
//
// NODE / STEP as in harness/c12 (load, def, add, has, get, disc).  Every thread is a goroutine executing its steps in
// order against ONE shared world of real loaders; the only places where a goroutine can be preempted are the yield points
//
//	"op"                  (harness) before each step,
//	"get.hold"            (harness) inside `get`: between GetEntry and the read of the entry's Value(),
//	"parented.loadentry"  (/repo, verifhook) parentedLoader.LoadEntry, after the parent's answer, before the own lookup,
//	"load.miss-window"    (/repo, verifhook) load(), after LoadEntry answered nil, before the placeholder SetEntry,
//	"parented.discover"   (/repo, verifhook) parentedLoader.Discover, after the parent's list, before the own iteration.
//
// A schedule is a list of thread ids: each entry releases that thread until its next yield point (an entry naming a thread
// that has finished, or that does not exist, is skipped); after the list the remaining threads run to completion in id order.
//
// Output: `0:[ans ; ans] 1:[ans] | <final own contents of every loader as in C12>`.
//
//	C13 lockrace   the model side answers from the lock-set table regenerated from loader/*.go: `none`, or an access site
//	               that breaks the lock discipline with a conflicting site (the implementation side answers `none`)
//
// Direct predicate (on the implementation only):
//
//	crash             an operation ended in a runtime fault
//	entry-mutated     an entry handed out by GetEntry changed its Value() while the reader held it
//	disagree          a lookup answered a value that is not the (write-once) binding of any loader on its chain
//	discover-not-sandwiched   a discovery missed a name the chain bound before it began, or answered a name the chain does
//	                  not bind when it ends (C13_discover_sandwich; holds also for the runs of the known finding)
//	not-linearizable  no sequential order of the same operations (respecting each thread's program order), run against
//	                  the C12 reference map, explains all answers and the final bindings;
//	                  `not-linearizable-ancestor-gains` when every unexplainable answer is a load/discover through a
//	                  loader one of whose proper ancestors is given a definition (of that name) by another thread.
package c13

import (
	"fmt"
	"sort"
	"strings"

	"verif/harness/c12"
	"verif/harness/core"
	"verif/harness/sx"

	"github.com/lyraproj/pcore/px"
	"github.com/lyraproj/pcore/verifhook"
)

func init() {
	verifhook.Yield = yield
	core.Register(&core.Prop{
		ID:   "C13",
		Rule: "distinct (programs, schedule) lines; non-trivial = at least two threads ran, a definition was accepted and a thread was preempted inside an operation",
		Gen:  gen,
		Exec: exec,
	})
}

// ---- deterministic scheduler ------------------------------------------------------------------------------

type event struct {
	done bool
	site string
}

type scheduler struct {
	release []chan struct{}
	events  chan event
	current int
	sites   map[string]int
	accept  func(site string) bool // the yield points this kind of op line schedules at; any other point is passed through
	quiet   bool                   // set by the running thread around code whose yield points are not part of the op
	// where every thread is parked ("" = running or finished) and the step it is in; maintained by the controller, may be
	// read by the one thread that is running
	parkedAt []string
	curStep  []int
}

// active is the scheduler of the op line being executed; exactly one controlled goroutine runs at any time (the one
// the controller released last), so the caller of Yield is always thread `current`.
var active *scheduler

func yield(site string) {
	s := active
	if s == nil || s.quiet || !s.accept(site) {
		// e.g. the type-cache points reached from inside SetEntry's error path (which prints types while it holds the
		// loader lock): parking there would park a goroutine inside a critical section
		return
	}
	t := s.current
	s.events <- event{site: site}
	<-s.release[t]
}

// runThreads runs n goroutines under the schedule; thread t executes steps(t) steps, step i by exec(t, i) (a panic
// escaping exec is the answer "fault").  Returns the answers per thread, the yield sites hit and whether some thread was
// preempted inside a step.
func runThreads(n int, accept func(site string) bool, steps func(t int) int, exec func(t, i int) string, schedule []int) (outs [][]string, sites map[string]int, preempted bool) {
	return runThreadsB(n, accept, nil, steps, exec, schedule)
}

// runThreadsB: as runThreads; `blocked(t, step, site, parkedAt, curStep)` tells whether releasing thread t (parked at
// `site` inside its step number `step`) would make it block on a mutex held by a parked thread — such a schedule entry is
// skipped (the model does the same), and the final drain passes over the threads until all have finished.
func runThreadsB(n int, accept func(site string) bool, blocked func(t int, parkedAt []string, curStep []int) bool,
	steps func(t int) int, exec func(t, i int) string, schedule []int) (outs [][]string, sites map[string]int, preempted bool) {
	s := &scheduler{events: make(chan event), sites: map[string]int{}, accept: accept}
	active = s
	defer func() { active = nil }()
	const (
		parked = iota
		finished
	)
	state := make([]int, n)
	parkedAt := make([]string, n)
	curStep := make([]int, n)
	s.parkedAt, s.curStep = parkedAt, curStep
	outs = make([][]string, n)
	wait := func(t int) {
		ev := <-s.events
		if ev.done {
			state[t] = finished
			parkedAt[t] = ""
		} else {
			state[t] = parked
			parkedAt[t] = ev.site
			s.sites[ev.site]++
		}
		curStep[t] = len(outs[t])
	}
	isBlocked := func(t int) bool { return blocked != nil && blocked(t, parkedAt, curStep) }
	// start the threads one at a time; each parks at its first "op" yield (or finishes at once)
	for t := 0; t < n; t++ {
		s.release = append(s.release, make(chan struct{}))
		s.current = t
		go func(t int) {
			defer func() { s.events <- event{done: true} }()
			for i, m := 0, steps(t); i < m; i++ {
				yield("op")
				outs[t] = append(outs[t], func() (o string) {
					defer func() {
						if e := recover(); e != nil {
							o = "fault"
						}
					}()
					return exec(t, i)
				}())
			}
		}(t)
		wait(t)
	}
	step := func(t int) {
		s.current = t
		s.release[t] <- struct{}{}
		wait(t)
	}
	last := -1
	for _, t := range schedule {
		if t >= n || state[t] == finished || isBlocked(t) {
			continue
		}
		if last >= 0 && last != t && state[last] == parked {
			preempted = true
		}
		step(t)
		last = t
	}
	for pass := 0; pass < n; pass++ {
		for t := 0; t < n; t++ {
			for state[t] == parked && !isBlocked(t) {
				step(t)
			}
		}
	}
	return outs, s.sites, preempted
}

// quietly runs f on the calling (controlled) goroutine with every yield point passed through
func quietly(f func()) {
	if s := active; s != nil {
		s.quiet = true
		defer func() { s.quiet = false }()
	}
	f()
}

type thread struct {
	steps []c12.Step
	outs  []string
	ctxs  []px.Context
}

func exec(c px.Context, op string, args []sx.Sexp) (res core.Result) {
	if op == "structrace" {
		return execStructRace(args)
	}
	if op == "cacherace" && len(args) == 0 {
		// answered by the model side from the regenerated table of lazily initialised fields: `none`, or the site that
		// publishes an object before it is complete
		return core.Result{Out: "none", Pred: "ok"}
	}
	if op == "lockrace" && len(args) == 0 {
		// answered by the model side from the regenerated lock-set table: `none`, or the racing pair of access sites
		return core.Result{Out: "none", Pred: "ok"}
	}
	defer func() {
		if e := recover(); e != nil {
			if _, ok := e.(c12.Bad); ok {
				res = core.Result{Out: "bad-op", Pred: "n/a"}
				return
			}
			panic(e)
		}
	}()
	if op == "cache" {
		return execCache(args)
	}
	if op == "declq" {
		return execDeclq(c, args)
	}
	if op == "forkview" {
		return execForkView(c, args)
	}
	if op == "typerace" {
		return execTypeRace(args)
	}
	if op == "sysloader" {
		return execSysLoader(args)
	}
	if op == "declstress" {
		return execDeclStress(c, args)
	}
	if op == "queuerace" && len(args) == 0 {
		// answered by the model side from the regenerated table of the guarded package-level queues: `none`, or the site
		// that lets a slice escape its critical section while the guarded variable keeps the backing array
		return core.Result{Out: "none", Pred: "ok"}
	}
	if op == "files" {
		return execFiles(args)
	}
	if op == "nested" {
		return execNested(args)
	}
	if op != "sched" {
		return core.Result{Out: "bad-op", Pred: "n/a"}
	}
	if len(args) != 3 || args[0].Tag() != "tree" || args[1].Tag() != "threads" || args[2].Tag() != "sched" {
		return core.Result{Out: "bad-op", Pred: "n/a"}
	}
	parent, forked := c12.ParseTree(args[0])
	var ths []*thread
	for _, t := range args[1].Args() {
		if t.Tag() != "th" {
			return core.Result{Out: "bad-op", Pred: "n/a"}
		}
		ths = append(ths, &thread{steps: c12.ParseSteps(len(parent), t.Args())})
	}
	if len(ths) == 0 {
		return core.Result{Out: "bad-op", Pred: "n/a"}
	}
	var schedule []int
	for _, a := range args[2].Args() {
		n, err := a.AsInt()
		if err != nil || n < 0 {
			return core.Result{Out: "bad-op", Pred: "n/a"}
		}
		schedule = append(schedule, int(n))
	}
	return run(parent, forked, ths, schedule)
}

func run(parent []int, forked []bool, ths []*thread, schedule []int) core.Result {
	w := c12.Build(parent, forked)
	ref := c12.NewRef(parent)
	keys := map[string]bool{}
	for _, th := range ths {
		for i := 0; i < w.Loaders(); i++ {
			th.ctxs = append(th.ctxs, w.NewContext(i))
		}
		for _, s := range th.steps {
			if s.Op() != "disc" {
				keys[ref.Key(s.Name())] = true
			}
		}
	}
	for k := range keys {
		if px.StaticLoader().HasEntry(px.TypedNameFromMapKey(k)) {
			return core.Result{Out: "bad-op", Pred: "n/a"}
		}
	}
	sortedKeys := make([]string, 0, len(keys))
	for k := range keys {
		sortedKeys = append(sortedKeys, k)
	}
	sort.Strings(sortedKeys)

	mutated := ""
	unsandwiched := ""
	loaderSites := func(site string) bool {
		return site == "op" || site == "get.hold" || site == "parented.loadentry" || site == "load.miss-window" || site == "parented.discover"
	}
	outs, sites, preempted := runThreads(len(ths), loaderSites, func(t int) int { return len(ths[t].steps) },
		func(t, i int) string { return execStep(w, ths[t], ths[t].steps[i], keys, &mutated, &unsandwiched) }, schedule)
	for t, th := range ths {
		th.outs = outs[t]
	}

	// ---- output
	var sb strings.Builder
	for t, th := range ths {
		if t > 0 {
			sb.WriteByte(' ')
		}
		fmt.Fprintf(&sb, "%d:[%s]", t, strings.Join(th.outs, " ; "))
	}
	sb.WriteString(" |")
	final := make([]map[string]string, w.Loaders()) // loader → key → bound value
	for i := 0; i < w.Loaders(); i++ {
		final[i] = map[string]string{}
		fmt.Fprintf(&sb, " %d:{", i)
		first := true
		for _, k := range sortedKeys {
			var e px.LoaderEntry
			if r := c12.Safely(func() { e = w.Loader(i).GetEntry(px.TypedNameFromMapKey(k)) }); r != "" || e == nil {
				continue
			}
			if !first {
				sb.WriteByte(' ')
			}
			first = false
			sb.WriteString(sx.Str(k).String())
			sb.WriteByte('=')
			if e.Value() == nil {
				sb.WriteByte('-')
			} else {
				v := c12.Canon(e.Value())
				sb.WriteString(v)
				final[i][k] = v
			}
		}
		sb.WriteByte('}')
	}

	// ---- predicate
	res := core.Result{Out: sb.String(), Pred: "ok"}
	accepted, ran := false, 0
	for _, th := range ths {
		if len(th.steps) > 0 {
			ran++
		}
		for i, st := range th.steps {
			if (st.Op() == "def" || st.Op() == "add") && th.outs[i] == "ok" {
				accepted = true
			}
		}
	}
	res.NonTrivial = accepted && ran >= 2 && preempted
	for site, n := range sites {
		if n > 0 {
			res.Tags = append(res.Tags, "site:"+site)
		}
	}
	sort.Strings(res.Tags)
	fail := func(class, detail string) core.Result {
		res.Pred = "FAIL " + class + " " + detail
		res.NonTrivial = true
		return res
	}
	for t, th := range ths {
		for i, o := range th.outs {
			if o == "fault" {
				return fail("crash", fmt.Sprintf("thread %d step %d (%s) ended in a runtime fault", t, i, th.steps[i].Op()))
			}
			if th.steps[i].Op() == "load" && strings.HasPrefix(o, "reported") {
				return fail("crash", fmt.Sprintf("thread %d step %d: a lookup raised %s", t, i, o))
			}
		}
	}
	if mutated != "" {
		return fail("entry-mutated", mutated)
	}
	if unsandwiched != "" {
		return fail("discover-not-sandwiched", unsandwiched)
	}
	for t, th := range ths {
		for i, o := range th.outs {
			st := th.steps[i]
			if !strings.HasPrefix(o, "found ") {
				continue
			}
			v := strings.TrimPrefix(o, "found ")
			k := ref.Key(st.Name())
			ok := false
			switch st.Op() {
			case "load":
				for _, a := range ref.Chain(st.Loader()) {
					ok = ok || final[a][k] == v
				}
			case "get":
				ok = final[st.Loader()][k] == v
			}
			if !ok {
				return fail("disagree", fmt.Sprintf("thread %d step %d (%s) answered %s, which is not the final binding of a loader on its chain", t, i, st.Op(), v))
			}
		}
	}
	lin := newLin(parent, ths, final)
	if !lin.search(-1, -1) {
		return fail(lin.classify(), lin.describe())
	}
	return res
}

// execStep runs one step on the calling goroutine (a controlled thread) and renders its answer as C12 does.
func execStep(w *c12.World, th *thread, s c12.Step, keys map[string]bool, mutated, unsandwiched *string) string {
	l := w.Loader(s.Loader())
	ctx := th.ctxs[s.Loader()]
	switch s.Op() {
	case "load":
		var v interface{}
		var ok bool
		if r := c12.Safely(func() { v, ok = px.Load(ctx, s.Name().TypedName()) }); r != "" {
			return r
		}
		if ok {
			return "found " + c12.Canon(v)
		}
		return "notfound"
	case "has":
		var ok bool
		if r := c12.Safely(func() { ok = l.HasEntry(s.Name().TypedName()) }); r != "" {
			return r
		}
		return sx.B(ok)
	case "get":
		var e px.LoaderEntry
		if r := c12.Safely(func() { e = l.GetEntry(s.Name().TypedName()) }); r != "" {
			return r
		}
		render := func() string {
			switch {
			case e == nil:
				return "absent"
			case e.Value() == nil:
				return "placeholder"
			}
			return "found " + c12.Canon(e.Value())
		}
		first := render()
		yield("get.hold")
		if again := render(); again != first && *mutated == "" {
			*mutated = fmt.Sprintf("an entry of loader %d read as %q, and as %q after another goroutine ran", s.Loader(), first, again)
		}
		return first
	case "def":
		if r := c12.Safely(func() { l.SetEntry(s.Name().TypedName(), px.NewLoaderEntry(s.Val().Build(), nil)) }); r != "" {
			return r
		}
		return "ok"
	case "add":
		if r := c12.Safely(func() { px.AddTypes(ctx, s.Val().Build().(px.Type)) }); r != "" {
			return r
		}
		return "ok"
	case "disc":
		var found []px.TypedName
		pred := func(tn px.TypedName) bool { return keys[tn.MapKey()] && c12.KeyPred(s.PredName(), tn.MapKey()) }
		// what the chain binds right now (HasEntry has no yield point: the other controlled goroutines are parked, so this
		// is the state at the beginning — and, below, at the end — of the discovery)
		boundNow := func() map[string]bool {
			m := map[string]bool{}
			quietly(func() {
				for k := range keys {
					tn := px.TypedNameFromMapKey(k)
					if pred(tn) && l.HasEntry(tn) {
						m[k] = true
					}
				}
			})
			return m
		}
		before := boundNow()
		if r := c12.Safely(func() { found = l.Discover(ctx, pred) }); r != "" {
			return r
		}
		after := boundNow()
		ks := make([]string, len(found))
		got := map[string]bool{}
		for i, tn := range found {
			ks[i] = sx.Str(tn.MapKey()).String()
			got[tn.MapKey()] = true
			if !after[tn.MapKey()] && *unsandwiched == "" {
				*unsandwiched = fmt.Sprintf("a discovery through loader %d answered %s, which no loader of the chain binds when the discovery ends", s.Loader(), sx.Str(tn.MapKey()))
			}
		}
		for k := range before {
			if !got[k] && *unsandwiched == "" {
				*unsandwiched = fmt.Sprintf("a discovery through loader %d did not answer %s, which the chain bound before the discovery began", s.Loader(), sx.Str(k))
			}
		}
		return "[" + strings.Join(ks, " ") + "]"
	}
	return "bad-step"
}

// ---- linearizability against the C12 reference map -------------------------------------------------------

type lin struct {
	wild     map[[2]int]bool // answers ignored by the current search
	parent   []int
	ths      []*thread
	final    []map[string]string
	ref      *c12.Ref
	pos      []int
	culprits [][2]int // (thread, step) whose answer alone, when ignored, makes the run explainable
}

func newLin(parent []int, ths []*thread, final []map[string]string) *lin {
	return &lin{parent: parent, ths: ths, final: final}
}

// expected answer of the reference for step s in the current reference state; apply = also perform a definition.
// Returns the answer and an undo function.
func (l *lin) apply(s c12.Step) (string, func()) {
	r := l.ref
	k := ""
	if s.Op() != "disc" {
		k = r.Key(s.Name())
	}
	switch s.Op() {
	case "load":
		if s.Name().Auth() == string(px.RuntimeNameAuthority) {
			if v, ok := r.Resolve(s.Loader(), k); ok {
				return "found " + v, nil
			}
		}
		return "notfound", nil
	case "has":
		_, ok := r.Resolve(s.Loader(), k)
		return sx.B(ok), nil
	case "get":
		if v, ok := r.Own(s.Loader(), k); ok {
			return "found " + v, nil
		}
		return "unbound", nil
	case "def", "add":
		_, had := r.Own(s.Loader(), k)
		a := r.Define(s.Loader(), k, s.Val().String())
		if !had && a == "ok" {
			return a, func() { r.Undefine(s.Loader(), k) }
		}
		return a, nil
	case "disc":
		ks := r.Discover(s.Loader(), func(key string) bool { return c12.KeyPred(s.PredName(), key) })
		for i, k := range ks {
			ks[i] = sx.Str(k).String()
		}
		return "[" + strings.Join(ks, " ") + "]", nil
	}
	return "?", nil
}

func normalize(op, out string) string {
	switch {
	case (op == "def" || op == "add") && strings.HasPrefix(out, "reported PCORE_ATTEMPT_TO_REDEFINE"):
		return "rejected"
	case op == "get" && (out == "absent" || out == "placeholder"):
		return "unbound"
	}
	return out
}

// search: is there an interleaving explaining all answers (except the one at (wt, ws), if any) and the final bindings?
func (l *lin) search(wt, ws int) bool {
	l.ref = c12.NewRef(l.parent)
	l.pos = make([]int, len(l.ths))
	return l.dfs(wt, ws)
}

// searchIgnoring: the same with a whole set of answers ignored
func (l *lin) searchIgnoring(w map[[2]int]bool) bool {
	l.wild = w
	defer func() { l.wild = nil }()
	return l.search(-1, -1)
}

func (l *lin) dfs(wt, ws int) bool {
	all := true
	for t, th := range l.ths {
		i := l.pos[t]
		if i >= len(th.steps) {
			continue
		}
		all = false
		want, undo := l.apply(th.steps[i])
		if want == normalize(th.steps[i].Op(), th.outs[i]) || (t == wt && i == ws) || l.wild[[2]int{t, i}] {
			l.pos[t]++
			ok := l.dfs(wt, ws)
			l.pos[t]--
			if ok {
				return true
			}
		}
		if undo != nil {
			undo()
		}
	}
	if !all {
		return false
	}
	// every operation placed: the final bindings must be the reference's
	for i := range l.final {
		for _, k := range keysOf(l.final[i], l.ref, i) {
			v, _ := l.ref.Own(i, k)
			if v != l.final[i][k] {
				return false
			}
		}
	}
	return true
}

func keysOf(m map[string]string, r *c12.Ref, i int) []string {
	seen := map[string]bool{}
	var ks []string
	for k := range m {
		seen[k] = true
		ks = append(ks, k)
	}
	// keys bound in the reference but not in the implementation
	for _, k := range r.Discover(i, func(string) bool { return true }) {
		if _, own := r.Own(i, k); own && !seen[k] {
			ks = append(ks, k)
		}
	}
	return ks
}

// classify: name the failure by what could not be explained
func (l *lin) classify() string {
	l.culprits = nil
	for t, th := range l.ths {
		for i := range th.steps {
			if l.search(t, i) {
				l.culprits = append(l.culprits, [2]int{t, i})
			}
		}
	}
	if len(l.culprits) == 0 {
		// no single answer accounts for the failure: several lookups may each have raced with a definition in an ancestor
		w := map[[2]int]bool{}
		for t, th := range l.ths {
			for i := range th.steps {
				if l.ancestorGains(t, i) {
					w[[2]int{t, i}] = true
				}
			}
		}
		if len(w) > 1 && l.searchIgnoring(w) {
			for c := range w {
				l.culprits = append(l.culprits, c)
			}
			sort.Slice(l.culprits, func(i, j int) bool {
				return l.culprits[i][0] < l.culprits[j][0] || (l.culprits[i][0] == l.culprits[j][0] && l.culprits[i][1] < l.culprits[j][1])
			})
			return "not-linearizable-ancestor-gains"
		}
		return "not-linearizable"
	}
	// one unexplainable load/discover that raced with a definition in a proper ancestor accounts for the failure
	for _, c := range l.culprits {
		if l.ancestorGains(c[0], c[1]) {
			return "not-linearizable-ancestor-gains"
		}
	}
	return "not-linearizable"
}

// ancestorGains: step (t,i) is a load/discover through a loader one of whose PROPER ancestors is given a definition
// (for a load: of the same name) by another thread
func (l *lin) ancestorGains(t, i int) bool {
	s := l.ths[t].steps[i]
	if s.Op() != "load" && s.Op() != "disc" {
		return false
	}
	ref := c12.NewRef(l.parent)
	chain := ref.Chain(s.Loader())
	for t2, th := range l.ths {
		if t2 == t {
			continue
		}
		for _, d := range th.steps {
			if d.Op() != "def" && d.Op() != "add" {
				continue
			}
			if s.Op() == "load" && ref.Key(d.Name()) != ref.Key(s.Name()) {
				continue
			}
			for _, a := range chain[:len(chain)-1] {
				if a == d.Loader() {
					return true
				}
			}
		}
	}
	return false
}

func (l *lin) describe() string {
	var parts []string
	for _, c := range l.culprits {
		parts = append(parts, fmt.Sprintf("thread %d step %d (%s → %s)", c[0], c[1], l.ths[c[0]].steps[c[1]].Op(), l.ths[c[0]].outs[c[1]]))
	}
	if len(parts) == 0 {
		return "no sequential order of the operations explains the answers and the final bindings"
	}
	return "no sequential order explains the answers; explainable when ignoring the answer of: " + strings.Join(parts, " | ")
}

// ---- generators ---------------------------------------------------------------------------------------------

func nm(ns, name, a string) string { return fmt.Sprintf("(n %s %s %s)", ns, sx.Str(name), a) }

// slots: an upper bound of the number of scheduler slots a step needs on a loader at the given depth (1 = root)
func slots(op string, depth int) int {
	switch op {
	case "load":
		return 2 + depth // op, one per chain level, miss window
	case "disc":
		return 1 + depth
	case "get":
		return 2
	}
	return 1
}

type gstep struct {
	text  string
	slots int
}

// interleavings of n0 zeros and n1 ones (… of the multiset given by counts)
func interleavings(counts []int, emit func([]int)) {
	var cur []int
	var rec func()
	rec = func() {
		done := true
		for t := range counts {
			if counts[t] > 0 {
				done = false
				counts[t]--
				cur = append(cur, t)
				rec()
				cur = cur[:len(cur)-1]
				counts[t]++
			}
		}
		if done {
			emit(append([]int(nil), cur...))
		}
	}
	rec()
}

// bounded: the schedules with at most `switches` changes of thread, given per-thread slot bounds
func bounded(counts []int, switches int, emit func([]int)) {
	var cur []int
	var rec func(last, sw int)
	rec = func(last, sw int) {
		emit(append([]int(nil), cur...)) // the rest runs to completion in id order
		for t := range counts {
			if t == last || counts[t] == 0 {
				continue
			}
			if last >= 0 && sw == 0 {
				continue
			}
			for n := 1; n <= counts[t]; n++ {
				for i := 0; i < n; i++ {
					cur = append(cur, t)
				}
				counts[t] -= n
				nsw := sw
				if last >= 0 {
					nsw--
				}
				rec(t, nsw)
				counts[t] += n
				cur = cur[:len(cur)-n]
			}
		}
	}
	rec(-1, switches)
}

func schedStr(s []int) string {
	p := make([]string, len(s))
	for i, t := range s {
		p[i] = fmt.Sprint(t)
	}
	return "(sched " + strings.Join(p, " ") + ")"
}

func progStr(p []gstep) string {
	t := make([]string, len(p))
	for i, s := range p {
		t[i] = s.text
	}
	return "(th " + strings.Join(t, " ") + ")"
}

func progSlots(p []gstep) int {
	n := 0
	for _, s := range p {
		n += s.slots
	}
	return n
}

func gen(g *core.G) {
	g.Emit("lockrace")
	g.Emit("cacherace")
	// free-running: the first use of the member map of a big shared Struct type
	g.Emit("structrace 20000 3")
	g.Emit("structrace 5000 5")
	a := nm("type", "a", "r")
	A := nm("type", "A", "r")
	// 1. exhaustive: two threads, programs of <= 2 steps over a two-level chain and one name, ALL schedules
	chain2 := "(tree (p -1) (p 0))"
	alpha := []gstep{
		{"(load 1 " + a + ")", slots("load", 2)},
		{"(def 0 " + A + " (t 1))", 1},
		{"(def 1 " + a + " (t 2))", 1},
		{"(disc 1 all)", slots("disc", 2)},
		{"(get 1 " + a + ")", 2},
		{"(has 1 " + a + ")", 1},
		{"(load 0 " + a + ")", slots("load", 1)},
	}
	var progs [][]gstep
	for _, x := range alpha {
		progs = append(progs, []gstep{x})
	}
	for _, x := range alpha {
		for _, y := range alpha {
			progs = append(progs, []gstep{x, y})
		}
	}
	for i, p := range progs {
		for j, q := range progs {
			if j < i {
				continue // the same pair with the thread ids exchanged
			}
			if !g.Thorough() && len(p) == 2 && len(q) == 2 && progSlots(p)+progSlots(q) > 10 {
				// quick tier: the longest pairs get the schedules with at most three switches
				bounded([]int{progSlots(p), progSlots(q)}, 3, func(s []int) {
					g.Emit("sched " + chain2 + " (threads " + progStr(p) + " " + progStr(q) + ") " + schedStr(s))
				})
				continue
			}
			interleavings([]int{progSlots(p), progSlots(q)}, func(s []int) {
				g.Emit("sched " + chain2 + " (threads " + progStr(p) + " " + progStr(q) + ") " + schedStr(s))
			})
		}
	}
	if g.Thorough() {
		// 2 threads × 3 steps and 3 threads × 2 steps over a four-step alphabet, schedules with at most 2 switches
		small := []gstep{alpha[0], alpha[1], alpha[2], alpha[3]}
		var p3 [][]gstep
		for _, x := range small {
			for _, y := range small {
				for _, z := range small {
					p3 = append(p3, []gstep{x, y, z})
				}
			}
		}
		for i, p := range p3 {
			for j, q := range p3 {
				if j < i {
					continue
				}
				bounded([]int{progSlots(p), progSlots(q)}, 2, func(s []int) {
					g.Emit("sched " + chain2 + " (threads " + progStr(p) + " " + progStr(q) + ") " + schedStr(s))
				})
			}
		}
		var p2 [][]gstep
		for _, x := range small {
			for _, y := range small {
				p2 = append(p2, []gstep{x, y})
			}
		}
		for i, p := range p2 {
			for j, q := range p2 {
				for k, r := range p2 {
					if j < i || k < j {
						continue
					}
					bounded([]int{progSlots(p), progSlots(q), progSlots(r)}, 2, func(s []int) {
						g.Emit("sched " + chain2 + " (threads " + progStr(p) + " " + progStr(q) + " " + progStr(r) + ") " + schedStr(s))
					})
				}
			}
		}
	}

	// 2. random: 2–4 threads × 1–4 steps over trees of depth <= 3, schedules in random runs (a thread keeps running for
	//    a random number of slots, as with randomly changing priorities)
	r := g.Rng
	names := []string{a, A, nm("type", "b", "r"), nm("type", "m::a", "r"), nm("type", "a", "o")}
	vals := []string{"(t 1)", "(t 1)", "(t 2)", "(s 1)", "(al x61 1)"}
	n := 6000 * g.Scale
	for i := 0; i < n; i++ {
		nl := 2 + r.Intn(2)
		var tree []string
		for j := 0; j < nl; j++ {
			p := j - 1
			if j == 2 && r.Intn(3) == 0 {
				p = 0
			}
			kind := "p"
			if p >= 0 && r.Intn(3) == 0 {
				kind = "f"
			}
			tree = append(tree, fmt.Sprintf("(%s %d)", kind, p))
		}
		nt := 2 + r.Intn(3)
		k := 1 + r.Intn(2)
		local := make([]string, k)
		for j := range local {
			local[j] = names[r.Intn(len(names))]
		}
		var ths []string
		total := 0
		for t := 0; t < nt; t++ {
			var steps []string
			for j, m := 0, 1+r.Intn(3); j < m; j++ {
				l := r.Intn(nl)
				x := local[r.Intn(k)]
				switch r.Intn(9) {
				case 0, 1, 2:
					steps = append(steps, fmt.Sprintf("(load %d %s)", l, x))
					total += 2 + nl
				case 3, 4, 5:
					steps = append(steps, fmt.Sprintf("(def %d %s %s)", l, x, vals[r.Intn(len(vals))]))
					total++
				case 6:
					steps = append(steps, fmt.Sprintf("(has %d %s)", l, x))
					total++
				case 7:
					steps = append(steps, fmt.Sprintf("(get %d %s)", l, x))
					total += 2
				case 8:
					steps = append(steps, fmt.Sprintf("(disc %d all)", l))
					total += 1 + nl
				}
			}
			ths = append(ths, "(th "+strings.Join(steps, " ")+")")
		}
		var s []int
		for len(s) < total {
			t := r.Intn(nt)
			for j, m := 0, 1+r.Intn(4); j < m; j++ {
				s = append(s, t)
			}
		}
		g.Emit("sched (tree " + strings.Join(tree, " ") + ") (threads " + strings.Join(ths, " ") + ") " + schedStr(s))
	}

	// the lazily built type caches of a shared value
	genCache(g)
	// file-based loading: the per-name instantiation lock
	genFiles(g)
	// nested lookups of a type-file instantiator (implementation only)
	genNested(g)
	// the declare / resolve queue
	genDeclq(g)
	// the runtime's lazily created system loader: first use after Reset by several goroutines at once (free-running)
	g.Emit("sysloader 6 3")
	g.Emit("sysloader 1 1") // malformed: fewer than two goroutines
	// what a forked goroutine sees of the caller's context: the state at the call of px.Fork / px.Go
	for _, k := range []string{"fork", "go"} {
		g.Emit("forkview " + k + " gated")
		g.Emit("forkview " + k + " free")
	}
	g.Emit("forkview spawn gated") // malformed
	g.Emit("forkview fork")        // malformed

	// 3. malformed
	for _, l := range []string{
		"sched (tree (p -1)) (threads) (sched)", "sched (tree (p -1)) (threads (th (load 1 " + a + "))) (sched 0)",
		"sched (tree (p -1)) (threads (th)) (sched -1)", "sched (tree) (threads (th)) (sched)", "nop",
		"sched (tree (p -1)) (threads (xx)) (sched)", "sched (tree (p -1)) (threads (th (load 0 " + a + "))) (sched 0 7 0 0 0)",
	} {
		g.Emit(l)
	}
}
