package c13

// The instantiator's NESTED lookups (implementation only: lines start with `@`; no model counterpart yet).
//
//	@C13 nested (threads (th (load xN)*) …) (sched T*)          N ∈ {a, A, b, B, c, C}
//
// One directory, one file-based loader over it:
//
//	types/a.pp   type A = B            resolving A looks B up through the SAME loader, from inside A's instantiator —
//	types/b.pp   type B = C            i.e. while the goroutine holds A's name mutex and A's placeholder is installed
//	types/c.pp   type C = Integer[7,7]
//
// Yield points as for `files` lines.  Which NAME a goroutine is parked for is reconstructed from the order of the sites
// inside one step (the hook sites carry no name): every "filebased.loadentry" inside a step starts the lookup of the next
// name of the chain a → b → c.  A goroutine holds the name mutex of every name whose "placeholder" point it has passed
// since its step began; a goroutine parked at "enter" for a name whose mutex another parked goroutine holds is not
// released (it would block).
// Output: `0:[found A=7 ; …] 1:[…] | reads a=1 b=1 c=1 | A=7 B=7 C=7` — per step the answer (`found X=7` when the type
// handed out accepts 7 and rejects 8, `found X=?` when it does not: an alias that was resolved against a placeholder),
// the reads per file, and what the three names are AFTER the run (looked up on the main goroutine).
// Predicate classes: `instantiated-twice`, `crash` (a lookup raised or faulted), `nested-unresolved` (a name is found but
// is not the type its file chain denotes — during or after the run), `not-linearizable-placeholder-visible` (a lookup of
// a name that has a file answered not-found while its instantiation was in progress on another goroutine: the known
// finding), `file-hidden` (not-found with no instantiation in progress).

import (
	"fmt"
	"io/ioutil"
	"os"
	"path/filepath"
	"strings"

	"verif/harness/c12"
	"verif/harness/core"
	"verif/harness/sx"

	"github.com/lyraproj/pcore/loader"
	"github.com/lyraproj/pcore/pcore"
	"github.com/lyraproj/pcore/px"
	"github.com/lyraproj/pcore/types"
)

var nestedChain = []string{"a", "b", "c"}

func nestedDir() (string, map[string]string) {
	dir := filepath.Join(os.TempDir(), "verif-c13-nested-abc")
	if err := os.MkdirAll(filepath.Join(dir, "types"), 0755); err != nil {
		panic(err)
	}
	bodies := map[string]string{"a": "type A = B\n", "b": "type B = C\n", "c": "type C = Integer[7,7]\n"}
	paths := map[string]string{}
	for n, body := range bodies {
		p := filepath.Join(dir, "types", n+".pp")
		paths[n] = p
		if _, err := os.Stat(p); err != nil {
			tmp, err := ioutil.TempFile(filepath.Join(dir, "types"), ".tmp-")
			if err != nil {
				panic(err)
			}
			fmt.Fprint(tmp, body)
			tmp.Close()
			if err := os.Rename(tmp.Name(), p); err != nil {
				panic(err)
			}
		}
	}
	return dir, paths
}

// is7: does the value denote Integer[7,7] (through however many aliases)?
func is7(v interface{}) string {
	t, ok := v.(px.Type)
	if !ok {
		return "?"
	}
	r := "?"
	func() {
		defer func() { _ = recover() }()
		quietly(func() {
			if px.IsInstance(t, types.WrapInteger(7)) && !px.IsInstance(t, types.WrapInteger(8)) {
				r = "7"
			}
		})
	}()
	return r
}

func execNested(args []sx.Sexp) core.Result {
	bad := core.Result{Out: "bad-op", Pred: "n/a"}
	if len(args) != 2 || args[0].Tag() != "threads" || args[1].Tag() != "sched" {
		return bad
	}
	var progs [][]string
	for _, t := range args[0].Args() {
		if t.Tag() != "th" {
			return bad
		}
		p := []string{}
		for _, o := range t.Args() {
			if o.Tag() != "load" || len(o.Args()) != 1 {
				return bad
			}
			n := letter(o.Args()[0])
			if strings.Index("abc", strings.ToLower(n)) < 0 {
				return bad
			}
			p = append(p, n)
		}
		progs = append(progs, p)
	}
	if len(progs) == 0 {
		return bad
	}
	var schedule []int
	for _, a := range args[1].Args() {
		n, err := a.AsInt()
		if err != nil || n < 0 {
			return bad
		}
		schedule = append(schedule, int(n))
	}
	dir, paths := nestedDir()
	parent := px.NewParentedLoader(px.StaticLoader())
	fb := px.NewFileBasedLoader(parent, dir, "", px.PuppetDataTypePath)
	ctxs := make([]px.Context, len(progs))
	for t := range progs {
		ctxs[t] = pcore.NewContext(fb, pcore.Logger())
	}
	loader.VerifResetReads()

	// per goroutine: how many lookups deep it is inside its current step, and the names whose mutex it holds
	depth := make([]int, len(progs))
	holding := make([][]string, len(progs))
	stepName := func(t int, curStep []int) string { return strings.ToLower(progs[t][curStep[t]]) }
	nameAt := func(t int, curStep []int) string {
		i := strings.Index("abc", stepName(t, curStep)) + depth[t] - 1
		if depth[t] == 0 || i < 0 || i > 2 {
			return ""
		}
		return nestedChain[i]
	}
	raced := make([][]bool, len(progs))
	for t := range progs {
		raced[t] = make([]bool, len(progs[t]))
	}
	accept := func(site string) bool {
		ok := site == "op" || site == "filebased.loadentry" || site == "filebased.instantiate.enter" || site == "filebased.instantiate.placeholder"
		if s := active; ok && s != nil {
			t := s.current
			switch site {
			case "op":
				depth[t], holding[t] = 0, nil
			case "filebased.loadentry":
				depth[t]++
			case "filebased.instantiate.placeholder":
				if n := nameAt(t, s.curStep); n != "" {
					holding[t] = append(holding[t], n)
				}
			}
		}
		return ok
	}
	holds := func(u int, n string) bool {
		for _, h := range holding[u] {
			if h == n {
				return true
			}
		}
		return false
	}
	blocked := func(t int, parkedAt []string, curStep []int) bool {
		if curStep[t] < len(progs[t]) {
			// the chain of names the step of t can touch: its own name and everything after it
			first := strings.Index("abc", stepName(t, curStep))
			for u := range progs {
				if u == t || parkedAt[u] == "" || parkedAt[u] == "op" {
					continue
				}
				for _, h := range holding[u] {
					if strings.Index("abc", h) >= first {
						raced[t][curStep[t]] = true
					}
				}
			}
		}
		if parkedAt[t] != "filebased.instantiate.enter" {
			return false
		}
		n := nameAt(t, curStep)
		for u := range progs {
			if u != t && parkedAt[u] != "" && parkedAt[u] != "op" && holds(u, n) {
				return true
			}
		}
		return false
	}
	outs, sites, preempted := runThreadsB(len(progs), accept, blocked, func(t int) int { return len(progs[t]) }, func(t, i int) string {
		var v interface{}
		var ok bool
		if r := c12.Safely(func() { v, ok = px.Load(ctxs[t], px.NewTypedName(px.NsType, progs[t][i])) }); r != "" {
			return r
		}
		if ok {
			return "found " + strings.ToUpper(progs[t][i]) + "=" + is7(v)
		}
		return "notfound"
	}, schedule)
	reads := loader.VerifReads()

	var sb strings.Builder
	for t := range progs {
		if t > 0 {
			sb.WriteByte(' ')
		}
		fmt.Fprintf(&sb, "%d:[%s]", t, strings.Join(outs[t], " ; "))
	}
	sb.WriteString(" | reads")
	for _, n := range nestedChain {
		fmt.Fprintf(&sb, " %s=%d", n, reads[paths[n]])
	}
	sb.WriteString(" |")
	after := map[string]string{}
	mainCtx := pcore.NewContext(fb, pcore.Logger())
	touched := map[string]bool{}
	for t := range progs {
		for _, n := range progs[t] {
			for i := strings.Index("abc", strings.ToLower(n)); i < 3; i++ {
				touched[nestedChain[i]] = true
			}
		}
	}
	for _, n := range nestedChain {
		if !touched[n] {
			continue
		}
		var v interface{}
		var ok bool
		r := c12.Safely(func() { v, ok = px.Load(mainCtx, px.NewTypedName(px.NsType, n)) })
		switch {
		case r != "":
			after[n] = r
		case ok:
			after[n] = is7(v)
		default:
			after[n] = "notfound"
		}
		fmt.Fprintf(&sb, " %s=%s", strings.ToUpper(n), after[n])
	}
	res := core.Result{Out: sb.String(), Pred: "ok", NonTrivial: preempted && len(progs) >= 2}
	for site := range sites {
		res.Tags = append(res.Tags, "site:"+site)
	}
	fail := func(class, detail string) core.Result {
		res.Pred = "FAIL " + class + " " + detail
		res.NonTrivial = true
		return res
	}
	for _, n := range nestedChain {
		if reads[paths[n]] > 1 {
			return fail("instantiated-twice", fmt.Sprintf("the file of %s was read %d times", n, reads[paths[n]]))
		}
	}
	for t := range progs {
		for i, o := range outs[t] {
			switch {
			case o == "fault" || strings.HasPrefix(o, "reported"):
				return fail("crash", fmt.Sprintf("thread %d step %d (load %s) ended in %s", t, i, progs[t][i], o))
			case strings.HasSuffix(o, "=?"):
				return fail("nested-unresolved", fmt.Sprintf("thread %d step %d: load %s handed out a type that does not denote Integer[7,7]: the alias was resolved while the name it refers to was a placeholder", t, i, progs[t][i]))
			case o == "notfound" && raced[t][i]:
				return fail("not-linearizable-placeholder-visible", fmt.Sprintf("thread %d step %d: %s has a file, yet the lookup answered not-found (no sequential order gives that)", t, i, progs[t][i]))
			case o == "notfound":
				return fail("file-hidden", fmt.Sprintf("thread %d step %d: %s has a file and no instantiation touching it is in progress, yet the lookup answered not-found", t, i, progs[t][i]))
			}
		}
	}
	for _, n := range nestedChain {
		if a, ok := after[n]; ok && a != "7" {
			return fail("nested-unresolved", fmt.Sprintf("after the run %s is %s: a nested lookup met the placeholder of an instantiation in progress and the alias stays unresolved for ever", strings.ToUpper(n), a))
		}
	}
	return res
}
