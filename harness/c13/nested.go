package c13

// The instantiator's NESTED lookups (implementation only: lines start with `@`; no model counterpart yet).
//
//	@C13 nested (threads (th (load xN)*) …) (sched T*)          N ∈ {a, A, b, B, c, C}
//
// One directory, one file-based loader over it:
//
//	types/a.pp   type A = B            resolving A looks B up through the SAME loader, from inside A's instantiator —
//	types/b.pp   type B = C            i.e. while the goroutine holds A's name mutex and A's placeholder is installed
//	types/c.pp   type C = Integer[7,7]
//
// Yield points as for `files` lines.  Which NAME a goroutine is parked for is reconstructed from the order of the sites
// inside one step (the hook sites carry no name): every "filebased.loadentry" inside a step starts the lookup of the next
// name of the chain a → b → c.  A goroutine holds the name mutex of every name whose "placeholder" point it has passed
// since its step began; a goroutine parked at "enter" for a name whose mutex another parked goroutine holds is not
// released (it would block).
// Output: `0:[found A=7 ; …] 1:[…] | reads a=1 b=1 c=1 | A=7 B=7 C=7` — per step the answer (`found X=7` when the type
// handed out accepts 7 and rejects 8, `found X=?` when it does not: an alias that was resolved against a placeholder),
// the reads per file, and what the three names are AFTER the run (looked up on the main goroutine).
// Predicate classes: `instantiated-twice`, `crash` (a lookup raised or faulted), `not-linearizable-placeholder-visible` (a
// lookup of a name that has a file answered not-found while its instantiation was in progress on another goroutine: the
// known finding), `file-hidden` (not-found with no instantiation in progress), and for a name that is found but is not
// the type its file chain denotes — during or after the run —
//
//	nested-unresolved      the broken link of the alias chain (the reference that is unresolved, or the alias that is not
//	                       resolved yet) names a type whose placeholder ANOTHER goroutine had installed, and not yet
//	                       replaced, while the step ran: known finding C13-nested-lookup-meets-placeholder
//	nested-wrong-binding   anything else (no other goroutine was inside the instantiation of that name): not excused

import (
	"fmt"
	"io/ioutil"
	"os"
	"path/filepath"
	"strings"

	"verif/harness/c12"
	"verif/harness/core"
	"verif/harness/sx"

	"github.com/lyraproj/pcore/loader"
	"github.com/lyraproj/pcore/pcore"
	"github.com/lyraproj/pcore/px"
	"github.com/lyraproj/pcore/types"
)

var nestedChain = []string{"a", "b", "c"}

func nestedDir() (string, map[string]string) {
	dir := filepath.Join(os.TempDir(), "verif-c13-nested-abc")
	if err := os.MkdirAll(filepath.Join(dir, "types"), 0755); err != nil {
		panic(err)
	}
	bodies := map[string]string{"a": "type A = B\n", "b": "type B = C\n", "c": "type C = Integer[7,7]\n"}
	paths := map[string]string{}
	for n, body := range bodies {
		p := filepath.Join(dir, "types", n+".pp")
		paths[n] = p
		if _, err := os.Stat(p); err != nil {
			tmp, err := ioutil.TempFile(filepath.Join(dir, "types"), ".tmp-")
			if err != nil {
				panic(err)
			}
			fmt.Fprint(tmp, body)
			tmp.Close()
			if err := os.Rename(tmp.Name(), p); err != nil {
				panic(err)
			}
		}
	}
	return dir, paths
}

// brokenLink: the lower-cased name at which the alias chain of v stops short of a real type ("" when it does not)
func brokenLink(v interface{}) (link string) {
	defer func() {
		if e := recover(); e != nil {
			link = "?"
		}
	}()
	quietly(func() {
		for depth := 0; depth < 6; depth++ {
			at, ok := v.(*types.TypeAliasType)
			if !ok {
				return
			}
			var rt px.Type
			unresolved := false
			func() {
				defer func() {
					if e := recover(); e != nil {
						unresolved = true // "Reference to unresolved type": the alias itself is bound but not resolved yet
					}
				}()
				rt = at.ResolvedType()
			}()
			if unresolved || rt == nil {
				link = strings.ToLower(at.Name())
				return
			}
			if tr, isRef := rt.(*types.TypeReferenceType); isRef {
				link = strings.ToLower(tr.TypeString())
				return
			}
			v = rt
		}
	})
	return
}

// is7: does the value denote Integer[7,7] (through however many aliases)?
func is7(v interface{}) string {
	t, ok := v.(px.Type)
	if !ok {
		return "?"
	}
	r := "?"
	func() {
		defer func() { _ = recover() }()
		quietly(func() {
			if px.IsInstance(t, types.WrapInteger(7)) && !px.IsInstance(t, types.WrapInteger(8)) {
				r = "7"
			}
		})
	}()
	return r
}

func execNested(args []sx.Sexp) core.Result {
	bad := core.Result{Out: "bad-op", Pred: "n/a"}
	if len(args) != 2 || args[0].Tag() != "threads" || args[1].Tag() != "sched" {
		return bad
	}
	var progs [][]string
	for _, t := range args[0].Args() {
		if t.Tag() != "th" {
			return bad
		}
		p := []string{}
		for _, o := range t.Args() {
			if o.Tag() != "load" || len(o.Args()) != 1 {
				return bad
			}
			n := letter(o.Args()[0])
			if strings.Index("abc", strings.ToLower(n)) < 0 {
				return bad
			}
			p = append(p, n)
		}
		progs = append(progs, p)
	}
	if len(progs) == 0 {
		return bad
	}
	var schedule []int
	for _, a := range args[1].Args() {
		n, err := a.AsInt()
		if err != nil || n < 0 {
			return bad
		}
		schedule = append(schedule, int(n))
	}
	dir, paths := nestedDir()
	parent := px.NewParentedLoader(px.StaticLoader())
	fb := px.NewFileBasedLoader(parent, dir, "", px.PuppetDataTypePath)
	ctxs := make([]px.Context, len(progs))
	for t := range progs {
		ctxs[t] = pcore.NewContext(fb, pcore.Logger())
	}
	loader.VerifResetReads()

	// per goroutine: how many lookups deep it is inside its current step, and the names whose mutex it holds
	depth := make([]int, len(progs))
	holding := make([][]string, len(progs))
	stepName := func(t int, curStep []int) string { return strings.ToLower(progs[t][curStep[t]]) }
	nameAt := func(t int, curStep []int) string {
		i := strings.Index("abc", stepName(t, curStep)) + depth[t] - 1
		if depth[t] == 0 || i < 0 || i > 2 {
			return ""
		}
		return nestedChain[i]
	}
	raced := make([][]bool, len(progs))
	heldByOthers := make([][]map[string]bool, len(progs)) // per step: the names whose placeholder another goroutine had installed while the step ran
	links := make([][]string, len(progs))                 // per step: the broken link of what was handed out
	for t := range progs {
		raced[t] = make([]bool, len(progs[t]))
		links[t] = make([]string, len(progs[t]))
		heldByOthers[t] = make([]map[string]bool, len(progs[t]))
		for i := range heldByOthers[t] {
			heldByOthers[t][i] = map[string]bool{}
		}
	}
	accept := func(site string) bool {
		ok := site == "op" || site == "filebased.loadentry" || site == "filebased.instantiate.enter" || site == "filebased.instantiate.placeholder"
		if s := active; ok && s != nil {
			t := s.current
			switch site {
			case "op":
				depth[t], holding[t] = 0, nil
			case "filebased.loadentry":
				depth[t]++
			case "filebased.instantiate.placeholder":
				if n := nameAt(t, s.curStep); n != "" {
					holding[t] = append(holding[t], n)
				}
			}
		}
		return ok
	}
	holds := func(u int, n string) bool {
		for _, h := range holding[u] {
			if h == n {
				return true
			}
		}
		return false
	}
	blocked := func(t int, parkedAt []string, curStep []int) bool {
		if curStep[t] < len(progs[t]) {
			// the chain of names the step of t can touch: its own name and everything after it
			first := strings.Index("abc", stepName(t, curStep))
			for u := range progs {
				if u == t || parkedAt[u] == "" || parkedAt[u] == "op" {
					continue
				}
				for _, h := range holding[u] {
					heldByOthers[t][curStep[t]][h] = true
					if strings.Index("abc", h) >= first {
						raced[t][curStep[t]] = true
					}
				}
			}
		}
		if parkedAt[t] != "filebased.instantiate.enter" {
			return false
		}
		n := nameAt(t, curStep)
		for u := range progs {
			if u != t && parkedAt[u] != "" && parkedAt[u] != "op" && holds(u, n) {
				return true
			}
		}
		return false
	}
	outs, sites, preempted := runThreadsB(len(progs), accept, blocked, func(t int) int { return len(progs[t]) }, func(t, i int) string {
		var v interface{}
		var ok bool
		if r := c12.Safely(func() { v, ok = px.Load(ctxs[t], px.NewTypedName(px.NsType, progs[t][i])) }); r != "" {
			return r
		}
		if ok {
			r := is7(v)
			if r != "7" {
				links[t][i] = brokenLink(v)
			}
			return "found " + strings.ToUpper(progs[t][i]) + "=" + r
		}
		return "notfound"
	}, schedule)
	reads := loader.VerifReads()

	var sb strings.Builder
	for t := range progs {
		if t > 0 {
			sb.WriteByte(' ')
		}
		fmt.Fprintf(&sb, "%d:[%s]", t, strings.Join(outs[t], " ; "))
	}
	sb.WriteString(" | reads")
	for _, n := range nestedChain {
		fmt.Fprintf(&sb, " %s=%d", n, reads[paths[n]])
	}
	sb.WriteString(" |")
	after := map[string]string{}
	afterLink := map[string]string{}
	mainCtx := pcore.NewContext(fb, pcore.Logger())
	touched := map[string]bool{}
	for t := range progs {
		for _, n := range progs[t] {
			for i := strings.Index("abc", strings.ToLower(n)); i < 3; i++ {
				touched[nestedChain[i]] = true
			}
		}
	}
	for _, n := range nestedChain {
		if !touched[n] {
			continue
		}
		var v interface{}
		var ok bool
		r := c12.Safely(func() { v, ok = px.Load(mainCtx, px.NewTypedName(px.NsType, n)) })
		switch {
		case r != "":
			after[n] = r
		case ok:
			after[n] = is7(v)
			if after[n] != "7" {
				afterLink[n] = brokenLink(v)
			}
		default:
			after[n] = "notfound"
		}
		fmt.Fprintf(&sb, " %s=%s", strings.ToUpper(n), after[n])
	}
	res := core.Result{Out: sb.String(), Pred: "ok", NonTrivial: preempted && len(progs) >= 2}
	for site := range sites {
		res.Tags = append(res.Tags, "site:"+site)
	}
	fail := func(class, detail string) core.Result {
		res.Pred = "FAIL " + class + " " + detail
		res.NonTrivial = true
		return res
	}
	for _, n := range nestedChain {
		if reads[paths[n]] > 1 {
			return fail("instantiated-twice", fmt.Sprintf("the file of %s was read %d times", n, reads[paths[n]]))
		}
	}
	// the links that the mechanism of the known finding accounts for: some step was handed a type whose alias chain stops
	// at a name whose placeholder another goroutine had installed while that step ran; a LATER observation of the same
	// broken link is the same (permanent) corruption seen again
	excusedLink := map[string]bool{}
	for t := range progs {
		for i := range outs[t] {
			if l := links[t][i]; l != "" && heldByOthers[t][i][l] {
				excusedLink[l] = true
			}
		}
	}
	for t := range progs {
		for i, o := range outs[t] {
			switch {
			case o == "fault" || strings.HasPrefix(o, "reported"):
				return fail("crash", fmt.Sprintf("thread %d step %d (load %s) ended in %s", t, i, progs[t][i], o))
			case strings.HasSuffix(o, "=?") && excusedLink[links[t][i]]:
				return fail("nested-unresolved", fmt.Sprintf("thread %d step %d: load %s handed out a type that does not denote Integer[7,7]: its alias chain stops at %s, whose placeholder another goroutine had installed (and not yet replaced) at that moment", t, i, progs[t][i], links[t][i]))
			case strings.HasSuffix(o, "=?"):
				return fail("nested-wrong-binding", fmt.Sprintf("thread %d step %d: load %s handed out a type that does not denote Integer[7,7] (alias chain stops at %q) although no other goroutine was inside the instantiation of that name", t, i, progs[t][i], links[t][i]))
			case o == "notfound" && raced[t][i]:
				return fail("not-linearizable-placeholder-visible", fmt.Sprintf("thread %d step %d: %s has a file, yet the lookup answered not-found (no sequential order gives that)", t, i, progs[t][i]))
			case o == "notfound":
				return fail("file-hidden", fmt.Sprintf("thread %d step %d: %s has a file and no instantiation touching it is in progress, yet the lookup answered not-found", t, i, progs[t][i]))
			}
		}
	}
	for _, n := range nestedChain {
		a, ok := after[n]
		if !ok || a == "7" {
			continue
		}
		// excused only by the mechanism of the known finding (see excusedLink)
		link := afterLink[n]
		excused := excusedLink[link]
		if excused {
			return fail("nested-unresolved", fmt.Sprintf("after the run %s is %s for every goroutine: its alias chain stops at %s — a nested lookup met the placeholder another goroutine had installed, and the alias stays unresolved for ever", strings.ToUpper(n), a, link))
		}
		return fail("nested-wrong-binding", fmt.Sprintf("after the run %s is %s (alias chain stops at %q) although no nested lookup of it ran while another goroutine had that placeholder installed", strings.ToUpper(n), a, link))
	}
	return res
}

func genNested(g *core.G) {
	// two threads with one load each over {a, A, b, c}: a load of a needs up to 10 slots, of b 7, of c 4 — every schedule
	// with <= 3 (thorough: 5) switches; programs of two loads against a single load: <= 1 (thorough: 2) switches; three
	// threads with one load each: <= 2 (thorough: 3) switches
	names := []string{"x61", "x62", "x63"}
	cost := map[string]int{"x61": 10, "x62": 7, "x63": 4, "x41": 10}
	th := func(p ...string) string {
		s := make([]string, len(p))
		for i, n := range p {
			s[i] = "(load " + n + ")"
		}
		return "(th " + strings.Join(s, " ") + ")"
	}
	sw := func(quick, thorough int) int {
		if g.Thorough() {
			return thorough
		}
		return quick
	}
	singles := append([]string{}, names...)
	singles = append(singles, "x41")
	for i, x := range singles {
		for j, y := range singles {
			if j < i {
				continue
			}
			bounded([]int{cost[x], cost[y]}, sw(3, 5), func(s []int) { g.Emit("@nested (threads " + th(x) + " " + th(y) + ") " + schedStr(s)) })
		}
	}
	for _, x := range names {
		for _, y := range names {
			for _, z := range names {
				bounded([]int{cost[x] + cost[y], cost[z]}, sw(1, 2), func(s []int) {
					g.Emit("@nested (threads " + th(x, y) + " " + th(z) + ") " + schedStr(s))
				})
				bounded([]int{cost[x], cost[y], cost[z]}, sw(2, 3), func(s []int) {
					g.Emit("@nested (threads " + th(x) + " " + th(y) + " " + th(z) + ") " + schedStr(s))
				})
			}
		}
	}
}
