package c13

// File-based loading under the scheduler (second clause of C13: "a lazily file-loaded definition is instantiated exactly
// once").
//
//   C13 files (files FILE*) (threads (th STEP*) …) (sched T*)    STEP ::= (load xN) | (loadp xN)
//                                                                FILE ::= xN | (bad xN) | (mis xN)
//
// FILE: xN = types/<n>.pp holds `type <N> = Integer[i,i]`; (bad xN) = the file does not parse (`type <N> = Integer[`: the
// instantiator raises PARSE_ERROR); (mis xN) = the file defines another name (`type Zz<N> = Integer[i,i]`: the instantiator
// raises PCORE_WRONG_DEFINITION).  A raising instantiator still reads the file (once); the panic unwinds through
// fileBasedLoader.instantiate (the deferred function releases the name mutex), the lookup re-raises, and the placeholder
// STAYS installed: every later lookup of that name answers not-found and the file is never read again.
//
// (load xN) looks N up through the file-based loader, (loadp xN) through its PARENT (a plain parented loader: the lookup
// misses and leaves a miss marker there, which must not hide the file from a later lookup through the file-based loader).
// Every name N is a single ASCII letter.  A directory is made with one file types/<n>.pp = `type <N> = Integer[i,i]` per
// listed name (i = its position, from 1); ONE file-based loader over it (its parent: a fresh parented loader over the
// static loader); every thread loads names (of either letter case) through a context of its own whose loader it is.
// Yield points: "op", "filebased.loadentry" (LoadEntry, after the ancestors and the first own look missed),
// "filebased.instantiate.enter" (instantiate, before the lock table and the name mutex),
// "filebased.instantiate.placeholder" (instantiate, name mutex held, placeholder installed, before the instantiator).
// A schedule entry for a thread that is parked at "enter" while another thread is parked at "placeholder" of the same
// name is skipped: it would block in nameLock.Lock() (the model's scheduler has the same rule).
// Output: `0:[found (al x41 1) ; notfound] 1:[…] | reads x61=1 x62=0` (reads = calls of GetContent per file, counted by
// the C15 hook loader.VerifReads).
// Predicate classes: `instantiated-twice` (a file was read more than once), `not-linearizable-placeholder-visible` (a
// lookup of a name that HAS a file answered not-found: it met the placeholder of an instantiation in progress),
// `file-hidden` (the same answer with no instantiation in progress — e.g. a miss marker of the parent hiding the file),
// `disagree` (an answer is not the file's definition, or a name without a file was found), `crash`.

import (
	"fmt"
	"io/ioutil"
	"os"
	"path/filepath"
	"strings"

	"verif/harness/c12"
	"verif/harness/core"
	"verif/harness/sx"

	"github.com/lyraproj/pcore/loader"
	"github.com/lyraproj/pcore/pcore"
	"github.com/lyraproj/pcore/px"
)

func letter(e sx.Sexp) string {
	b, err := e.AsBytes()
	if err != nil || len(b) != 1 || !((b[0] >= 'a' && b[0] <= 'z') || (b[0] >= 'A' && b[0] <= 'Z')) {
		panic(c12.Bad{})
	}
	return string(b)
}

func execFiles(args []sx.Sexp) core.Result {
	if len(args) != 3 || args[0].Tag() != "files" || args[1].Tag() != "threads" || args[2].Tag() != "sched" {
		return core.Result{Out: "bad-op", Pred: "n/a"}
	}
	var files []string
	index := map[string]int{}
	raises := map[string]string{} // the issue code a file's instantiator raises
	desc := ""
	for _, f := range args[0].Args() {
		code := ""
		if f.IsList {
			if len(f.Args()) != 1 {
				return core.Result{Out: "bad-op", Pred: "n/a"}
			}
			switch f.Tag() {
			case "bad":
				code = "PARSE_ERROR"
			case "mis":
				code = "PCORE_WRONG_DEFINITION"
			default:
				return core.Result{Out: "bad-op", Pred: "n/a"}
			}
			f = f.Args()[0]
		}
		n := strings.ToLower(letter(f))
		if _, dup := index[n]; dup {
			return core.Result{Out: "bad-op", Pred: "n/a"}
		}
		index[n] = len(files) + 1
		files = append(files, n)
		desc += n
		if code != "" {
			raises[n] = code
			desc += map[string]string{"PARSE_ERROR": "-bad-", "PCORE_WRONG_DEFINITION": "-mis-"}[code]
		}
	}
	var progs [][]string
	var viaParent [][]bool
	for _, t := range args[1].Args() {
		if t.Tag() != "th" {
			return core.Result{Out: "bad-op", Pred: "n/a"}
		}
		p := []string{}
		vp := []bool{}
		for _, o := range t.Args() {
			if (o.Tag() != "load" && o.Tag() != "loadp") || len(o.Args()) != 1 {
				return core.Result{Out: "bad-op", Pred: "n/a"}
			}
			p = append(p, letter(o.Args()[0]))
			vp = append(vp, o.Tag() == "loadp")
		}
		progs = append(progs, p)
		viaParent = append(viaParent, vp)
	}
	if len(progs) == 0 {
		return core.Result{Out: "bad-op", Pred: "n/a"}
	}
	var schedule []int
	for _, a := range args[2].Args() {
		n, err := a.AsInt()
		if err != nil || n < 0 {
			return core.Result{Out: "bad-op", Pred: "n/a"}
		}
		schedule = append(schedule, int(n))
	}

	// the directory for this set of files: its content is a function of the names, so it is made once (atomically, per
	// file) under the system temp directory and shared by every line and every harness process; nothing ever changes it
	dir := filepath.Join(os.TempDir(), "verif-c13-files-"+desc)
	if err := os.MkdirAll(filepath.Join(dir, "types"), 0755); err != nil {
		panic(err)
	}
	paths := map[string]string{}
	for i, n := range files {
		p := filepath.Join(dir, "types", n+".pp")
		paths[n] = p
		if _, err := os.Stat(p); err != nil {
			tmp, err := ioutil.TempFile(filepath.Join(dir, "types"), ".tmp-")
			if err != nil {
				panic(err)
			}
			switch raises[n] {
			case "PARSE_ERROR":
				fmt.Fprintf(tmp, "type %s = Integer[\n", strings.ToUpper(n))
			case "PCORE_WRONG_DEFINITION":
				fmt.Fprintf(tmp, "type Zz%s = Integer[%d,%d]\n", n, i+1, i+1)
			default:
				fmt.Fprintf(tmp, "type %s = Integer[%d,%d]\n", strings.ToUpper(n), i+1, i+1)
			}
			tmp.Close()
			if err := os.Rename(tmp.Name(), p); err != nil {
				panic(err)
			}
		}
	}
	parent := px.NewParentedLoader(px.StaticLoader())
	fb := px.NewFileBasedLoader(parent, dir, "", px.PuppetDataTypePath)
	ctxs := make([]px.Context, len(progs))
	pctxs := make([]px.Context, len(progs))
	for t := range progs {
		ctxs[t] = pcore.NewContext(fb, pcore.Logger())
		pctxs[t] = pcore.NewContext(parent, pcore.Logger())
	}
	// raced[t][i]: while step i of thread t ran, another thread was parked between the placeholder and the instantiator
	// of the same name (the situation of the known finding)
	raced := make([][]bool, len(progs))
	for t := range progs {
		raced[t] = make([]bool, len(progs[t]))
	}
	loader.VerifResetReads()
	accept := func(site string) bool {
		return site == "op" || site == "filebased.loadentry" || site == "filebased.instantiate.enter" || site == "filebased.instantiate.placeholder"
	}
	// a thread parked at the entry of instantiate would block in nameLock.Lock() while another thread is parked between
	// the placeholder and the instantiator of the same name (it holds the name's mutex): such a thread is not released
	blocked := func(t int, parkedAt []string, curStep []int) bool {
		// (asked before every release of t: also the place to note what t's current step runs against)
		if curStep[t] < len(progs[t]) {
			for u := range progs {
				if u != t && parkedAt[u] == "filebased.instantiate.placeholder" && strings.EqualFold(progs[u][curStep[u]], progs[t][curStep[t]]) {
					raced[t][curStep[t]] = true
				}
			}
		}
		if parkedAt[t] != "filebased.instantiate.enter" {
			return false
		}
		for u := range progs {
			if u != t && parkedAt[u] == "filebased.instantiate.placeholder" &&
				strings.EqualFold(progs[u][curStep[u]], progs[t][curStep[t]]) {
				return true
			}
		}
		return false
	}
	outs, sites, preempted := runThreadsB(len(progs), accept, blocked, func(t int) int { return len(progs[t]) }, func(t, i int) string {
		var v interface{}
		var ok bool
		ctx := ctxs[t]
		if viaParent[t][i] {
			ctx = pctxs[t]
		}
		if r := c12.Safely(func() { v, ok = px.Load(ctx, px.NewTypedName(px.NsType, progs[t][i])) }); r != "" {
			return r
		}
		if ok {
			return "found " + c12.Canon(v)
		}
		return "notfound"
	}, schedule)
	reads := loader.VerifReads()

	var sb strings.Builder
	for t := range progs {
		if t > 0 {
			sb.WriteByte(' ')
		}
		fmt.Fprintf(&sb, "%d:[%s]", t, strings.Join(outs[t], " ; "))
	}
	sb.WriteString(" | reads")
	for _, n := range files {
		fmt.Fprintf(&sb, " %s=%d", sx.Str(n), reads[paths[n]])
	}
	res := core.Result{Out: sb.String(), Pred: "ok", NonTrivial: preempted && len(progs) >= 2 && len(files) > 0}
	for site := range sites {
		res.Tags = append(res.Tags, "site:"+site)
	}
	fail := func(class, detail string) core.Result {
		res.Pred = "FAIL " + class + " " + detail
		res.NonTrivial = true
		return res
	}
	for _, n := range files {
		if reads[paths[n]] > 1 {
			return fail("instantiated-twice", fmt.Sprintf("the file of %s was read %d times", n, reads[paths[n]]))
		}
	}
	raised := map[string]int{}
	for t := range progs {
		for i, o := range outs[t] {
			n := strings.ToLower(progs[t][i])
			if code, brk := raises[n]; brk && !viaParent[t][i] && o == "reported "+code {
				raised[n]++
			}
		}
	}
	for n, k := range raised {
		if k > reads[paths[n]] {
			return fail("raised-without-reading", fmt.Sprintf("%d lookups of %s raised its file's error, the file was read %d times", k, n, reads[paths[n]]))
		}
	}
	for t := range progs {
		for i, o := range outs[t] {
			n := strings.ToLower(progs[t][i])
			idx, has := index[n]
			if viaParent[t][i] {
				has = false // the parent binds nothing
			}
			if code, brk := raises[n]; brk && has {
				// a file whose instantiator raises: the one lookup that ran it re-raises; every lookup after that answers
				// not-found (the placeholder stays); not-found BEFORE anybody ran it is the placeholder seen by another goroutine
				switch {
				case o == "reported "+code:
				case o == "notfound" && reads[paths[n]] >= 1:
				case o == "notfound" && raced[t][i]:
					return fail("not-linearizable-placeholder-visible", fmt.Sprintf("thread %d step %d: %s has a file, yet the lookup answered not-found (no sequential order gives that)", t, i, n))
				case o == "notfound":
					return fail("file-hidden", fmt.Sprintf("thread %d step %d: the file of %s was never read, yet the lookup through the file-based loader answered not-found", t, i, n))
				case o == "fault" || strings.HasPrefix(o, "reported"):
					return fail("crash", fmt.Sprintf("thread %d step %d (load %s) ended in %s, its file raises %s", t, i, progs[t][i], o, code))
				default:
					return fail("disagree", fmt.Sprintf("thread %d step %d: load %s answered %s although its file cannot be instantiated", t, i, progs[t][i], o))
				}
				continue
			}
			want := fmt.Sprintf("found (al %s %d)", sx.Str(strings.ToUpper(n)), idx)
			switch {
			case o == "fault" || strings.HasPrefix(o, "reported"):
				return fail("crash", fmt.Sprintf("thread %d step %d (load %s) ended in %s", t, i, progs[t][i], o))
			case has && o == "notfound" && !raced[t][i]:
				return fail("file-hidden", fmt.Sprintf("thread %d step %d: %s has a file and no instantiation of it is in progress, yet the lookup through the file-based loader answered not-found", t, i, n))
			case has && o == "notfound":
				return fail("not-linearizable-placeholder-visible", fmt.Sprintf("thread %d step %d: %s has a file, yet the lookup answered not-found (no sequential order gives that)", t, i, n))
			case has && o != want, !has && o != "notfound":
				return fail("disagree", fmt.Sprintf("thread %d step %d: load %s answered %s", t, i, progs[t][i], o))
			}
		}
	}
	return res
}

func genFiles(g *core.G) {
	// exhaustive: files {a}; two threads, programs of <= 2 loads over {a, A, b}; a load needs <= 4 slots: every schedule for
	// single loads (thorough: up to three loads in total), every schedule with <= 2 (thorough: 3) switches otherwise
	names := []string{"x61", "x41", "x62"}
	var progs [][]string
	for _, x := range names {
		progs = append(progs, []string{x})
		for _, y := range names {
			progs = append(progs, []string{x, y})
		}
	}
	th := func(p []string) string {
		s := make([]string, len(p))
		for i, n := range p {
			if strings.HasPrefix(n, "p") {
				s[i] = "(loadp " + n[1:] + ")"
			} else {
				s[i] = "(load " + n + ")"
			}
		}
		return "(th " + strings.Join(s, " ") + ")"
	}
	// a miss through the parent, then the lookup through the file-based loader (sequential, and against a second thread)
	for _, a := range []string{"x61", "x41", "x62"} {
		for _, b := range []string{"x61", "x41", "x62"} {
			g.Emit("files (files x61) (threads " + th([]string{"p" + a, b, b}) + ") (sched)")
			interleavings([]int{4, 8}, func(s []int) {
				g.Emit("files (files x61) (threads " + th([]string{"p" + a}) + " " + th([]string{b, b}) + ") " + schedStr(s))
			})
		}
	}
	for i, p := range progs {
		for j, q := range progs {
			if j < i {
				continue
			}
			emit := func(s []int) { g.Emit("files (files x61) (threads " + th(p) + " " + th(q) + ") " + schedStr(s)) }
			switch {
			case len(p)+len(q) <= 2 || (g.Thorough() && len(p)+len(q) <= 3):
				interleavings([]int{4 * len(p), 4 * len(q)}, emit)
			case g.Thorough():
				bounded([]int{4 * len(p), 4 * len(q)}, 3, emit)
			default:
				bounded([]int{4 * len(p), 4 * len(q)}, 2, emit)
			}
		}
	}
	// files whose instantiator raises: {a, (bad b)} and {(mis a), b}; two threads with programs of <= 2 loads over the two
	// names (either letter case for the raising one): every schedule for single loads, <= 2 (thorough 3) switches otherwise
	for _, fs := range []string{"x61 (bad x62)", "(mis x61) x62", "(bad x61)"} {
		nm := []string{"x61", "x62", "x42"}
		var ps [][]string
		for _, x := range nm {
			ps = append(ps, []string{x})
			for _, y := range nm {
				ps = append(ps, []string{x, y})
			}
		}
		for i, p := range ps {
			for j, q := range ps {
				if j < i {
					continue
				}
				emit := func(s []int) { g.Emit("files (files " + fs + ") (threads " + th(p) + " " + th(q) + ") " + schedStr(s)) }
				switch {
				case len(p)+len(q) <= 2:
					interleavings([]int{4 * len(p), 4 * len(q)}, emit)
				case g.Thorough():
					bounded([]int{4 * len(p), 4 * len(q)}, 3, emit)
				default:
					bounded([]int{4 * len(p), 4 * len(q)}, 2, emit)
				}
			}
		}
	}
	// random: files ⊆ {a, b, c}, 2–4 threads × 1–3 loads
	r := g.Rng
	all := []string{"x61", "x62", "x63", "x41", "x42", "x64"}
	for i := 0; i < 1500*g.Scale; i++ {
		var fs []string
		for _, f := range []string{"x61", "x62", "x63"} {
			switch r.Intn(8) {
			case 0, 1:
			case 2:
				fs = append(fs, "(bad "+f+")")
			case 3:
				fs = append(fs, "(mis "+f+")")
			default:
				fs = append(fs, f)
			}
		}
		nt := 2 + r.Intn(3)
		var ths []string
		total := 0
		for t := 0; t < nt; t++ {
			var p []string
			for j, m := 0, 1+r.Intn(3); j < m; j++ {
				n := all[r.Intn(len(all))]
				if r.Intn(5) == 0 {
					n = "p" + n
				}
				p = append(p, n)
				total += 4
			}
			ths = append(ths, th(p))
		}
		var s []int
		for len(s) < total {
			t := r.Intn(nt)
			for j, m := 0, 1+r.Intn(3); j < m; j++ {
				s = append(s, t)
			}
		}
		g.Emit("files (files " + strings.Join(fs, " ") + ") (threads " + strings.Join(ths, " ") + ") " + schedStr(s))
	}
	for _, l := range []string{"files (files x6162) (threads (th)) (sched)", "files (files x61 x41) (threads (th)) (sched)",
		"files (files) (threads (th (load x31))) (sched)", "files (files) (threads) (sched)", "files (files (bad x61) x41) (threads (th)) (sched)",
		"files (files (odd x61)) (threads (th)) (sched)", "files (files (bad x61 x62)) (threads (th)) (sched)"} {
		g.Emit(l)
	}
}
