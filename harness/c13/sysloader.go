package c13

// The root of the shared loader hierarchy: the runtime's lazily created system / environment loaders (internal/runtime.go,
// guarded by rt.lock).
//
//	C13 sysloader N R      R rounds; each: pcore.Reset(), then N goroutines make the FIRST request for the system loader
//	                       at the same moment — all by pcore.SystemLoader() (rounds 0, 3, …), all by
//	                       pcore.EnvironmentLoader() (rounds 1, 4, …), or a mix of these and the loader chain of a
//	                       pcore.Do context (rounds 2, 5, …)
//
// Free-running (the create-and-store sits inside one critical section of rt.lock: no yield point can be placed there, and a
// goroutine parked inside a critical section would dead-lock the deterministic scheduler).  To make the outcome independent
// of timing the creation itself is slowed down: px.NewParentedLoader — a replaceable function variable of the library —
// is wrapped for the duration of the line so that creating a loader over the static loader takes 2 ms.  On a correct tree
// the first goroutine creates the loader under the exclusive lock while the others wait, whatever the timing; if the
// create-and-store can be entered by several goroutines at once, each of them finds the field still nil.
// Output: `ok`.  Predicate classes: `loader-created-twice` (more than one system loader was created after a Reset),
// `loaders-disagree` (two goroutines were handed different system loaders / a definition made through one is not visible
// through another or through a later pcore.SystemLoader()), `crash`.
// The deterministic tie for this shape is the lock-set table of internal/runtime.go (`C13_rt_lockset_ok`, the `lockrace`
// line): a write to rt.systemLoader needs rt.lock held exclusively.

import (
	"fmt"
	"sync"
	"sync/atomic"
	"time"

	"verif/harness/core"
	"verif/harness/sx"

	"github.com/lyraproj/pcore/pcore"
	"github.com/lyraproj/pcore/px"
	"github.com/lyraproj/pcore/types"
)

var sysSerial int

// systemOf walks up from a loader to the one whose parent is the static loader
func systemOf(l px.Loader) px.Loader {
	for i := 0; i < 16; i++ {
		pl, ok := l.(px.ParentedLoader)
		if !ok {
			return nil
		}
		if pl.Parent() == px.StaticLoader() {
			return l
		}
		l = pl.Parent()
	}
	return nil
}

func execSysLoader(args []sx.Sexp) core.Result {
	if len(args) != 2 {
		return core.Result{Out: "bad-op", Pred: "n/a"}
	}
	n, err1 := args[0].AsInt()
	rounds, err2 := args[1].AsInt()
	if err1 != nil || err2 != nil || n < 2 || rounds <= 0 || n > 64 || rounds > 50 {
		return core.Result{Out: "bad-op", Pred: "n/a"}
	}
	res := core.Result{Out: "ok", Pred: "ok", NonTrivial: true, Tags: []string{"free-running"}}
	var creations int32
	orig := px.NewParentedLoader
	px.NewParentedLoader = func(parent px.Loader) px.DefiningLoader {
		if parent == px.StaticLoader() {
			atomic.AddInt32(&creations, 1)
			time.Sleep(2 * time.Millisecond)
		}
		return orig(parent)
	}
	defer func() { px.NewParentedLoader = orig }()
	for r := int64(0); r < rounds; r++ {
		pcore.Reset()
		atomic.StoreInt32(&creations, 0)
		got := make([]px.Loader, n)
		faults := make([]interface{}, n)
		start := make(chan struct{})
		var wg sync.WaitGroup
		wg.Add(int(n))
		for i := 0; i < int(n); i++ {
			go func(i int) {
				defer wg.Done()
				defer func() {
					if e := recover(); e != nil {
						faults[i] = e
					}
				}()
				<-start
				// round 0, 3, …: every goroutine asks pcore.SystemLoader(); round 1, 4, …: pcore.EnvironmentLoader(); else a mix
				kind := i % 3
				if r%3 != 2 {
					kind = int(r % 3)
				}
				switch kind {
				case 0:
					got[i] = pcore.SystemLoader()
				case 1:
					got[i] = systemOf(pcore.EnvironmentLoader())
				default:
					pcore.Do(func(c px.Context) { got[i] = systemOf(c.Loader()) })
				}
			}(i)
		}
		close(start)
		wg.Wait()
		for i, f := range faults {
			if f != nil {
				res.Pred = fmt.Sprintf("FAIL crash round %d: goroutine %d panicked on the first use of the loaders after Reset", r, i)
				return res
			}
		}
		if c := atomic.LoadInt32(&creations); c != 1 {
			res.Pred = fmt.Sprintf("FAIL loader-created-twice round %d: %d system loaders were created by the first requests after pcore.Reset() (%d goroutines)", r, c, n)
			return res
		}
		kept := pcore.SystemLoader()
		for i, l := range got {
			if l == nil || l != kept {
				res.Pred = fmt.Sprintf("FAIL loaders-disagree round %d: goroutine %d was handed a system loader that is not the one the runtime kept", r, i)
				return res
			}
		}
		// a definition through the loader one goroutine got is visible through everybody's
		sysSerial++
		name := px.NewTypedName(px.NsType, fmt.Sprintf("Vs::R%d", sysSerial))
		got[0].(px.DefiningLoader).SetEntry(name, px.NewLoaderEntry(types.DefaultIntegerType(), nil))
		for i, l := range append(got, pcore.SystemLoader()) {
			if !l.HasEntry(name) {
				res.Pred = fmt.Sprintf("FAIL loaders-disagree round %d: a name defined through the system loader of goroutine 0 is not found through the loader of goroutine %d", r, i)
				return res
			}
		}
	}
	return res
}
