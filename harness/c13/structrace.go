package c13

// The lazily built member map of a shared Struct TYPE (types/structtype.go HashedMembers; used by IsAssignable, Like
// resolution and hash coercion), first use under REAL concurrency.
//
//	C13 structrace N R      R rounds; each: a fresh Struct type with N members, one goroutine triggers the first use of the
//	                        member map, 12 others ask for it at staggered moments inside the time one build takes
//
// This line is free-running on purpose: no yield point can sit in the window it aims at.  A change that publishes the map
// before it is complete does so in NEW code between the assignment and the end of the fill (a loop of map stores: nothing
// instrumented is called there), and a hook line placed in the current body would have to be rewritten by any such change.
// The deterministic tie for this shape is the regenerated table of lazily initialised fields (`C13_publish_ok`, the
// `cacherace` line); this line adds the concrete observation when the timing allows it (with 20000 members it did in
// every run against the seeded change).  Readers only take `len` of the map, which cannot trip the runtime's
// concurrent-map abort.  On a correct tree no timing can fail it: a reader either blocks on the lock or finds the map.
// Output: `full`.  Predicate class: `half-built-members` (a reader was handed fewer than N members).

import (
	"fmt"
	"sync"
	"time"

	"verif/harness/core"
	"verif/harness/sx"

	"github.com/lyraproj/pcore/types"
)

func bigStruct(n int) *types.StructType {
	es := make([]*types.StructElement, n)
	it := types.DefaultIntegerType()
	for i := range es {
		es[i] = types.NewStructElement(types.WrapString(fmt.Sprintf("m%d", i)), it)
	}
	return types.NewStructType(es)
}

func execStructRace(args []sx.Sexp) core.Result {
	if len(args) != 2 {
		return core.Result{Out: "bad-op", Pred: "n/a"}
	}
	n, err1 := args[0].AsInt()
	rounds, err2 := args[1].AsInt()
	if err1 != nil || err2 != nil || n <= 0 || rounds <= 0 || n > 100000 || rounds > 50 {
		return core.Result{Out: "bad-op", Pred: "n/a"}
	}
	// how long one build takes (on a type of its own)
	bigStruct(int(n)).HashedMembers() // warm up
	probe := bigStruct(int(n))
	t0 := time.Now()
	probe.HashedMembers()
	one := time.Since(t0)

	const readers = 12
	res := core.Result{Out: "full", Pred: "ok", NonTrivial: true, Tags: []string{"free-running"}}
	for r := int64(0); r < rounds; r++ {
		shared := bigStruct(int(n))
		start := make(chan struct{})
		got := make([]int, readers)
		var wg sync.WaitGroup
		wg.Add(readers + 1)
		go func() {
			defer wg.Done()
			<-start
			shared.HashedMembers()
		}()
		for i := 0; i < readers; i++ {
			go func(i int) {
				defer wg.Done()
				<-start
				time.Sleep(one * time.Duration(i+1) / time.Duration(readers+2))
				got[i] = len(shared.HashedMembers())
			}(i)
		}
		close(start)
		wg.Wait()
		for i, g := range got {
			if g != int(n) {
				res.Pred = fmt.Sprintf("FAIL half-built-members round %d: reader %d was handed a member map with %d of the %d members of the shared Struct type", r, i, g, n)
				return res
			}
		}
	}
	return res
}
