// Package c18: the Go reflection bridge (property C18).
//
// ops (model + implementation):
//   refl <go-type> <go-value>   assemble the Go type with reflect.StructOf/SliceOf/MapOf/PtrTo/ArrayOf, build the value,
//                               px.Wrap → value; px.WrapReflectedType → type; IsInstance(type, value);
//                               Reflector.ReflectTo into a fresh value of the same Go type → reflect.DeepEqual
//       out = <wrapped value> | <derived type> | inst=<t|f> | back=<go-value|fault> eq=<t|f>
//                               every struct type in the term is registered first, innermost first, with TypeFromReflect +
//                               AddTypes under the names T::S1, T::S2 … (parent = the type of an embedded first field)
//   obj <struct-type> <go-value>  register the struct types, wrap the struct → object → InitHash; px.New positional and named
//                               (each unless ambiguous) → ReflectTo → DeepEqual
//       out = <init hash> [| pos=ok back=<go-value> eq=<t|f> | pos=reported CODE] [| named=…]
//   modelled (inModel): nested structs, pointers to structs, slices / arrays / maps of structs, embedded structs (first field =
//   parent, its attributes promoted; elsewhere = an attribute), tags name=> / value=>; otherwise the op is sent as @refl / @obj
// ops (implementation only, labelled tests — no model counterpart):
//   @refl / @obj on struct types outside the model (a bare interface{} field, an embedded pointer, fields shadowing a field of an
//                               embedded struct, tag forms the driver does not read): as above
//   @reflraw <go-type> <go-value>   refl without registering the struct types (an unknown struct wraps to a Hash)
//   @reflanon <go-type> <go-value>  px.WrapReflectedType first (anonymous object types), then refl without registration
//   @objreg <struct-type> <go-value> every struct type is DECLARED (attributes => {name => derived type, …}; nillable fields and
//                               tag defaults with a value) and mapped with ImplementationRegistry.RegisterType; Wrap →
//                               FromReflectedValue → px.New; IsInstance; ReflectTo → ToReflectedValue → DeepEqual
//   @objregp …                  objreg with every embedded first field DECLARED as the parent (parent => R::S<i>): FromReflectedValue /
//                               ToReflectedValue descend into the embedded struct with the parent type.  objreg / objregp also take
//                               containers of / pointers to structs at the top (FromReflectedValue receives the pointer)
//   @objtg <struct-type> <go-value>  obj with the puppet tags of the struct's own fields handed over beside the Go type
//                               (px.NewTaggedType + TypeFromTagged); everything observed must equal what obj observes
//   @objnorm <struct-type> <go-value>  obj on tag strings outside the key:"value" convention; must equal obj on the struct that
//                               carries exactly the puppet tags reflect.StructTag finds
//   @wk FIELD N                 fields of the well-known Go types (px.Value …, time.Duration, time.Time, *regexp.Regexp): mut.go
//   @embed / @embedts           compiled-in structs that embed structs (embed.go); ts = registered with TypeSetFromReflect
//   refl also checks (Pred only) that Reflector.Reflect2 and the value's own Reflected.ReflectTo give what ReflectTo gave; obj
//   that the constructed instance converts back into a POINTER to the struct as well (mut.go otherWaysBack, ptrDestBack)
//   obj construction forms: pos (all attribute values), postrim (without the trailing values that equal their default),
//                               named (InitHash), full (hash with every attribute); a form is skipped when a single Hash
//                               argument would be ambiguous
//
// go-type  ::= (int W) | (uint W) | (float 32|64) | string | bool | iface | (slice T) | (map K V) | (ptr T)
//            | (array N T) | (struct FIELD…)                    W ∈ {0,8,16,32,64}; 0 = int / uint
// FIELD    ::= (Name T [xTAG]) | (emb Name T [xTAG])            emb = embedded (reflect.StructField.Anonymous)
// go-value ::= N | FLOATBITS | xHEX | t | f | nil | (s v…) | (m (k v)…) | (p v) | (a v…) | (st v…) | (i T v)
//              (floats travel as the IEEE-754 bits of the float64 value; maps are printed sorted by key)
package c18

import (
	"fmt"
	"math"
	"math/rand"
	"reflect"
	"regexp"
	"sort"
	"strconv"
	"strings"

	"verif/harness/core"
	"verif/harness/sx"

	"github.com/lyraproj/issue/issue"
	"github.com/lyraproj/pcore/px"
	"github.com/lyraproj/pcore/types"
)

func init() {
	core.Register(&core.Prop{
		ID:   "C18",
		Rule: "distinct op lines; non-trivial = the Go type has at least one constructor (slice/map/ptr/array/struct/iface) or the value is a non-zero scalar",
		Gen:  gen,
		Exec: exec,
	})
}

// ---- Go types ---------------------------------------------------------------------------------------------

type gfield struct {
	name string
	t    *gty
	tag  string
	anon bool   // embedded field: (emb Name T [xTAG])
	ext  bool   // op @objtg: the puppet tag is handed to the reflector beside the type (px.NewTaggedType), the Go field carries none
	dflt string // generator only: the go-value term of the default declared in the tag ("" = none)
}

type gty struct {
	kind   string // int uint float string bool iface slice map ptr array struct
	w      int    // width of int/uint/float; 0 = platform int
	n      int    // array length
	key    *gty
	elem   *gty
	fields []gfield
}

func tyOf(e sx.Sexp) *gty {
	if !e.IsList {
		switch e.Atom {
		case "string", "bool", "iface":
			return &gty{kind: e.Atom}
		}
		panic(fmt.Errorf("bad type %s", e))
	}
	a := e.Args()
	switch e.Tag() {
	case "int", "uint":
		w := int(a[0].MustInt())
		if len(a) != 1 || !(w == 0 || w == 8 || w == 16 || w == 32 || w == 64) {
			panic(fmt.Errorf("bad width %s", e))
		}
		return &gty{kind: e.Tag(), w: w}
	case "float":
		w := int(a[0].MustInt())
		if len(a) != 1 || !(w == 32 || w == 64) {
			panic(fmt.Errorf("bad width %s", e))
		}
		return &gty{kind: "float", w: w}
	case "slice", "ptr":
		if len(a) != 1 {
			break
		}
		return &gty{kind: e.Tag(), elem: tyOf(a[0])}
	case "map":
		if len(a) != 2 {
			break
		}
		return &gty{kind: "map", key: tyOf(a[0]), elem: tyOf(a[1])}
	case "array":
		if len(a) != 2 {
			break
		}
		return &gty{kind: "array", n: int(a[0].MustInt()), elem: tyOf(a[1])}
	case "struct":
		t := &gty{kind: "struct"}
		for _, f := range a {
			fl := f.List
			anon := false
			if f.IsList && len(fl) > 0 && !fl[0].IsList && fl[0].Atom == "emb" {
				anon = true
				fl = fl[1:]
			}
			if !f.IsList || len(fl) < 2 || len(fl) > 3 || fl[0].IsList {
				panic(fmt.Errorf("bad field %s", f))
			}
			gf := gfield{name: fl[0].Atom, t: tyOf(fl[1]), anon: anon}
			if len(fl) == 3 {
				gf.tag = fl[2].MustStr()
			}
			t.fields = append(t.fields, gf)
		}
		return t
	}
	panic(fmt.Errorf("bad type %s", e))
}

func (t *gty) sexp() sx.Sexp {
	switch t.kind {
	case "string", "bool", "iface":
		return sx.A(t.kind)
	case "int", "uint", "float":
		return sx.T(t.kind, sx.Int(int64(t.w)))
	case "slice", "ptr":
		return sx.T(t.kind, t.elem.sexp())
	case "map":
		return sx.T("map", t.key.sexp(), t.elem.sexp())
	case "array":
		return sx.T("array", sx.Int(int64(t.n)), t.elem.sexp())
	}
	fs := []sx.Sexp{}
	for _, f := range t.fields {
		xs := []sx.Sexp{}
		if f.anon {
			xs = append(xs, sx.A("emb"))
		}
		xs = append(xs, sx.A(f.name), f.t.sexp())
		if f.tag != "" {
			xs = append(xs, sx.Str(f.tag))
		}
		fs = append(fs, sx.L(xs...))
	}
	return sx.T("struct", fs...)
}

var intTypes = map[int]reflect.Type{0: reflect.TypeOf(int(0)), 8: reflect.TypeOf(int8(0)), 16: reflect.TypeOf(int16(0)), 32: reflect.TypeOf(int32(0)), 64: reflect.TypeOf(int64(0))}
var uintTypes = map[int]reflect.Type{0: reflect.TypeOf(uint(0)), 8: reflect.TypeOf(uint8(0)), 16: reflect.TypeOf(uint16(0)), 32: reflect.TypeOf(uint32(0)), 64: reflect.TypeOf(uint64(0))}
var ifaceType = reflect.TypeOf((*interface{})(nil)).Elem()

func (t *gty) rtype() reflect.Type {
	switch t.kind {
	case "int":
		return intTypes[t.w]
	case "uint":
		return uintTypes[t.w]
	case "float":
		if t.w == 32 {
			return reflect.TypeOf(float32(0))
		}
		return reflect.TypeOf(float64(0))
	case "string":
		return reflect.TypeOf("")
	case "bool":
		return reflect.TypeOf(false)
	case "iface":
		return ifaceType
	case "slice":
		return reflect.SliceOf(t.elem.rtype())
	case "ptr":
		return reflect.PtrTo(t.elem.rtype())
	case "map":
		return reflect.MapOf(t.key.rtype(), t.elem.rtype())
	case "array":
		return reflect.ArrayOf(t.n, t.elem.rtype())
	}
	fs := make([]reflect.StructField, len(t.fields))
	for i, f := range t.fields {
		fs[i] = reflect.StructField{Name: f.name, Type: f.t.rtype(), Anonymous: f.anon}
		if f.tag != "" && !f.ext {
			fs[i].Tag = reflect.StructTag(f.tag)
		}
	}
	return reflect.StructOf(fs)
}

// gtyOf recovers the term of a dynamic type found inside an interface{} (nil when it is not expressible)
func gtyOf(rt reflect.Type) *gty {
	if rt.Name() != "" && rt.PkgPath() != "" {
		return nil
	}
	switch rt.Kind() {
	case reflect.Int:
		return &gty{kind: "int", w: 0}
	case reflect.Int8, reflect.Int16, reflect.Int32, reflect.Int64:
		return &gty{kind: "int", w: rt.Bits()}
	case reflect.Uint:
		return &gty{kind: "uint", w: 0}
	case reflect.Uint8, reflect.Uint16, reflect.Uint32, reflect.Uint64:
		return &gty{kind: "uint", w: rt.Bits()}
	case reflect.Float32, reflect.Float64:
		return &gty{kind: "float", w: rt.Bits()}
	case reflect.String:
		return &gty{kind: "string"}
	case reflect.Bool:
		return &gty{kind: "bool"}
	case reflect.Interface:
		if rt.NumMethod() == 0 {
			return &gty{kind: "iface"}
		}
	case reflect.Slice, reflect.Ptr:
		if e := gtyOf(rt.Elem()); e != nil {
			return &gty{kind: map[reflect.Kind]string{reflect.Slice: "slice", reflect.Ptr: "ptr"}[rt.Kind()], elem: e}
		}
	case reflect.Array:
		if e := gtyOf(rt.Elem()); e != nil {
			return &gty{kind: "array", n: rt.Len(), elem: e}
		}
	case reflect.Map:
		k, e := gtyOf(rt.Key()), gtyOf(rt.Elem())
		if k != nil && e != nil {
			return &gty{kind: "map", key: k, elem: e}
		}
	case reflect.Struct:
		t := &gty{kind: "struct"}
		for i := 0; i < rt.NumField(); i++ {
			f := rt.Field(i)
			ft := gtyOf(f.Type)
			if ft == nil || f.PkgPath != "" {
				return nil
			}
			t.fields = append(t.fields, gfield{name: f.Name, t: ft, tag: string(f.Tag), anon: f.Anonymous})
		}
		return t
	}
	return nil
}

// registerDynamic registers the struct types that occur only as DYNAMIC types of interface{} values inside v (after the static
// ones): an interface{} holding a registered struct wraps to an object, and reflecting the object into the interface{} gives the
// struct back (reflectedObject.Reflect)
func registerDynamic(c px.Context, t *gty, v reflect.Value, seen map[reflect.Type]px.ObjectType) {
	switch t.kind {
	case "iface":
		if !v.IsNil() {
			if dt := gtyOf(v.Elem().Type()); dt != nil {
				registerStructs(c, dt, seen)
				registerDynamic(c, dt, v.Elem(), seen)
			}
		}
	case "ptr":
		if !v.IsNil() {
			registerDynamic(c, t.elem, v.Elem(), seen)
		}
	case "slice", "array":
		for i := 0; i < v.Len(); i++ {
			registerDynamic(c, t.elem, v.Index(i), seen)
		}
	case "map":
		for _, k := range v.MapKeys() {
			registerDynamic(c, t.elem, v.MapIndex(k), seen)
		}
	case "struct":
		for i, f := range t.fields {
			registerDynamic(c, f.t, v.Field(i), seen)
		}
	}
}

func (t *gty) has(kind string) bool {
	if t == nil {
		return false
	}
	if t.kind == kind {
		return true
	}
	for _, f := range t.fields {
		if f.t.has(kind) {
			return true
		}
	}
	return t.key.has(kind) || t.elem.has(kind)
}

func (t *gty) hasCtor() bool {
	switch t.kind {
	case "int", "uint", "float", "string", "bool":
		return false
	}
	return true
}

// ---- Go values --------------------------------------------------------------------------------------------

func isNilAtom(e sx.Sexp) bool { return !e.IsList && e.Atom == "nil" }

// build makes a reflect.Value of exactly t.rtype() from its term
func build(t *gty, e sx.Sexp) reflect.Value {
	rt := t.rtype()
	v := reflect.New(rt).Elem()
	switch t.kind {
	case "int":
		i, err := strconv.ParseInt(e.Atom, 10, 64)
		if err != nil || e.IsList {
			panic(fmt.Errorf("bad int %s", e))
		}
		v.SetInt(i)
		if v.Int() != i {
			panic(fmt.Errorf("int out of range %s", e))
		}
	case "uint":
		u, err := strconv.ParseUint(e.Atom, 10, 64)
		if err != nil || e.IsList {
			panic(fmt.Errorf("bad uint %s", e))
		}
		v.SetUint(u)
		if v.Uint() != u {
			panic(fmt.Errorf("uint out of range %s", e))
		}
	case "float":
		u, err := strconv.ParseUint(e.Atom, 10, 64)
		if err != nil || e.IsList {
			panic(fmt.Errorf("bad float bits %s", e))
		}
		f := math.Float64frombits(u)
		v.SetFloat(f)
		if math.Float64bits(v.Float()) != u {
			panic(fmt.Errorf("float32 not exact %s", e))
		}
	case "string":
		v.SetString(e.MustStr())
	case "bool":
		v.SetBool(e.MustBool())
	case "iface":
		if isNilAtom(e) {
			return v
		}
		if e.Tag() != "i" || len(e.Args()) != 2 {
			panic(fmt.Errorf("bad iface value %s", e))
		}
		v.Set(build(tyOf(e.Args()[0]), e.Args()[1]))
	case "slice":
		if isNilAtom(e) {
			return v
		}
		if e.Tag() != "s" {
			panic(fmt.Errorf("bad slice value %s", e))
		}
		a := e.Args()
		s := reflect.MakeSlice(rt, len(a), len(a))
		for i, x := range a {
			s.Index(i).Set(build(t.elem, x))
		}
		v.Set(s)
	case "array":
		a := e.Args()
		if e.Tag() != "a" || len(a) != t.n {
			panic(fmt.Errorf("bad array value %s", e))
		}
		for i, x := range a {
			v.Index(i).Set(build(t.elem, x))
		}
	case "map":
		if isNilAtom(e) {
			return v
		}
		if e.Tag() != "m" {
			panic(fmt.Errorf("bad map value %s", e))
		}
		m := reflect.MakeMap(rt)
		for _, kv := range e.Args() {
			if !kv.IsList || len(kv.List) != 2 {
				panic(fmt.Errorf("bad map entry %s", kv))
			}
			m.SetMapIndex(build(t.key, kv.List[0]), build(t.elem, kv.List[1]))
		}
		if m.Len() != len(e.Args()) {
			panic(fmt.Errorf("duplicate map key %s", e))
		}
		v.Set(m)
	case "ptr":
		if isNilAtom(e) {
			return v
		}
		if e.Tag() != "p" || len(e.Args()) != 1 {
			panic(fmt.Errorf("bad ptr value %s", e))
		}
		p := reflect.New(t.elem.rtype())
		p.Elem().Set(build(t.elem, e.Args()[0]))
		v.Set(p)
	case "struct":
		a := e.Args()
		if e.Tag() != "st" || len(a) != len(t.fields) {
			panic(fmt.Errorf("bad struct value %s", e))
		}
		for i, x := range a {
			v.Field(i).Set(build(t.fields[i].t, x))
		}
	}
	return v
}

// keyLess: the canonical order maps are printed in (numeric for integers, bytewise for strings, f < t)
func keyLess(t *gty, a, b reflect.Value) bool {
	switch t.kind {
	case "int":
		return a.Int() < b.Int()
	case "uint":
		return a.Uint() < b.Uint()
	case "string":
		return a.String() < b.String()
	case "bool":
		return !a.Bool() && b.Bool()
	case "float":
		return a.Float() < b.Float()
	}
	return fmt.Sprint(a.Interface()) < fmt.Sprint(b.Interface())
}

// encGo prints a Go value of static type t in the go-value syntax
func encGo(t *gty, v reflect.Value) string {
	switch t.kind {
	case "int":
		return strconv.FormatInt(v.Int(), 10)
	case "uint":
		return strconv.FormatUint(v.Uint(), 10)
	case "float":
		return strconv.FormatUint(math.Float64bits(v.Float()), 10)
	case "string":
		return sx.Str(v.String()).Atom
	case "bool":
		return sx.B(v.Bool())
	case "iface":
		if v.IsNil() {
			return "nil"
		}
		d := v.Elem()
		dt := gtyOf(d.Type())
		if dt == nil {
			return "(i ?" + strings.Replace(d.Type().String(), " ", "", -1) + ")"
		}
		return "(i " + dt.sexp().String() + " " + encGo(dt, d) + ")"
	case "slice":
		if v.IsNil() {
			return "nil"
		}
		xs := []string{"s"}
		for i := 0; i < v.Len(); i++ {
			xs = append(xs, encGo(t.elem, v.Index(i)))
		}
		return "(" + strings.Join(xs, " ") + ")"
	case "array":
		xs := []string{"a"}
		for i := 0; i < v.Len(); i++ {
			xs = append(xs, encGo(t.elem, v.Index(i)))
		}
		return "(" + strings.Join(xs, " ") + ")"
	case "map":
		if v.IsNil() {
			return "nil"
		}
		keys := v.MapKeys()
		sort.Slice(keys, func(i, j int) bool { return keyLess(t.key, keys[i], keys[j]) })
		xs := []string{"m"}
		for _, k := range keys {
			xs = append(xs, "("+encGo(t.key, k)+" "+encGo(t.elem, v.MapIndex(k))+")")
		}
		return "(" + strings.Join(xs, " ") + ")"
	case "ptr":
		if v.IsNil() {
			return "nil"
		}
		return "(p " + encGo(t.elem, v.Elem()) + ")"
	}
	xs := []string{"st"}
	for i, f := range t.fields {
		xs = append(xs, encGo(f.t, v.Field(i)))
	}
	return "(" + strings.Join(xs, " ") + ")"
}

// ---- pcore values and types → canonical text ----------------------------------------------------------------

func encVal(v px.Value) string {
	switch v := v.(type) {
	case px.Integer:
		return "(i " + strconv.FormatInt(v.Int(), 10) + ")"
	case px.Float:
		return "(f " + strconv.FormatUint(math.Float64bits(v.Float()), 10) + ")"
	case px.StringValue:
		return "(s " + sx.Str(v.String()).Atom + ")"
	case px.Boolean:
		return "(b " + sx.B(v.Bool()) + ")"
	case *types.Binary:
		return "(x " + sx.Bytes(v.Bytes()).Atom + ")"
	case *types.Array:
		xs := []string{"a"}
		v.Each(func(e px.Value) { xs = append(xs, encVal(e)) })
		return "(" + strings.Join(xs, " ") + ")"
	case *types.Hash:
		xs := []string{"h"}
		v.EachPair(func(k, e px.Value) { xs = append(xs, "("+encVal(k)+" "+encVal(e)+")") })
		return "(" + strings.Join(xs, " ") + ")"
	case px.PuppetObject:
		return "(o " + objName(v.PType()) + " " + encVal(v.InitHash()) + ")"
	case *types.RuntimeValue:
		// a Runtime value holds a Go value verbatim (a struct field that is itself an interface{})
		if rv := reflect.ValueOf(v.Interface()); rv.IsValid() {
			if dt := gtyOf(rv.Type()); dt != nil {
				return "(rt " + dt.sexp().String() + " " + encGo(dt, rv) + ")"
			}
		}
	}
	if v == px.Undef {
		return "(u)"
	}
	return "(? " + strings.Replace(v.PType().String(), " ", "", -1) + ")"
}

func objName(t px.Type) string {
	if t.Name() == "" {
		return "-"
	}
	return t.Name()
}

func encTy(t px.Type) string {
	switch t := t.(type) {
	case *types.IntegerType:
		return "(int " + strconv.FormatInt(t.Min(), 10) + " " + strconv.FormatInt(t.Max(), 10) + ")"
	case *types.FloatType:
		switch {
		case t.Min() == -math.MaxFloat64 && t.Max() == math.MaxFloat64:
			return "(float 64)"
		case t.Min() == -math.MaxFloat32 && t.Max() == math.MaxFloat32:
			return "(float 32)"
		}
	case *types.BooleanType:
		if t.Equals(types.DefaultBooleanType(), nil) {
			return "bool"
		}
	case *types.ArrayType:
		if t.Size().Equals(types.IntegerTypePositive, nil) {
			return "(array " + encTy(t.ElementType()) + ")"
		}
	case *types.HashType:
		if t.Size().Equals(types.IntegerTypePositive, nil) {
			return "(hash " + encTy(t.KeyType()) + " " + encTy(t.ValueType()) + ")"
		}
	case *types.OptionalType:
		return "(opt " + encTy(t.ContainedType()) + ")"
	case *types.BinaryType:
		return "bin"
	case *types.AnyType:
		return "any"
	case px.ObjectType:
		return "(obj " + objName(t) + ")"
	}
	if t.Equals(types.DefaultStringType(), nil) {
		return "str"
	}
	return "(? " + strings.Replace(t.String(), " ", "", -1) + ")"
}

// ---- execution ----------------------------------------------------------------------------------------------

// safely runs f; a panic is mapped to the small enum plus the raw text (for the classifier only)
func safely(f func()) (kind string, text string) {
	defer func() {
		if e := recover(); e != nil {
			text = fmt.Sprint(e)
			switch e := e.(type) {
			case issue.Reported:
				kind = "reported " + string(e.Code())
			default:
				kind = "fault"
			}
		}
	}()
	f()
	return "", ""
}

func oneLine(s string) string {
	s = strings.Replace(strings.Replace(s, "\n", " ", -1), "\t", " ", -1)
	if len(s) > 400 {
		s = s[:400]
	}
	return strings.ToValidUTF8(s, "?")
}

func hasNaN(t *gty, v reflect.Value) bool {
	switch t.kind {
	case "float":
		return v.Float() != v.Float()
	case "iface":
		if v.IsNil() {
			return false
		}
		if dt := gtyOf(v.Elem().Type()); dt != nil {
			return hasNaN(dt, v.Elem())
		}
	case "slice", "array":
		for i := 0; i < v.Len(); i++ {
			if hasNaN(t.elem, v.Index(i)) {
				return true
			}
		}
	case "map":
		for _, k := range v.MapKeys() {
			if hasNaN(t.key, k) || hasNaN(t.elem, v.MapIndex(k)) {
				return true
			}
		}
	case "ptr":
		return !v.IsNil() && hasNaN(t.elem, v.Elem())
	case "struct":
		for i, f := range t.fields {
			if hasNaN(f.t, v.Field(i)) {
				return true
			}
		}
	}
	return false
}

// notReflectable names the reason a shape is outside the property's quantifier ("" = inside)
func notReflectable(t *gty) string {
	switch t.kind {
	case "ptr":
		if t.elem.kind == "ptr" {
			return "pointer-to-pointer (not an optional)"
		}
		if t.elem.kind == "iface" {
			return "pointer-to-interface"
		}
		return notReflectable(t.elem)
	case "slice", "array":
		return notReflectable(t.elem)
	case "map":
		switch t.key.kind {
		case "int", "uint", "string", "bool":
		default:
			return "map key kind " + t.key.kind
		}
		return notReflectable(t.elem)
	case "struct":
		for _, f := range t.fields {
			if r := notReflectable(f.t); r != "" {
				return r
			}
		}
	}
	return ""
}

// exec runs every op in a forked context: deriving a type from a struct registers it in the context's
// implementation registry, and ops must not see each other's registrations.
func exec(c px.Context, op string, args []sx.Sexp) (r core.Result) {
	r = core.Result{Out: "bad-op", Pred: "FAIL harness-bad-op " + op}
	if op == "embed" {
		return execEmbed(c, args)
	}
	if op == "embedts" {
		return execEmbed2(c, args, true)
	}
	if op == "wk" {
		return execWk(c, args)
	}
	if len(args) != 2 {
		return
	}
	px.DoWithContext(c.Fork(), func(fc px.Context) {
		switch op {
		case "refl":
			r = refl(fc, tyOf(args[0]), args[1], true)
		case "reflraw":
			r = refl(fc, tyOf(args[0]), args[1], false)
		case "reflanon":
			// anonymous object types: the type is derived (and thereby registered, without a name) before the value is wrapped
			t := tyOf(args[0])
			if k, text := safely(func() {
				if _, err := px.WrapReflectedType(fc, t.rtype()); err != nil {
					panic(err)
				}
			}); k != "" {
				cl := "fault"
				if strings.Contains(text, "already present in the implementation registry") && nestedStruct(t, false) {
					cl = "anon-struct-nested"
				}
				r = core.Result{Out: "derive=" + k, Pred: oneLine("FAIL " + cl + " derive type: " + text), NonTrivial: true}
				if cl == "fault" && regFailClass(t, k, text) == "n/a" {
					r.Pred = "n/a" // the tags are inconsistent in themselves: a reported error is the answer
				}
				if notReflectable(t) != "" {
					r.Pred = "n/a"
				}
				return
			}
			r = refl(fc, t, args[1], false)
		case "obj":
			r = obj(fc, tyOf(args[0]), args[1], false)
		case "objnorm":
			// a tag string outside the conventional `key:"value" key:"value"` form: whatever reflect.StructTag finds under the key
			// puppet (and nothing else) is what the derived type is made from
			r = obj(fc, tyOf(args[0]), args[1], false)
			var r0 core.Result
			px.DoWithContext(c.Fork(), func(fc0 px.Context) { r0 = obj(fc0, normalTags(tyOf(args[0])), args[1], false) })
			if r.Out != r0.Out && (r.Pred == "ok" || r.Pred == "n/a") {
				r.Pred = oneLine("FAIL tag-convention-differs the tag strings as written give " + r.Out + ", the puppet tags reflect.StructTag finds in them " + r0.Out)
			}
		case "objtg":
			r = obj(fc, tyOf(args[0]), args[1], true)
			// … and everything observed (init hash, construction forms, what comes back) is what the tags on the Go fields give
			var r0 core.Result
			px.DoWithContext(c.Fork(), func(fc0 px.Context) { r0 = obj(fc0, tyOf(args[0]), args[1], false) })
			if r.Out != r0.Out && (r.Pred == "ok" || r.Pred == "n/a") {
				r.Pred = oneLine("FAIL external-tags-differ tags handed over with px.NewTaggedType give " + r.Out + ", the same tags on the fields " + r0.Out)
			}
		case "objreg":
			r = objreg(fc, tyOf(args[0]), args[1], false)
		case "objregp":
			r = objreg(fc, tyOf(args[0]), args[1], true)
		}
	})
	return
}

// registerStructs derives an object type from every struct type in t, innermost first, under the names T::S1, T::S2 …
// (TypeFromReflect registers the Go type in the context's implementation registry)
func registerStructs(c px.Context, t *gty, seen map[reflect.Type]px.ObjectType) {
	if t == nil {
		return
	}
	registerStructs(c, t.key, seen)
	registerStructs(c, t.elem, seen)
	for _, f := range t.fields {
		registerStructs(c, f.t, seen)
	}
	if t.kind == "struct" {
		rt := t.rtype()
		if _, ok := seen[rt]; !ok {
			// the first field, when it is an embedded struct, is the parent (as Reflector.TypeSetFromReflect passes it)
			var parent px.Type
			if len(t.fields) > 0 && t.fields[0].anon && t.fields[0].t.kind == "struct" {
				parent = seen[t.fields[0].t.rtype()]
			}
			var ot px.ObjectType
			if tm := externalTags(t); tm != nil {
				ot = c.Reflector().TypeFromTagged("T::S"+strconv.Itoa(len(seen)+1), parent, px.NewTaggedType(rt, tm), nil)
			} else {
				ot = c.Reflector().TypeFromReflect("T::S"+strconv.Itoa(len(seen)+1), parent, rt)
			}
			px.AddTypes(c, ot)
			seen[rt] = ot
		}
	}
}

func refl(c px.Context, t *gty, ve sx.Sexp, register bool) core.Result {
	gv := build(t, ve)
	rt := t.rtype()
	if register && (t.has("struct") || t.has("iface")) {
		if k, text := safely(func() {
			seen := map[reflect.Type]px.ObjectType{}
			registerStructs(c, t, seen)
			if t.has("iface") {
				registerDynamic(c, t, gv, seen)
			}
		}); k != "" {
			if r := notReflectable(t); r != "" {
				return core.Result{Out: "register=" + k, Pred: "n/a", NonTrivial: true}
			}
			return core.Result{Out: "register=" + k, Pred: oneLine(regFailPred(t, k, text)), NonTrivial: true}
		}
	}
	tags := []string{"k:" + t.kind}
	nt := t.hasCtor() || !gv.IsZero()
	res := func(out, pred string) core.Result {
		return core.Result{Out: out, Pred: oneLine(pred), NonTrivial: nt, Tags: tags}
	}

	// Go → Value
	var wrapped px.Value
	wk, wtext := safely(func() { wrapped = px.Wrap(c, gv.Interface()) })
	// Go type → Type
	var pt px.Type
	tk, ttext := safely(func() {
		var err error
		if pt, err = px.WrapReflectedType(c, rt); err != nil {
			panic(err)
		}
	})
	ws, ts := wk, tk
	if wk == "" {
		// an instance of an anonymous object type (derived by WrapReflectedType, never resolved) faults when it is used
		if k, text := safely(func() { ws = encVal(wrapped) }); k != "" {
			out := "use=" + k
			if !register && t.has("struct") && notReflectable(t) == "" {
				return res(out, "FAIL anon-struct-unresolved InitHash of the wrapped value: "+text)
			}
			return res(out, "FAIL fault using the wrapped value: "+text)
		}
	}
	if tk == "" {
		ts = encTy(pt)
	}
	out := ws + " | " + ts
	if wk != "" || tk != "" {
		tags = append(tags, "wrap-or-type-fault")
		out += " | inst=- | back=- eq=-"
		if r := notReflectable(t); r != "" {
			return res(out, "n/a")
		}
		if wk != "" {
			if strings.Contains(wtext, "IsNil") && t.has("array") {
				return res(out, "FAIL array-kind-panic wrap: "+wtext)
			}
			return res(out, "FAIL fault wrap: "+wtext)
		}
		if strings.Contains(ttext, "already present in the implementation registry") && !register && nestedStruct(t, false) {
			return res(out, "FAIL anon-struct-nested derive type: "+ttext)
		}
		return res(out, "FAIL fault derive type: "+ttext)
	}
	// the derived type accepts the wrapped value
	inst := false
	ik, itext := safely(func() { inst = px.IsInstance(pt, wrapped) })
	if ik != "" {
		return res(out+" | inst="+ik, "FAIL fault IsInstance: "+itext)
	}
	out += " | inst=" + sx.B(inst)
	// embedding: the wrapped struct is an instance of the type of every ancestor (embedded first field, recursively)
	ancOK := true
	if anc := ancestorTypes(c, t); register && len(anc) > 0 {
		out += " | anc="
		for _, at := range anc {
			ai := false
			if k, text := safely(func() { ai = px.IsInstance(at, wrapped) }); k != "" {
				return res(out+k, "FAIL fault IsInstance of the parent type: "+text)
			}
			out += sx.B(ai)
			ancOK = ancOK && ai
		}
	}
	// Value → Go
	back := reflect.New(rt).Elem()
	bk, btext := safely(func() { c.Reflector().ReflectTo(wrapped, back) })
	eq := false
	if bk != "" {
		out += " | back=" + bk + " eq=f"
		tags = append(tags, "back-fault")
	} else {
		eq = reflect.DeepEqual(gv.Interface(), back.Interface())
		out += " | back=" + encGo(t, back) + " eq=" + sx.B(eq)
	}
	if r := notReflectable(t); r != "" {
		return res(out, "n/a")
	}
	if hasNaN(t, gv) {
		return res(out, "n/a") // DeepEqual is not reflexive on NaN
	}
	if bk != "" {
		return res(out, "FAIL "+backFaultClass(t, gv, btext)+" ReflectTo: "+btext)
	}
	if !eq {
		cl := diffClass(t, gv, back)
		if cl == "" {
			cl = "roundtrip-differs"
		}
		return res(out, "FAIL "+cl+" "+encGo(t, gv)+" came back as "+encGo(t, back))
	}
	if !inst {
		return res(out, "FAIL "+instClass(t, gv, true)+" "+ts+" rejects "+ws)
	}
	if !ancOK {
		return res(out, "FAIL parent-type-rejects-child a type derived from an embedded parent struct rejects "+ws)
	}
	if d := otherWaysBack(c, t, wrapped, back); d != "" {
		return res(out, "FAIL "+d)
	}
	return res(out, "ok")
}

// ancestorTypes: for a struct type, the object types derived from its chain of embedded first fields (nearest first)
func ancestorTypes(c px.Context, t *gty) []px.Type {
	ats := []px.Type{}
	for t.kind == "struct" && len(t.fields) > 0 && t.fields[0].anon && t.fields[0].t.kind == "struct" {
		t = t.fields[0].t
		if pt, ok := c.ImplementationRegistry().ReflectedToType(t.rtype()); ok {
			ats = append(ats, pt)
		} else {
			ats = append(ats, types.DefaultObjectType()) // never: every struct type of the term was registered
		}
	}
	return ats
}

// regFailClass names the reason the object type of some struct type in t cannot be derived; "n/a" when the derivation reports
// an inconsistency the tags themselves declare (a default that is not an instance of the declared type, an Optional type on
// a field that cannot be nil, a value on a derived attribute, a constant without a value): a reported error is the answer
func regFailClass(t *gty, k string, text string) string {
	if (strings.Contains(text, "attempts to override") || k == "reported PCORE_OVERRIDE_OF_FINAL") && attrClash(t) {
		return "embed-attribute-clash"
	}
	if k == "reported PCORE_ILLEGAL_KIND_VALUE_COMBINATION" && givenOrDerivedNilable(t) {
		return "given-or-derived-on-pointer"
	}
	switch k {
	case "reported PCORE_IMPOSSIBLE_OPTIONAL", "reported PCORE_ILLEGAL_KIND_VALUE_COMBINATION", "reported PCORE_TYPE_MISMATCH",
		"reported PCORE_CONSTANT_REQUIRES_VALUE":
		if hasTagKey(t, "value") || hasTagKey(t, "type") || hasTagKey(t, "kind") {
			return "n/a"
		}
	}
	return "struct-type-fault"
}

func regFailPred(t *gty, k string, text string) string {
	if cl := regFailClass(t, k, text); cl != "n/a" {
		return "FAIL " + cl + " " + text
	}
	return "n/a"
}

// hasTagKey: some struct field inside t carries the tag item key=>…
func hasTagKey(t *gty, key string) bool {
	if t == nil {
		return false
	}
	for _, f := range t.fields {
		if tagItem(f.tag, key) != "" || hasTagKey(f.t, key) {
			return true
		}
	}
	return hasTagKey(t.key, key) || hasTagKey(t.elem, key)
}

// givenOrDerivedNilable: some field is tagged kind=>given_or_derived without a value of its own and has an Optional type (a
// pointer, or type=>Optional[…]): ReflectFieldTags adds the implicit `value => undef`, which the attribute then refuses
func givenOrDerivedNilable(t *gty) bool {
	if t == nil {
		return false
	}
	for _, f := range t.fields {
		if (tagItem(f.tag, "kind") == "given_or_derived" || tagItem(f.tag, "kind") == "derived") && tagItem(f.tag, "value") == "" &&
			(strings.HasPrefix(tagItem(f.tag, "type"), "Optional[") || (tagItem(f.tag, "type") == "" && f.t.kind == "ptr")) {
			return true
		}
		if givenOrDerivedNilable(f.t) {
			return true
		}
	}
	return givenOrDerivedNilable(t.key) || givenOrDerivedNilable(t.elem)
}

// attrClash: some struct type in t declares an attribute that one of its embedded parents (first field) declares too
func attrClash(t *gty) bool {
	if t == nil {
		return false
	}
	if t.kind == "struct" {
		names := map[string]bool{}
		for _, f := range attrFields(t) {
			if names[attrNameOf(f)] {
				return true
			}
			names[attrNameOf(f)] = true
		}
		for _, f := range t.fields {
			if attrClash(f.t) {
				return true
			}
		}
	}
	return attrClash(t.key) || attrClash(t.elem)
}

type fieldVal struct {
	f gfield
	v reflect.Value
}

// attrFieldVals: the fields that are attributes of the derived object type with their values: the embedded parent's (first
// field), then the own
func attrFieldVals(t *gty, v reflect.Value) []fieldVal {
	out := []fieldVal{}
	for i, f := range t.fields {
		if i == 0 && f.anon && f.t.kind == "struct" {
			out = append(out, attrFieldVals(f.t, v.Field(0))...)
			continue
		}
		out = append(out, fieldVal{f, v.Field(i)})
	}
	return out
}

// unstoredNonZero: some attribute of kind constant / derived (also of an embedded parent) holds a value other than the zero value
func unstoredNonZero(t *gty, v reflect.Value) bool {
	for _, fv := range attrFieldVals(t, v) {
		if k := tagItem(fv.f.tag, "kind"); (k == "constant" || k == "derived") && !fv.v.IsZero() {
			return true
		}
	}
	return false
}

// embeddedPtrParent: the struct's first field is an embedded POINTER to a struct that is not nil in v: the reflector takes
// every embedded first field for the parent (InitializerFromTagged: `i == 0 && f.Anonymous`) and gives it no attribute
func embeddedPtrParent(t *gty, v reflect.Value) bool {
	return t.kind == "struct" && len(t.fields) > 0 && t.fields[0].anon && t.fields[0].t.kind == "ptr" && !v.Field(0).IsNil()
}

// nestedStruct: some struct type occurs inside another struct type
func nestedStruct(t *gty, inside bool) bool {
	if t == nil {
		return false
	}
	if t.kind == "struct" {
		if inside {
			return true
		}
		inside = true
	}
	for _, f := range t.fields {
		if nestedStruct(f.t, inside) {
			return true
		}
	}
	return nestedStruct(t.key, inside) || nestedStruct(t.elem, inside)
}

// ---- classification of failures (each class names one precise cause) ----------------------------------------------

func nillable(t *gty) bool {
	switch t.kind {
	case "slice", "map", "ptr", "iface":
		return true
	}
	return false
}

// ifaceNilSlot: the value holds a nil interface{} in a slot that ReflectTo fills through reflector.ReflectTo
// (top level, slice / array element, struct field) — maps use a separate path
func ifaceNilSlot(t *gty, v reflect.Value) bool {
	switch t.kind {
	case "iface":
		return v.IsNil()
	case "slice", "array":
		for i := 0; i < v.Len(); i++ {
			if ifaceNilSlot(t.elem, v.Index(i)) {
				return true
			}
		}
	case "map":
		if t.elem.kind == "iface" {
			return false
		}
		for _, k := range v.MapKeys() {
			if ifaceNilSlot(t.elem, v.MapIndex(k)) {
				return true
			}
		}
	case "ptr":
		return !v.IsNil() && ifaceNilSlot(t.elem, v.Elem())
	case "struct":
		for i, f := range t.fields {
			if ifaceNilSlot(f.t, v.Field(i)) {
				return true
			}
		}
	}
	return false
}

func backFaultClass(t *gty, v reflect.Value, text string) string {
	switch {
	case strings.Contains(text, "Set on zero Value") && ifaceNilSlot(t, v):
		return "iface-slice-panic"
	case strings.Contains(text, "of non-map type") && t.has("struct"):
		return "plain-struct-hash"
	case strings.Contains(text, "MakeSlice of non-slice type") && t.has("array"):
		return "array-reflect-to"
	case strings.Contains(text, "is not assignable to type struct") && ifacePtrStructElems(t, v, false, false):
		// an interface{} holding a container whose elements are POINTERS to a registered struct: the Go type inferred for it has
		// the struct itself as its element type (objectType.ReflectType), the element objects hold the pointers
		return "iface-ptr-struct-elems-fault"
	case strings.Contains(text, "value of kind int to a reflect.Value of kind float64") && t.has("iface"):
		// an interface{} holding a container of integers AND floats: the Go type inferred for it is []float64 / map[..]float64
		return "iface-numeric-mix-fault"
	}
	return "fault"
}

// diffClass names the first difference between the original value a and what came back, b ("" = none found)
func diffClass(t *gty, a, b reflect.Value) string {
	switch t.kind {
	case "int":
		if a.Int() != b.Int() {
			return "roundtrip-differs"
		}
	case "uint":
		if a.Uint() != b.Uint() {
			return "roundtrip-differs"
		}
	case "float":
		if math.Float64bits(a.Float()) != math.Float64bits(b.Float()) && a.Float() != b.Float() {
			return "roundtrip-differs"
		}
	case "string":
		if a.String() != b.String() {
			return "roundtrip-differs"
		}
	case "bool":
		if a.Bool() != b.Bool() {
			return "roundtrip-differs"
		}
	case "iface":
		if a.IsNil() || b.IsNil() {
			if a.IsNil() != b.IsNil() {
				if a.IsNil() && b.Elem().Type().String() == "*types.UndefValue" {
					return "iface-nil-becomes-undef-value"
				}
				return "roundtrip-differs"
			}
			return ""
		}
		at, bt := a.Elem().Type(), b.Elem().Type()
		if at != bt {
			isInt := func(k reflect.Kind) bool { return k >= reflect.Int && k <= reflect.Uint64 }
			isFloat := func(k reflect.Kind) bool { return k == reflect.Float32 || k == reflect.Float64 }
			switch {
			case isInt(at.Kind()) && bt.Kind() == reflect.Int64:
				return "iface-int-width"
			case isFloat(at.Kind()) && bt.Kind() == reflect.Float64:
				return "iface-float-width"
			}
			return "iface-dynamic-type"
		}
		if dt := gtyOf(at); dt != nil {
			return diffClass(dt, a.Elem(), b.Elem())
		}
		return "roundtrip-differs"
	case "slice":
		if a.IsNil() != b.IsNil() {
			switch {
			case a.IsNil() && b.Len() == 0:
				return "nil-slice-becomes-empty"
			case b.IsNil() && a.Len() == 0:
				return "empty-slice-becomes-nil"
			}
			return "roundtrip-differs"
		}
		if a.Len() != b.Len() {
			return "roundtrip-differs"
		}
		for i := 0; i < a.Len(); i++ {
			if c := diffClass(t.elem, a.Index(i), b.Index(i)); c != "" {
				return c
			}
		}
	case "array":
		for i := 0; i < a.Len(); i++ {
			if c := diffClass(t.elem, a.Index(i), b.Index(i)); c != "" {
				return c
			}
		}
	case "map":
		if a.IsNil() != b.IsNil() {
			switch {
			case a.IsNil() && b.Len() == 0:
				return "nil-map-becomes-empty"
			case b.IsNil() && a.Len() == 0:
				return "empty-map-becomes-nil"
			}
			return "roundtrip-differs"
		}
		if a.Len() != b.Len() {
			return "roundtrip-differs"
		}
		for _, k := range a.MapKeys() {
			bv := b.MapIndex(k)
			if !bv.IsValid() {
				return "roundtrip-differs"
			}
			if c := diffClass(t.elem, a.MapIndex(k), bv); c != "" {
				return c
			}
		}
	case "ptr":
		if a.IsNil() != b.IsNil() {
			if b.IsNil() && nillable(t.elem) && a.Elem().IsNil() {
				return "ptr-to-nil-collapses"
			}
			return "roundtrip-differs"
		}
		if !a.IsNil() {
			return diffClass(t.elem, a.Elem(), b.Elem())
		}
	case "struct":
		for i, f := range t.fields {
			if c := diffClass(f.t, a.Field(i), b.Field(i)); c != "" {
				return c
			}
		}
	}
	return ""
}

// instClass names the first cause (in walk order) for the derived type to reject the wrapped value.
// viaWrap: the value reaches types.wrap as an interface{} (top level, element, key, field) and not through a
// dereferenced pointer (wrapReflected), which is where []byte becomes Binary.
func instClass(t *gty, v reflect.Value, viaWrap bool) string {
	if c := instCause(t, v, viaWrap, false); c != "" {
		return c
	}
	return "type-rejects-wrapped"
}

func instCause(t *gty, v reflect.Value, viaWrap bool, underPtr bool) string {
	switch t.kind {
	case "uint":
		if v.Uint() >= 1<<63 {
			return "uint64-overflow"
		}
	case "float":
		if math.IsInf(v.Float(), 0) && t.w == 32 { // float64: the default Float has no bounds (repaired, /repo b380d5a)
			return "float-inf-rejected"
		}
	case "slice":
		if viaWrap && t.elem.kind == "uint" && t.elem.w == 8 {
			return "bytes-become-binary"
		}
		if v.IsNil() {
			if underPtr {
				return ""
			}
			return "nil-slice-becomes-undef-rejected"
		}
		for i := 0; i < v.Len(); i++ {
			if c := instCause(t.elem, v.Index(i), true, false); c != "" {
				return c
			}
		}
	case "array":
		for i := 0; i < v.Len(); i++ {
			if c := instCause(t.elem, v.Index(i), true, false); c != "" {
				return c
			}
		}
	case "map":
		if v.IsNil() {
			if underPtr {
				return ""
			}
			return "nil-map-becomes-undef-rejected"
		}
		keys := v.MapKeys()
		sort.Slice(keys, func(i, j int) bool { return keyLess(t.key, keys[i], keys[j]) })
		for _, k := range keys {
			if c := instCause(t.key, k, true, false); c != "" {
				return c
			}
			if c := instCause(t.elem, v.MapIndex(k), true, false); c != "" {
				return c
			}
		}
	case "ptr":
		if !v.IsNil() {
			return instCause(t.elem, v.Elem(), false, true)
		}
	case "struct":
		for i, f := range t.fields {
			if c := instCause(f.t, v.Field(i), true, false); c != "" {
				return c
			}
		}
	}
	return ""
}

// ---- @obj: structs through a derived object type (implementation only) ------------------------------------------------

func obj(c px.Context, t *gty, ve sx.Sexp, tagged bool) core.Result {
	if t.kind != "struct" {
		return core.Result{Out: "bad-op", Pred: "FAIL harness-bad-op obj needs a struct type"}
	}
	if tagged {
		t = withExternalTags(t)
	}
	gv := build(t, ve)
	rt := t.rtype()
	tags := []string{"k:obj"}
	res := func(out, pred string) core.Result { return core.Result{Out: out, Pred: oneLine(pred), NonTrivial: true, Tags: tags} }
	seen := map[reflect.Type]px.ObjectType{}
	if k, text := safely(func() { registerStructs(c, t, seen) }); k != "" {
		if r := notReflectable(t); r != "" {
			return res("register="+k, "n/a")
		}
		return res("register="+k, regFailPred(t, k, text))
	}
	ot := seen[rt]
	// struct → object → init hash
	var ih px.OrderedMap
	if k, text := safely(func() { ih = px.Wrap(c, gv.Interface()).(px.PuppetObject).InitHash() }); k != "" {
		return res("inithash="+k, "FAIL fault InitHash: "+text)
	}
	out := encVal(ih)
	// the derived object type constructs an instance — from positional arguments and, unless a single Hash argument
	// is ambiguous (the first attribute itself accepts the init hash: the positional dispatch wins), from the init hash —
	// that converts back to an equal struct
	var pos []px.Value
	var wrapped px.PuppetObject
	if k, text := safely(func() {
		wrapped = px.Wrap(c, gv.Interface()).(px.PuppetObject)
		for _, a := range ot.AttributesInfo().Attributes() {
			pos = append(pos, a.Get(wrapped))
		}
	}); k != "" {
		return res(out+" | attrs="+k, "FAIL fault attribute values: "+text)
	}
	// A single Hash argument is ambiguous by design of the object constructor (the named-argument dispatch comes first,
	// the positional one second): the positional form is skipped when its only argument is a Hash, the named form
	// when the first attribute itself accepts the init hash.
	variants := [][]px.Value{}
	names := []string{}
	if _, isHash := pos0(pos).(*types.Hash); !(len(pos) == 1 && isHash) {
		variants = append(variants, pos)
		names = append(names, "pos")
	} else {
		tags = append(tags, "pos-ambiguous")
	}
	attrs := ot.AttributesInfo().Attributes()
	// fewer positional arguments: the trailing ones that equal their attribute's default are left out
	trim := pos
	for n := len(trim); n > 0 && attrs[n-1].Default(trim[n-1]); n-- {
		trim = trim[:n-1]
	}
	if len(trim) < len(pos) {
		if _, isHash := pos0(trim).(*types.Hash); !(len(trim) == 1 && isHash) {
			variants = append(variants, trim)
			names = append(names, "postrim")
			tags = append(tags, "trimmed-defaults")
		}
	}
	if len(attrs) == 0 || !px.IsInstance(attrs[0].Type(), ih) {
		variants = append(variants, []px.Value{ih})
		names = append(names, "named")
	} else {
		tags = append(tags, "named-ambiguous")
	}
	// the hash with every attribute given (nothing omitted)
	if full := fullHash(attrs, pos); !full.Equals(ih, nil) && (len(attrs) == 0 || !px.IsInstance(attrs[0].Type(), full)) {
		variants = append(variants, []px.Value{full})
		names = append(names, "full")
	}
	na := notReflectable(t) != "" || hasNaN(t, gv)
	pred := "ok"
	for vi, args := range variants {
		var o2 px.Value
		nk, ntext := safely(func() { o2 = px.New(c, ot, args...) })
		if nk != "" {
			out += " | " + names[vi] + "=" + nk
			if pred == "ok" {
				pred = "FAIL obj-new-fault New: " + ntext
				for _, fv := range attrFieldVals(t, gv) {
					if cl := instCause(fv.f.t, fv.v, false, false); cl != "" {
						pred = "FAIL " + cl + " New: " + ntext
						break
					}
				}
				if hasTagKey(t, "type") && nk == "reported PCORE_ILLEGAL_ARGUMENTS" {
					// the tag declares the attribute's type itself: a field value that type does not accept is outside the quantifier
					pred = "n/a"
				}
			}
			continue
		}
		back := reflect.New(rt).Elem()
		bk, btext := safely(func() { c.Reflector().ReflectTo(o2, back) })
		if bk != "" {
			out += " | " + names[vi] + "=ok back=" + bk + " eq=f"
			if pred == "ok" {
				pred = "FAIL " + backFaultClass(t, gv, btext) + " ReflectTo: " + btext
			}
			continue
		}
		eq := reflect.DeepEqual(gv.Interface(), back.Interface())
		out += " | " + names[vi] + "=ok back=" + encGo(t, back) + " eq=" + sx.B(eq)
		if eq && pred == "ok" {
			if d := ptrDestBack(c, t, o2, back); d != "" {
				pred = "FAIL " + d
			}
		}
		if !eq && pred == "ok" {
			cl := diffClass(t, gv, back)
			if cl == "" {
				cl = "roundtrip-differs"
			}
			if embeddedPtrParent(t, gv) && back.Field(0).IsNil() {
				cl = "embedded-ptr-parent-dropped"
			}
			pred = "FAIL " + cl + " " + encGo(t, gv) + " came back as " + encGo(t, back)
			if unstoredNonZero(t, gv) {
				// a field tagged kind=>constant / derived is by declaration not part of an instance's state: setValues never
				// touches it, so only its zero value can come back — outside the quantifier
				pred = "n/a"
				tags = append(tags, "unstored-kind")
			}
		}
	}
	if na {
		return res(out, "n/a")
	}
	return res(out, pred)
}

// inModel: the shapes the Lean model covers (lean/Pcore/Model/Reflect.lean `Modelled` + `structWF` for every struct type in
// the term) — reflectable; no struct field that is itself an interface{} (it wraps to a Runtime value); an embedded field is a
// struct; tags in the form the driver reads with declared defaults of integers, strings, booleans (or pointers to them)
// that are instances of the field's type; attribute names and Go names distinct over the chain of embedded parents
func inModel(t *gty) bool {
	return notReflectable(t) == "" && structsInModel(t)
}

// tagLit: a literal of a `value=>` tag item in the form the driver reads (lean/Driver/C18.lean litP) —
//	LIT ::= -?DIGITS | -?DIGITS.DIGITS | 'chars' | true | false | undef | [LIT,…] | {'key'=>LIT,…}      (no blanks inside)
type tagLit struct {
	kind  string // int flt str bool undef arr hsh
	i     int64
	f     float64
	s     string
	b     bool
	elems []tagLit
	keys  []string
}

var strLitChars = regexp.MustCompile(`^[^',"\\]*$`)

func parseLit(s string) (l tagLit, rest string, ok bool) {
	switch {
	case strings.HasPrefix(s, "'"):
		j := strings.Index(s[1:], "'")
		if j < 0 || !strLitChars.MatchString(s[1:1+j]) {
			return l, s, false
		}
		return tagLit{kind: "str", s: s[1 : 1+j]}, s[j+2:], true
	case strings.HasPrefix(s, "[]"):
		return tagLit{kind: "arr"}, s[2:], true
	case strings.HasPrefix(s, "["):
		l = tagLit{kind: "arr"}
		s = s[1:]
		for {
			e, r, ok := parseLit(s)
			if !ok {
				return l, s, false
			}
			l.elems = append(l.elems, e)
			if strings.HasPrefix(r, ",") {
				s = r[1:]
				continue
			}
			if strings.HasPrefix(r, "]") {
				return l, r[1:], true
			}
			return l, s, false
		}
	case strings.HasPrefix(s, "{}"):
		return tagLit{kind: "hsh"}, s[2:], true
	case strings.HasPrefix(s, "{"):
		l = tagLit{kind: "hsh"}
		s = s[1:]
		for {
			k, r, ok := parseLit(s)
			if !ok || k.kind != "str" || !strings.HasPrefix(r, "=>") {
				return l, s, false
			}
			for _, o := range l.keys {
				if o == k.s {
					return l, s, false // a repeated key: not a form the model reads
				}
			}
			v, r2, ok := parseLit(r[2:])
			if !ok {
				return l, s, false
			}
			l.keys = append(l.keys, k.s)
			l.elems = append(l.elems, v)
			if strings.HasPrefix(r2, ",") {
				s = r2[1:]
				continue
			}
			if strings.HasPrefix(r2, "}") {
				return l, r2[1:], true
			}
			return l, s, false
		}
	case strings.HasPrefix(s, "true"):
		return tagLit{kind: "bool", b: true}, s[4:], true
	case strings.HasPrefix(s, "false"):
		return tagLit{kind: "bool"}, s[5:], true
	case strings.HasPrefix(s, "undef"):
		return tagLit{kind: "undef"}, s[5:], true
	}
	m := numLit.FindStringSubmatch(s)
	if m == nil {
		return l, s, false
	}
	if m[2] != "" {
		f, err := strconv.ParseFloat(m[0], 64)
		if err != nil {
			return l, s, false
		}
		return tagLit{kind: "flt", f: f}, s[len(m[0]):], true
	}
	i, err := strconv.ParseInt(m[0], 10, 64)
	if err != nil {
		return l, s, false
	}
	return tagLit{kind: "int", i: i}, s[len(m[0]):], true
}

var numLit = regexp.MustCompile(`^-?[0-9]+(\.([0-9]+))?`)

// litFits mirrors the model's `inst (typeOf t) (toVal lit)`: the attribute type derived from the Go type accepts the literal
func litFits(t *gty, l tagLit) bool {
	switch t.kind {
	case "int":
		b := bits(t.w)
		return l.kind == "int" && l.i >= int64(-1)<<(b-1) && l.i <= -(int64(-1)<<(b-1)+1)
	case "uint":
		b := bits(t.w)
		return l.kind == "int" && l.i >= 0 && (b == 64 || l.i <= int64(1)<<b-1)
	case "float":
		return l.kind == "flt" && l.f == l.f && (t.w == 64 || math.Abs(l.f) <= math.MaxFloat32)
	case "string":
		return l.kind == "str"
	case "bool":
		return l.kind == "bool"
	case "slice", "array":
		if l.kind != "arr" {
			return false
		}
		for _, e := range l.elems {
			if !litFits(t.elem, e) {
				return false
			}
		}
		return true
	case "map":
		if l.kind != "hsh" || (t.key.kind != "string" && len(l.keys) > 0) {
			return false
		}
		for _, e := range l.elems {
			if !litFits(t.elem, e) {
				return false
			}
		}
		return true
	case "ptr":
		return l.kind == "undef" || litFits(t.elem, l)
	}
	return false
}

// parseTTy: a type of a `type=>` tag item in the form the driver reads (lean/Driver/C18.lean ttyP) —
//	T ::= Integer | Integer[lo,hi] | Float | String | Boolean | Any | Optional[T] | Array[T] | Hash[T,T]
func parseTTy(s string) (rest string, ok bool) {
	i := 0
	for i < len(s) && (s[i] >= 'A' && s[i] <= 'Z' || s[i] >= 'a' && s[i] <= 'z') {
		i++
	}
	name, r := s[:i], s[i:]
	switch name {
	case "Integer":
		if m := intRange.FindString(r); m != "" {
			return r[len(m):], true
		}
		return r, !strings.HasPrefix(r, "[")
	case "Float", "String", "Boolean", "Any":
		return r, !strings.HasPrefix(r, "[")
	case "Optional", "Array":
		if !strings.HasPrefix(r, "[") {
			return r, false
		}
		r2, ok := parseTTy(r[1:])
		if !ok || !strings.HasPrefix(r2, "]") {
			return r, false
		}
		return r2[1:], true
	case "Hash":
		if !strings.HasPrefix(r, "[") {
			return r, false
		}
		r2, ok := parseTTy(r[1:])
		if !ok || !strings.HasPrefix(r2, ",") {
			return r, false
		}
		r3, ok := parseTTy(r2[1:])
		if !ok || !strings.HasPrefix(r3, "]") {
			return r, false
		}
		return r3[1:], true
	}
	return s, false
}

var intRange = regexp.MustCompile(`^\[-?[0-9]{1,18},-?[0-9]{1,18}\]`)

// tagInModel: `puppet:"ITEM, ITEM"` with ITEM ::= name=>'chars' | value=>LIT | type=>T | kind=>K, each at most once
func tagInModel(tag string) bool {
	if !strings.HasPrefix(tag, `puppet:"`) || !strings.HasSuffix(tag, `"`) || len(tag) < 10 {
		return false
	}
	seen := map[string]bool{}
	for _, item := range strings.Split(tag[8:len(tag)-1], ", ") {
		var key string
		switch {
		case strings.HasPrefix(item, "name=>"):
			key = "name"
			l, r, ok := parseLit(item[6:])
			if !ok || r != "" || l.kind != "str" {
				return false
			}
		case strings.HasPrefix(item, "value=>"):
			key = "value"
			if _, r, ok := parseLit(item[7:]); !ok || r != "" {
				return false
			}
		case strings.HasPrefix(item, "type=>"):
			key = "type"
			if r, ok := parseTTy(item[6:]); !ok || r != "" {
				return false
			}
		case strings.HasPrefix(item, "kind=>"):
			key = "kind"
			switch item[6:] {
			case "constant", "derived", "given_or_derived", "reference":
			default:
				return false
			}
		default:
			return false
		}
		if seen[key] {
			return false
		}
		seen[key] = true
	}
	return true
}

func structsInModel(t *gty) bool {
	if t == nil {
		return true
	}
	if !structsInModel(t.key) || !structsInModel(t.elem) {
		return false
	}
	if t.kind != "struct" {
		return true
	}
	for _, f := range t.fields {
		if !structsInModel(f.t) || (f.anon && f.t.kind != "struct") {
			return false
		}
		if f.tag != "" && !tagInModel(f.tag) {
			return false
		}
	}
	// own attribute names distinct (a clash with an attribute of the embedded parent is a derivation error the model reports)
	names, goNames := map[string]bool{}, map[string]bool{}
	own := t.fields
	if len(own) > 0 && own[0].anon && own[0].t.kind == "struct" {
		own = own[1:]
	}
	for _, f := range own {
		if names[attrNameOf(f)] {
			return false
		}
		names[attrNameOf(f)] = true
	}
	for _, n := range promotedNames(t) {
		if goNames[n] {
			return false
		}
		goNames[n] = true
	}
	return true
}

// promotedNames: every Go field name that FieldByName can see from the struct — its own and, through embedded structs (in any
// position), theirs; the model demands that they are all distinct (Go resolves a clash by depth or finds the name ambiguous)
func promotedNames(t *gty) []string {
	ns := []string{}
	for _, f := range t.fields {
		ns = append(ns, f.name)
		if f.anon && f.t.kind == "struct" {
			ns = append(ns, promotedNames(f.t)...)
		}
	}
	return ns
}

// ifaceFieldsInModel: every struct field that is itself an interface{} — in every struct value inside v that is wrapped as an
// object — holds nil or a value whose dynamic type is a struct-free type term (no struct, no pointer to one: those are objects
// when their type happens to be registered); the model keeps it verbatim in a Runtime value
func ifaceFieldsInModel(t *gty, v reflect.Value) bool {
	ok := true
	walkStructs(t, v, func(st *gty, sv reflect.Value) {
		for i, f := range st.fields {
			if f.t.kind != "iface" || sv.Field(i).IsNil() {
				continue
			}
			dt := gtyOf(sv.Field(i).Elem().Type())
			if dt == nil || dt.has("struct") || dt.kind == "iface" {
				ok = false
			}
		}
	})
	return ok
}

// attrFields: the fields that become attributes of the derived object type — those of the embedded parent (first field), then the own
func attrFields(t *gty) []gfield {
	if len(t.fields) > 0 && t.fields[0].anon && t.fields[0].t.kind == "struct" {
		return append(attrFields(t.fields[0].t), t.fields[1:]...)
	}
	return t.fields
}

// dfltInModel: the literal of a `value=>` tag item is one the attribute type derived from the field's type accepts
func dfltInModel(t *gty, lit string) bool {
	l, r, ok := parseLit(lit)
	return ok && r == "" && litFits(t, l)
}

// ---- @objreg: declared object types mapped to structs through the implementation registry -------------------------------

// tagName / tagValue read the two tag items the generator writes, independently of pcore's tag parser
func tagItem(tag, key string) string {
	i := strings.Index(tag, key+"=>")
	if i < 0 {
		return ""
	}
	v := tag[i+len(key)+2:]
	if j := strings.Index(v, ", "); j >= 0 {
		v = v[:j]
	}
	return strings.TrimSuffix(v, "\"")
}

func attrNameOf(f gfield) string {
	if n := tagItem(f.tag, "name"); n != "" {
		return strings.Trim(n, "'")
	}
	return strings.ToLower(f.name[:1]) + f.name[1:]
}

// declareStructs declares, innermost first, an object type R::S<i> for every struct type in t from a Puppet type
// declaration (attribute name => derived type of the field, pointer fields and declared defaults with a value) and maps
// it to the Go type with ImplementationRegistry.RegisterType: instances are plain attribute slices, not Go-backed
func declareStructs(c px.Context, t *gty, seen map[reflect.Type]px.Type, withParent bool) {
	if t == nil {
		return
	}
	declareStructs(c, t.key, seen, withParent)
	declareStructs(c, t.elem, seen, withParent)
	for _, f := range t.fields {
		declareStructs(c, f.t, seen, withParent)
	}
	if t.kind != "struct" {
		return
	}
	rt := t.rtype()
	if _, ok := seen[rt]; ok {
		return
	}
	as := []string{}
	fields, parentDecl := t.fields, ""
	if withParent && declaredParent(t) != nil {
		// @objregp: the embedded first field is the DECLARED parent (its attributes are inherited, the field gets none):
		// FromReflectedValue / ToReflectedValue then descend into the embedded struct with the parent type
		parentDecl = "parent => " + seen[declaredParent(t).rtype()].Name() + ", "
		fields = fields[1:]
	}
	for _, f := range fields {
		ft, err := px.WrapReflectedType(c, f.t.rtype())
		if err != nil {
			panic(err)
		}
		decl := ft.String()
		if v := tagItem(f.tag, "value"); v != "" {
			decl = "{type => " + decl + ", value => " + v + "}"
		} else if f.t.kind == "ptr" || f.t.kind == "iface" {
			// a field that can be nil is declared with the value undef: FromReflectedValue leaves nil fields out
			decl = "{type => " + decl + ", value => undef}"
		}
		as = append(as, "'"+attrNameOf(f)+"' => "+decl)
	}
	name := "R::S" + strconv.Itoa(len(seen)+1)
	px.AddTypes(c, types.NamedType("", name, types.Parse("{"+parentDecl+"attributes => {"+strings.Join(as, ", ")+"}}")))
	pt := c.ParseType(name)
	c.ImplementationRegistry().RegisterType(pt, rt)
	seen[rt] = pt
}

// walkStructs visits every struct value inside v (through pointers, slices, arrays, maps and fields), innermost last
func walkStructs(t *gty, v reflect.Value, fn func(st *gty, sv reflect.Value)) {
	switch t.kind {
	case "struct":
		fn(t, v)
		for i, f := range t.fields {
			walkStructs(f.t, v.Field(i), fn)
		}
	case "iface":
		// the struct values behind an interface{} (their types are declared by declareDynamic)
		if !v.IsNil() {
			if dt := gtyOf(v.Elem().Type()); dt != nil {
				walkStructs(dt, v.Elem(), fn)
			}
		}
	case "ptr":
		if !v.IsNil() {
			walkStructs(t.elem, v.Elem(), fn)
		}
	case "slice", "array":
		for i := 0; i < v.Len(); i++ {
			walkStructs(t.elem, v.Index(i), fn)
		}
	case "map":
		for _, k := range v.MapKeys() {
			walkStructs(t.elem, v.MapIndex(k), fn)
		}
	}
}

func objreg(c px.Context, t *gty, ve sx.Sexp, withParent bool) core.Result {
	if !t.has("struct") && !t.has("iface") {
		return core.Result{Out: "bad-op", Pred: "FAIL harness-bad-op objreg needs a struct type"}
	}
	gv := build(t, ve)
	rt := t.rtype()
	tags := []string{"k:objreg"}
	// the fields of a struct value that the declared type has attributes for: all of them, or (with declared parents) those
	// of the embedded parent first, then the own
	fieldVals := func(st *gty, sv reflect.Value) []fieldVal {
		if withParent {
			return declaredFieldVals(st, sv)
		}
		out := []fieldVal{}
		for i, f := range st.fields {
			out = append(out, fieldVal{f, sv.Field(i)})
		}
		return out
	}
	if withParent {
		tags = []string{"k:objregp"}
	}
	res := func(out, pred string) core.Result { return core.Result{Out: out, Pred: oneLine(pred), NonTrivial: true, Tags: tags} }
	na := notReflectable(t) != "" || hasNaN(t, gv)
	seen := map[reflect.Type]px.Type{}
	if k, text := safely(func() {
		declareStructs(c, t, seen, withParent)
		if t.has("iface") {
			declareDynamic(c, t, gv, seen, withParent)
		}
	}); k != "" {
		if na {
			return res("declare="+k, "n/a")
		}
		return res("declare="+k, regFailPred(t, k, text))
	}
	pt := seen[rt]
	if t.kind != "struct" {
		// structs inside a container / behind a pointer at the top: the type of the whole is derived with the declared types
		// found through the implementation registry
		if k, text := safely(func() {
			var err error
			if pt, err = px.WrapReflectedType(c, rt); err != nil {
				panic(err)
			}
		}); k != "" {
			if na {
				return res("type="+k, "n/a")
			}
			return res("type="+k, "FAIL fault derive type: "+text)
		}
	}
	// every struct value inside the value goes through FromReflectedValue / ToReflectedValue of its own type
	cause := ""
	walkStructs(t, gv, func(st *gty, sv reflect.Value) {
		if withParent && declaredParent(st) != nil && st.fields[0].t.kind == "ptr" && sv.Field(0).IsNil() {
			// a nil embedded pointer to the DECLARED parent: the parent's attributes have no value to take (FromReflectedValue
			// faults on the zero Value; notes/C18-mutation-sweep.md) — no instance of the declared type corresponds to it
			na = true
			tags = append(tags, "nil-parent-pointer")
		}
		for _, fv := range fieldVals(st, sv) {
			if f := fv.f; cause == "" && f.t.kind != "struct" && !(f.t.kind == "ptr" && f.t.elem.kind == "struct") {
				cause = instCause(f.t, fv.v, false, false)
			}
		}
		// FromReflectedValue calls px.New(T, hash of the non-nil fields): when the first attribute itself accepts that hash
		// the single Hash argument is ambiguous by design of the object constructor (DESIGN §11) — outside the property
		if k, _ := safely(func() {
			es := []*types.HashEntry{}
			for _, fv := range fieldVals(st, sv) {
				f, sf := fv.f, fv.v
				if sf.Kind() == reflect.Ptr {
					sf = sf.Elem()
				}
				if !sf.IsValid() {
					continue
				}
				switch sf.Kind() {
				case reflect.Slice, reflect.Map, reflect.Interface:
					if sf.IsNil() {
						continue
					}
				}
				es = append(es, types.WrapHashEntry2(attrNameOf(f), px.WrapReflected(c, sf)))
			}
			attrs := seen[st.rtype()].(px.ObjectType).AttributesInfo().Attributes()
			if len(attrs) > 0 && px.IsInstance(attrs[0].Type(), types.WrapHash(es)) {
				na = true
				tags = append(tags, "ctor-ambiguous")
			}
		}); k != "" {
			tags = append(tags, "entries-fault")
		}
	})
	// struct → FromReflectedValue → px.New(type, hash of the non-nil fields)
	var w px.Value
	if k, text := safely(func() { w = px.Wrap(c, gv.Interface()) }); k != "" {
		if na {
			return res("wrap="+k, "n/a")
		}
		if cause != "" {
			return res("wrap="+k, "FAIL "+cause+" Wrap: "+text)
		}
		return res("wrap="+k, "FAIL objreg-wrap-fault Wrap: "+text)
	}
	out := encVal(w)
	inst := px.IsInstance(pt, w)
	out += " | inst=" + sx.B(inst)
	// object → ToReflectedValue → struct
	back := reflect.New(rt).Elem()
	bk, btext := safely(func() { c.Reflector().ReflectTo(w, back) })
	if bk != "" {
		out += " | back=" + bk + " eq=f"
		if na {
			return res(out, "n/a")
		}
		return res(out, "FAIL "+backFaultClass(t, gv, btext)+" ReflectTo: "+btext)
	}
	eq := reflect.DeepEqual(gv.Interface(), back.Interface())
	out += " | back=" + encGo(t, back) + " eq=" + sx.B(eq)
	if na {
		return res(out, "n/a")
	}
	if !eq {
		cl := diffClass(t, gv, back)
		walkStructs(t, gv, func(st *gty, sv reflect.Value) {
			for _, fv := range fieldVals(st, sv) {
				// a nil pointer / slice / map field is left out by FromReflectedValue, so the attribute takes its declared default
				if f := fv.f; tagItem(f.tag, "value") != "" && tagItem(f.tag, "value") != "undef" && leftOutNil(fv.v) {
					cl = "nil-ptr-takes-declared-default"
				}
			}
		})
		if cl == "" {
			cl = "roundtrip-differs"
		}
		return res(out, "FAIL "+cl+" "+encGo(t, gv)+" came back as "+encGo(t, back))
	}
	if !inst {
		cl := "type-rejects-wrapped"
		if t.kind != "struct" {
			// the container / pointer around the structs: the causes refl names (a nil slice wraps to undef, …)
			if ic := instClass(t, gv, true); ic != "" {
				cl = ic
			}
		}
		return res(out, "FAIL "+cl+" "+pt.String()+" rejects "+out)
	}
	if d := declaredInitHashBack(c, t, pt, w, gv); d != "" {
		return res(out, "FAIL "+d)
	}
	return res(out, "ok")
}

// leftOutNil: FromReflectedValue (appendAttributeValues) leaves the field out of the hash it constructs from: a nil pointer,
// slice or map, or a pointer to a nil slice or map
func leftOutNil(sf reflect.Value) bool {
	if sf.Kind() == reflect.Ptr {
		if sf.IsNil() {
			return true
		}
		sf = sf.Elem()
	}
	switch sf.Kind() {
	case reflect.Slice, reflect.Map, reflect.Interface:
		return sf.IsNil()
	}
	return false
}

func fullHash(attrs []px.Attribute, pos []px.Value) px.OrderedMap {
	es := make([]*types.HashEntry, len(attrs))
	for i, a := range attrs {
		es[i] = types.WrapHashEntry2(a.Name(), pos[i])
	}
	return types.WrapHash(es)
}

func pos0(vs []px.Value) px.Value {
	if len(vs) == 0 {
		return px.Undef
	}
	return vs[0]
}

// ---- generator ---------------------------------------------------------------------------------------------

var widths = []int{0, 8, 16, 32, 64}

func leafTypes() []*gty {
	ts := []*gty{}
	for _, w := range widths {
		ts = append(ts, &gty{kind: "int", w: w})
	}
	for _, w := range widths {
		ts = append(ts, &gty{kind: "uint", w: w})
	}
	ts = append(ts, &gty{kind: "float", w: 32}, &gty{kind: "float", w: 64}, &gty{kind: "string"}, &gty{kind: "bool"})
	return ts
}

func keyTypes() []*gty {
	ts := []*gty{{kind: "string"}, {kind: "bool"}}
	for _, w := range widths {
		ts = append(ts, &gty{kind: "int", w: w}, &gty{kind: "uint", w: w})
	}
	return ts
}

func bits(w int) uint {
	if w == 0 {
		return 64
	}
	return uint(w)
}

// boundary values of a scalar type, as terms
func boundary(t *gty) []string {
	switch t.kind {
	case "int":
		b := bits(t.w)
		min := int64(-1) << (b - 1)
		max := -(min + 1)
		return uniq([]string{"0", "1", "-1", i64(min), i64(max), i64(min + 1), i64(max - 1), "42", i64(max / 3), i64(min / 3)})
	case "uint":
		b := bits(t.w)
		max := uint64(math.MaxUint64) >> (64 - b)
		return uniq([]string{"0", "1", u64(max), u64(max - 1), u64(max/2 + 1), u64(max / 2), "42", u64(max / 3), u64(max/2 + 2)})
	case "float":
		fs := []float64{0, 1, -1, 1.5, math.Copysign(0, -1), math.Inf(1), math.Inf(-1), math.MaxFloat32, -math.MaxFloat32,
			math.SmallestNonzeroFloat32, float64(float32(0.1)), float64(float32(1e-40)), 16777216, -2.5e-3 * 0}
		if t.w == 64 {
			fs = append(fs, math.MaxFloat64, math.SmallestNonzeroFloat64, 0.1, 1e300, 9007199254740993, -123456.789)
		}
		xs := []string{}
		for _, f := range fs {
			xs = append(xs, u64(math.Float64bits(f)))
		}
		return uniq(xs)
	case "string":
		return []string{"x", "x61", "x6162", sx.Str("é").Atom, "x00", sx.Str("€").Atom, sx.Str("10").Atom, sx.Str("9").Atom, sx.Str("true").Atom}
	case "bool":
		return []string{"f", "t"}
	}
	return nil
}

func i64(i int64) string  { return strconv.FormatInt(i, 10) }
func u64(u uint64) string { return strconv.FormatUint(u, 10) }

func uniq(xs []string) []string {
	seen := map[string]bool{}
	out := []string{}
	for _, x := range xs {
		if !seen[x] {
			seen[x] = true
			out = append(out, x)
		}
	}
	return out
}

// genVal: a value term of type t.  mode: 0 zero, 1 nil wherever possible, 2 empty containers, 3 boundary-heavy, 4 random
func genVal(r *rand.Rand, t *gty, mode int, depth int) string {
	switch t.kind {
	case "int", "uint", "float", "string", "bool":
		b := boundary(t)
		switch mode {
		case 0, 1, 2:
			return b[0]
		case 3:
			return b[r.Intn(len(b))]
		}
		if r.Intn(3) == 0 {
			return b[r.Intn(len(b))]
		}
		return randScalar(r, t)
	case "iface":
		if mode <= 1 || (mode == 4 && r.Intn(5) == 0) {
			return "nil"
		}
		var dt *gty
		if richIface > 0 && r.Intn(2) == 0 {
			// inside a struct field that is itself an interface{} (kept verbatim in a Runtime value): any dynamic type
			richIface--
			defer func() { richIface++ }()
			for dt == nil || dt.kind == "iface" {
				dt = randType(r, 1+r.Intn(2), false)
			}
			m := mode
			if r.Intn(4) == 0 {
				m = 1 // typed nils
			}
			return "(i " + dt.sexp().String() + " " + genVal(r, dt, m, depth) + ")"
		}
		switch r.Intn(8) {
		case 0, 1:
			dt = &gty{kind: "int", w: 64}
		case 2:
			dt = &gty{kind: "float", w: 64}
		case 3:
			dt = &gty{kind: "string"}
		case 4:
			dt = &gty{kind: "bool"}
		default:
			ls := leafTypes()
			dt = ls[r.Intn(len(ls))]
		}
		return "(i " + dt.sexp().String() + " " + genVal(r, dt, mode, depth) + ")"
	case "slice":
		if mode == 1 || (mode >= 3 && r.Intn(6) == 0) {
			return "nil"
		}
		n := 0
		if mode >= 3 {
			n = r.Intn(4)
		}
		xs := []string{"s"}
		for i := 0; i < n; i++ {
			xs = append(xs, genVal(r, t.elem, mode, depth+1))
		}
		return "(" + strings.Join(xs, " ") + ")"
	case "array":
		xs := []string{"a"}
		for i := 0; i < t.n; i++ {
			xs = append(xs, genVal(r, t.elem, mode, depth+1))
		}
		return "(" + strings.Join(xs, " ") + ")"
	case "map":
		if mode == 1 || (mode >= 3 && r.Intn(6) == 0) {
			return "nil"
		}
		n := 0
		if mode >= 3 {
			n = r.Intn(4)
		}
		type kv struct{ k, v string }
		es := []kv{}
		seen := map[string]bool{}
		for i := 0; i < n; i++ {
			k := genVal(r, t.key, 3+r.Intn(2), depth+1)
			if seen[k] {
				continue
			}
			seen[k] = true
			es = append(es, kv{k, genVal(r, t.elem, mode, depth+1)})
		}
		// canonical order
		sort.Slice(es, func(i, j int) bool {
			return keyLess(t.key, build(t.key, sx.A(es[i].k)), build(t.key, sx.A(es[j].k)))
		})
		xs := []string{"m"}
		for _, e := range es {
			xs = append(xs, "("+e.k+" "+e.v+")")
		}
		return "(" + strings.Join(xs, " ") + ")"
	case "ptr":
		if mode == 1 || (mode >= 3 && r.Intn(4) == 0) {
			return "nil"
		}
		return "(p " + genVal(r, t.elem, mode, depth+1) + ")"
	}
	// mode 5: every field with a declared default is at that default, every other pointer is nil (the trailing
	// attributes of the instance are all at their defaults), the remaining fields are boundary-heavy
	xs := []string{"st"}
	for _, f := range t.fields {
		switch {
		case (tagItem(f.tag, "kind") == "constant" || tagItem(f.tag, "kind") == "derived") && r.Intn(4) != 0:
			// an attribute that is not part of an instance's state: mostly the Go zero value (the only one that can come back)
			xs = append(xs, genVal(r, f.t, 0, depth+1))
		case f.dflt != "" && (mode == 5 || (mode >= 3 && r.Intn(2) == 0)):
			xs = append(xs, f.dflt)
		case mode == 5 && f.t.kind == "ptr":
			xs = append(xs, "nil")
		case mode == 5:
			xs = append(xs, genVal(r, f.t, 3, depth+1))
		case f.t.kind == "iface":
			richIface = 2
			xs = append(xs, genVal(r, f.t, mode, depth+1))
			richIface = 0
		default:
			xs = append(xs, genVal(r, f.t, mode, depth+1))
		}
	}
	return "(" + strings.Join(xs, " ") + ")"
}

// richIface > 0 while the value of a struct field of type interface{} is generated: the remaining nesting budget of dynamic
// types that are not scalars
var richIface int

// dataTerms: JSON-like data for an interface{} — nil, int64, float64, string, bool, []interface{} and map[string]interface{}
// of them (nil and empty at every nesting), nested to the given depth; plus typed containers ([]string, []int, map[string]string)
func dataTerms(depth int) []string {
	leaves := []string{"nil", "(i (int 64) 1)", "(i (int 64) -2)", "(i (float 64) 4609434218613702656)", "(i string x61)", "(i string x)", "(i bool t)"}
	if depth == 0 {
		return leaves
	}
	sub := dataTerms(depth - 1)
	out := append([]string{}, leaves...)
	out = append(out, "(i (slice iface) nil)", "(i (slice iface) (s))", "(i (map string iface) nil)", "(i (map string iface) (m))",
		"(i (slice string) (s x61 x62))", "(i (slice string) nil)", "(i (slice (int 0)) (s 1 2))", "(i (slice (int 0)) nil)",
		"(i (map string string) (m (x61 x62)))", "(i (map string string) nil)", "(i (slice (int 64)) (s 1))", "(i (int 0) 7)",
		"(i (slice (uint 8)) (s 1 2))", "(i (ptr (int 64)) (p 5))", "(i (map (int 64) iface) (m (1 (i string x61))))")
	for i, a := range sub {
		out = append(out, "(i (slice iface) (s "+a+"))", "(i (map string iface) (m (x6b "+a+")))")
		b := sub[(i*7+3)%len(sub)]
		out = append(out, "(i (slice iface) (s "+a+" "+b+"))", "(i (map string iface) (m (x61 "+a+") (x62 "+b+")))")
	}
	return out
}

// tagDefault picks a default that can be declared in a tag for a field of type t: (literal, go-value term).
// Integers, floats (decimals that are exact in binary and some that are not; ±0), strings, booleans, arrays of them
// (slices and Go arrays, empty too), string-keyed hashes (maps; written in an order that is not the canonical one),
// pointers to any of these (the pointee's default, or an explicit undef).
func tagDefault(r *rand.Rand, t *gty) (lit string, term string) {
	switch t.kind {
	case "int", "uint", "float", "string", "bool":
		c := scalarDefaults(t)
		x := c[r.Intn(len(c))]
		return x[0], x[1]
	case "slice", "array":
		n := r.Intn(3)
		if t.kind == "array" {
			n = t.n
		}
		ls, ts := []string{}, []string{}
		for i := 0; i < n; i++ {
			l, tm := tagDefault(r, t.elem)
			if l == "" {
				return "", ""
			}
			ls, ts = append(ls, l), append(ts, tm)
		}
		if n == 0 {
			if _, tm := tagDefault(r, t.elem); tm == "" {
				return "", ""
			}
		}
		head := "s"
		if t.kind == "array" {
			head = "a"
		}
		return "[" + strings.Join(ls, ",") + "]", strings.TrimSpace("("+head+" "+strings.Join(ts, " ")) + ")"
	case "map":
		if t.key.kind != "string" {
			return "", ""
		}
		keys := []string{"b", "a", "c"}[:r.Intn(4)]
		ls, ts := []string{}, map[string]string{}
		for _, k := range keys {
			l, tm := tagDefault(r, t.elem)
			if l == "" {
				return "", ""
			}
			ls = append(ls, "'"+k+"'=>"+l)
			ts[k] = tm
		}
		if len(keys) == 0 {
			if _, tm := tagDefault(r, t.elem); tm == "" {
				return "", ""
			}
		}
		sort.Strings(keys)
		xs := []string{"m"}
		for _, k := range keys {
			xs = append(xs, "("+sx.Str(k).Atom+" "+ts[k]+")")
		}
		return "{" + strings.Join(ls, ",") + "}", "(" + strings.Join(xs, " ") + ")"
	case "ptr":
		if r.Intn(4) == 0 {
			return "undef", "nil"
		}
		if l, tm := tagDefault(r, t.elem); l != "" {
			return l, "(p " + tm + ")"
		}
	}
	return "", ""
}

// tagTypes: the types the generator declares (type=>) for a field of Go type t: the one pcore derives, wider and narrower
// ones, Any, and one that does not fit the Go type at all ("" = none for this shape)
func tagTypes(t *gty) []string {
	switch t.kind {
	case "int", "uint":
		return []string{"Integer", "Integer[0,10]", "Integer[-128,127]", "Integer[-5,5]", "Any", "String"}
	case "float":
		return []string{"Float", "Any", "Integer"}
	case "string":
		return []string{"String", "Any", "Boolean"}
	case "bool":
		return []string{"Boolean", "Any", "Float"}
	case "slice", "array":
		out := []string{"Any"}
		for _, e := range tagTypes(t.elem) {
			out = append(out, "Array["+e+"]")
		}
		return out
	case "map":
		out := []string{"Any"}
		if t.key.kind == "string" {
			for _, e := range tagTypes(t.elem) {
				out = append(out, "Hash[String,"+e+"]")
			}
		}
		return out
	case "ptr":
		out := []string{"Any"}
		for _, e := range tagTypes(t.elem) {
			out = append(out, "Optional["+e+"]")
		}
		if es := tagTypes(t.elem); len(es) > 0 {
			out = append(out, es[0]) // not Optional although the field can be nil
		}
		return out
	}
	return nil
}

var tagKinds = []string{"constant", "derived", "given_or_derived", "reference"}

// scalarDefaults: the defaults (literal, go-value term) the generator declares for a scalar field type
func scalarDefaults(t *gty) [][2]string {
	out := [][2]string{}
	switch t.kind {
	case "int":
		for _, x := range []string{"8", "42", "-7", "100", "-128", "0"} {
			out = append(out, [2]string{x, x})
		}
	case "uint":
		c := []string{"8", "200", "255", "0"}
		if bits(t.w) >= 16 {
			c = append(c, "8080", "65535")
		}
		for _, x := range c {
			out = append(out, [2]string{x, x})
		}
	case "float":
		c := []string{"1.5", "-0.25", "0.0", "-0.0", "1024.0", "3.0"}
		if t.w == 64 {
			c = append(c, "0.1", "-123456.789")
		}
		for _, x := range c {
			f, _ := strconv.ParseFloat(x, 64)
			out = append(out, [2]string{x, u64(math.Float64bits(f))})
		}
	case "string":
		for _, x := range []string{"none", "x1", "a b", ""} {
			out = append(out, [2]string{"'" + x + "'", sx.Str(x).Atom})
		}
	case "bool":
		out = append(out, [2]string{"true", "t"}, [2]string{"false", "f"})
	}
	return out
}

func randScalar(r *rand.Rand, t *gty) string {
	switch t.kind {
	case "int":
		b := bits(t.w)
		x := int64(r.Uint64())
		return i64(x >> (64 - b) >> uint(r.Intn(int(b))))
	case "uint":
		b := bits(t.w)
		return u64(r.Uint64() >> (64 - b) >> uint(r.Intn(int(b))))
	case "float":
		f := float64(r.Int63n(1<<24)-(1<<23)) * math.Pow(2, float64(r.Intn(80)-40))
		if t.w == 64 && r.Intn(2) == 0 {
			f = r.NormFloat64() * math.Pow(10, float64(r.Intn(40)-20))
		}
		return u64(math.Float64bits(f))
	case "string":
		n := r.Intn(4)
		rs := []rune("ab01-Z\x00é€")
		b := make([]rune, n)
		for i := range b {
			b[i] = rs[r.Intn(len(rs))]
		}
		return sx.Str(string(b)).Atom
	}
	return sx.B(r.Intn(2) == 0)
}

// randType: a random reflectable type nested to at most depth; structs only when withStruct
func randType(r *rand.Rand, depth int, withStruct bool) *gty {
	ls := leafTypes()
	if depth <= 0 || r.Intn(4) == 0 {
		if r.Intn(12) == 0 {
			return &gty{kind: "iface"}
		}
		return ls[r.Intn(len(ls))]
	}
	switch k := r.Intn(10); {
	case k < 3:
		return &gty{kind: "slice", elem: randType(r, depth-1, withStruct)}
	case k < 6:
		ks := keyTypes()
		key := ks[0]
		if r.Intn(2) == 0 {
			key = ks[r.Intn(len(ks))]
		}
		return &gty{kind: "map", key: key, elem: randType(r, depth-1, withStruct)}
	case k < 8:
		e := randType(r, depth-1, withStruct)
		if e.kind == "ptr" || e.kind == "iface" {
			e = ls[r.Intn(len(ls))]
		}
		return &gty{kind: "ptr", elem: e}
	case k < 9:
		return &gty{kind: "array", n: r.Intn(3), elem: randType(r, depth-1, withStruct)}
	default:
		if !withStruct {
			return &gty{kind: "slice", elem: randType(r, depth-1, withStruct)}
		}
		return randStruct(r, depth-1, "")
	}
}

// randStruct: a struct type with 1–3 fields named <prefix>A, <prefix>B …; sometimes the first field is an embedded struct (the
// parent: its fields are named <prefix>PA …, so attribute names stay distinct along the chain of parents) and sometimes a later
// field is an embedded struct (an ordinary attribute)
func randStruct(r *rand.Rand, depth int, prefix string) *gty {
	t := &gty{kind: "struct"}
	if depth > 0 && r.Intn(4) == 0 {
		t.fields = append(t.fields, gfield{name: "Base" + prefix, anon: true, t: randStruct(r, depth-1, prefix+"P")})
	}
	n := 1 + r.Intn(3)
	for i := 0; i < n; i++ {
		l := string(rune('A' + i))
		if depth > 0 && r.Intn(8) == 0 {
			t.fields = append(t.fields, gfield{name: "Mix" + prefix + l, anon: true, t: randStruct(r, depth-1, prefix+"M"+l)})
			continue
		}
		t.fields = append(t.fields, gfield{name: prefix + l, t: randType(r, depth, true)})
	}
	return t
}

func gen(g *core.G) {
	genEmbed(g)
	genWk(g)
	genOddTags(g)
	nraw := 0
	emit := func(t *gty, v string) {
		if t.has("struct") {
			// struct types outside the model (a bare interface{} field, name clashes, …): implementation-only test ops
			pre := "@"
			if inModel(t) {
				pre = ""
				if t.has("iface") {
					// value-dependent: what the interface{} fields hold
					if e, err := sx.Parse(v); err != nil || len(e) != 1 || !ifaceFieldsInModel(t, build(t, e[0])) {
						pre = "@"
					}
				}
			}
			g.Emit(pre + "refl " + t.sexp().String() + " " + v)
			// the three implementation-only variants below read only the tag items name / value
			plainTags := !hasTagKey(t, "type") && !hasTagKey(t, "kind")
			if t.kind == "struct" {
				if plainTags {
					g.Emit("@objreg " + t.sexp().String() + " " + v)
					if hasDeclaredParent(t) {
						g.Emit("@objregp " + t.sexp().String() + " " + v)
					}
				}
				if len(t.fields) > 0 {
					g.Emit(pre + "obj " + t.sexp().String() + " " + v)
					if externalTags(withExternalTags(t)) != nil {
						// the same struct with its puppet tags handed over beside the type (px.NewTaggedType)
						g.Emit("@objtg " + t.sexp().String() + " " + v)
					}
				} else {
					g.Emit("@obj " + t.sexp().String() + " " + v)
				}
			}
			if t.kind != "struct" && plainTags && notReflectable(t) == "" {
				// structs inside containers / behind pointers at the top through the registry-mapped path: FromReflectedValue
				// receives the POINTER when the element is one
				g.Emit("@objreg " + t.sexp().String() + " " + v)
				if hasDeclaredParent(t) {
					g.Emit("@objregp " + t.sexp().String() + " " + v)
				}
			}
			if nraw++; nraw%10 == 0 && plainTags {
				g.Emit("@reflraw " + t.sexp().String() + " " + v)
			}
			if nraw%4 == 1 && plainTags {
				g.Emit("@reflanon " + t.sexp().String() + " " + v)
			}
			return
		}
		g.Emit("refl " + t.sexp().String() + " " + v)
	}
	seen := map[string]bool{}
	emitVals := func(t *gty, n int) {
		ts := t.sexp().String()
		for mode := 0; mode <= 2; mode++ {
			v := genVal(g.Rng, t, mode, 0)
			if !seen[ts+v] {
				seen[ts+v] = true
				emit(t, v)
			}
		}
		for i := 0; i < n; i++ {
			v := genVal(g.Rng, t, 3+i%2, 0)
			if !seen[ts+v] {
				seen[ts+v] = true
				emit(t, v)
			}
		}
		hasDflt := false
		for _, f := range t.fields {
			hasDflt = hasDflt || f.dflt != ""
		}
		if hasDflt {
			for i := 0; i < 3; i++ {
				v := genVal(g.Rng, t, 5, 0)
				if !seen[ts+v] {
					seen[ts+v] = true
					emit(t, v)
				}
			}
		}
	}
	// 1. exhaustive small universe: every scalar type × every boundary value; every one-constructor type over
	//    every scalar type × {nil, empty, every boundary value as the single element}
	for _, t := range leafTypes() {
		for _, v := range boundary(t) {
			emit(t, v)
		}
	}
	for _, e := range leafTypes() {
		sl, pt, ar := &gty{kind: "slice", elem: e}, &gty{kind: "ptr", elem: e}, &gty{kind: "array", n: 1, elem: e}
		emit(sl, "nil")
		emit(sl, "(s)")
		emit(pt, "nil")
		emit(&gty{kind: "array", n: 0, elem: e}, "(a)")
		for _, v := range boundary(e) {
			emit(sl, "(s "+v+")")
			emit(pt, "(p "+v+")")
			emit(ar, "(a "+v+")")
			emit(&gty{kind: "iface"}, "(i "+e.sexp().String()+" "+v+")")
		}
		for _, k := range keyTypes() {
			mt := &gty{kind: "map", key: k, elem: e}
			emit(mt, "nil")
			emit(mt, "(m)")
			kb := boundary(k)
			eb := boundary(e)
			// all boundary keys in one map (canonical order), values cycling through the element's boundary values
			emitVals(mt, 0)
			xs := []string{}
			for i, kv := range kb {
				xs = append(xs, "("+kv+" "+eb[i%len(eb)]+")")
			}
			sort.Slice(xs, func(i, j int) bool {
				a, _ := sx.Parse(xs[i])
				b, _ := sx.Parse(xs[j])
				return keyLess(k, build(k, a[0].List[0]), build(k, b[0].List[0]))
			})
			emit(mt, "(m "+strings.Join(xs, " ")+")")
		}
	}
	// structs: for every scalar type e and every boundary value v of it — S = struct{A e} alone, nested (by value, by pointer,
	// nil pointer), in a slice / array / map (nil, empty, one element), behind a pointer, as the embedded parent and as an
	// embedded field that is not the parent; the pointer variant *e of the field with nil
	for _, e := range leafTypes() {
		S := &gty{kind: "struct", fields: []gfield{{name: "A", t: e}}}
		P := &gty{kind: "struct", fields: []gfield{{name: "PA", t: e}}}
		pS := &gty{kind: "ptr", elem: S}
		outer := func(ft *gty) *gty { return &gty{kind: "struct", fields: []gfield{{name: "X", t: ft}}} }
		slS, slpS := &gty{kind: "slice", elem: S}, &gty{kind: "slice", elem: pS}
		mS := &gty{kind: "map", key: &gty{kind: "string"}, elem: S}
		child := &gty{kind: "struct", fields: []gfield{{name: "Base", anon: true, t: P}, {name: "A", t: e}}}
		mix := &gty{kind: "struct", fields: []gfield{{name: "A", t: e}, {name: "Mix", anon: true, t: P}}}
		emit(outer(pS), "(st nil)")
		emit(pS, "nil")
		emit(slS, "nil")
		emit(slS, "(s)")
		emit(mS, "nil")
		emit(mS, "(m)")
		emit(outer(&gty{kind: "ptr", elem: e}), "(st nil)")
		emit(outer(slS), "(st nil)")
		for _, v := range boundary(e) {
			sv := "(st " + v + ")"
			emit(S, sv)
			emit(outer(S), "(st "+sv+")")
			emit(outer(pS), "(st (p "+sv+"))")
			emit(pS, "(p "+sv+")")
			emit(slS, "(s "+sv+")")
			emit(slpS, "(s (p "+sv+") nil)")
			emit(&gty{kind: "array", n: 1, elem: S}, "(a "+sv+")")
			emit(mS, "(m (x6b "+sv+"))")
			emit(outer(slS), "(st (s "+sv+"))")
			emit(outer(mS), "(st (m (x6b "+sv+")))")
			emit(child, "(st "+sv+" "+v+")")
			emit(mix, "(st "+v+" "+sv+")")
			emit(outer(&gty{kind: "ptr", elem: e}), "(st (p "+v+"))")
		}
	}
	emit(&gty{kind: "struct"}, "(st)")
	// declared defaults: for every scalar type e and every default d the generator knows for it —
	// struct{A e "value=>d"; B *e "value=>d"; C []e "value=>[d]"; D map[string]e "value=>{'k'=>d}"} with every field at its
	// default, at the Go zero value / nil, and at another value
	for _, e := range leafTypes() {
		zero := genVal(g.Rng, e, 0, 0)
		other := boundary(e)[len(boundary(e))-1]
		for _, d := range scalarDefaults(e) {
			tg := func(l string) string { return "puppet:\"value=>" + l + "\"" }
			S := &gty{kind: "struct", fields: []gfield{
				{name: "A", t: e, tag: tg(d[0])},
				{name: "B", t: &gty{kind: "ptr", elem: e}, tag: tg(d[0])},
				{name: "C", t: &gty{kind: "slice", elem: e}, tag: tg("[" + d[0] + "]")},
				{name: "D", t: &gty{kind: "map", key: &gty{kind: "string"}, elem: e}, tag: tg("{'k'=>" + d[0] + "}")}}}
			emit(S, "(st "+d[1]+" (p "+d[1]+") (s "+d[1]+") (m (x6b "+d[1]+")))")
			emit(S, "(st "+zero+" nil (s) (m))")
			emit(S, "(st "+other+" (p "+other+") (s "+other+" "+d[1]+") (m (x6a "+d[1]+") (x6b "+other+")))")
			emit(S, "(st "+d[1]+" (p "+zero+") (s "+zero+") (m (x6b "+zero+")))")
		}
		U := &gty{kind: "struct", fields: []gfield{{name: "A", t: &gty{kind: "ptr", elem: e}, tag: "puppet:\"value=>undef\""}, {name: "B", t: e}}}
		emit(U, "(st nil "+zero+")")
		emit(U, "(st (p "+other+") "+other+")")
		// declared types and kinds: struct{A e "type=>T"; B *e "type=>T'"} for every type the generator knows for e;
		// struct{A e "kind=>K[, value=>d]"; B string; C *e "kind=>K"} for every kind — at the zero value and at another value
		pe := &gty{kind: "ptr", elem: e}
		d0 := scalarDefaults(e)[0]
		for ti, T := range tagTypes(e) {
			pts := tagTypes(pe)
			S := &gty{kind: "struct", fields: []gfield{{name: "A", t: e, tag: "puppet:\"type=>" + T + "\""},
				{name: "B", t: pe, tag: "puppet:\"type=>" + pts[ti%len(pts)] + "\""}}}
			emit(S, "(st "+zero+" nil)")
			emit(S, "(st "+other+" (p "+other+"))")
			emit(S, "(st "+d0[1]+" (p "+zero+"))")
		}
		for _, K := range tagKinds {
			vt := ""
			if K == "constant" || K == "reference" {
				vt = ", value=>" + d0[0]
			}
			S := &gty{kind: "struct", fields: []gfield{{name: "A", t: e, tag: "puppet:\"kind=>" + K + vt + "\""}, {name: "B", t: &gty{kind: "string"}}}}
			emit(S, "(st "+zero+" x61)")
			emit(S, "(st "+other+" x)")
			emit(S, "(st "+d0[1]+" x6162)")
			P := &gty{kind: "struct", fields: []gfield{{name: "B", t: &gty{kind: "string"}}, {name: "C", t: pe, tag: "puppet:\"kind=>" + K + "\""}}}
			emit(P, "(st x61 nil)")
			emit(P, "(st x (p "+other+"))")
			if K == "constant" || K == "derived" {
				// a constant / derived attribute in the embedded parent
				emit(&gty{kind: "struct", fields: []gfield{{name: "Base", anon: true, t: &gty{kind: "struct", fields: []gfield{{name: "PA", t: e, tag: "puppet:\"kind=>" + K + vt + "\""}, {name: "PB", t: e}}}}, {name: "B", t: &gty{kind: "string"}}}},
					"(st (st "+zero+" "+other+") x61)")
			}
		}
	}
	// tags that are inconsistent in themselves (derivation errors), one of each
	{
		i8, str := &gty{kind: "int", w: 8}, &gty{kind: "string"}
		one := func(ft *gty, tag string, v string) {
			emit(&gty{kind: "struct", fields: []gfield{{name: "A", t: ft, tag: "puppet:\"" + tag + "\""}, {name: "B", t: str}}}, "(st "+v+" x61)")
		}
		one(i8, "value=>undef", "0")
		one(i8, "value=>'x'", "0")
		one(i8, "value=>300", "0")
		one(str, "type=>Optional[String]", "x")
		one(i8, "kind=>constant", "0")
		one(i8, "kind=>derived, value=>3", "0")
		one(i8, "kind=>given_or_derived, value=>3", "0")
		one(i8, "type=>Integer[0,10], value=>11", "0")
		one(i8, "type=>Integer[0,10], value=>10", "11")
		one(&gty{kind: "float", w: 64}, "value=>1", "0")
		// two errors in one struct: the first field in order that has one wins; ImpossibleOptional comes before all others
		emit(&gty{kind: "struct", fields: []gfield{{name: "A", t: i8, tag: `puppet:"kind=>constant"`}, {name: "B", t: i8, tag: `puppet:"value=>undef"`}}}, "(st 0 0)")
		emit(&gty{kind: "struct", fields: []gfield{{name: "A", t: i8, tag: `puppet:"value=>'x'"`}, {name: "B", t: i8, tag: `puppet:"kind=>constant"`}}}, "(st 0 0)")
		// a clash by tag name with an attribute of the embedded parent (also with a constant one: final)
		base := &gty{kind: "struct", fields: []gfield{{name: "PA", t: i8}, {name: "PC", t: i8, tag: `puppet:"kind=>constant, value=>5"`}}}
		emit(&gty{kind: "struct", fields: []gfield{{name: "Base", anon: true, t: base}, {name: "B", t: str, tag: `puppet:"name=>'pA'"`}}}, "(st (st 5 0) x61)")
		emit(&gty{kind: "struct", fields: []gfield{{name: "Base", anon: true, t: base}, {name: "B", t: str, tag: `puppet:"name=>'pC'"`}}}, "(st (st 5 0) x61)")
		emit(&gty{kind: "struct", fields: []gfield{{name: "Base", anon: true, t: base}, {name: "B", t: i8, tag: `puppet:"name=>'pC', kind=>constant, value=>1"`}}}, "(st (st 5 0) 0)")
	}
	// embedding outside the model (implementation only): a field that shadows a field of the embedded parent; an embedded
	// pointer to a struct in the first position
	{
		i8, str := &gty{kind: "int", w: 8}, &gty{kind: "string"}
		base := &gty{kind: "struct", fields: []gfield{{name: "A", t: i8}}}
		emit(&gty{kind: "struct", fields: []gfield{{name: "Base", anon: true, t: base}, {name: "A", t: str}}}, "(st (st 5) x61)")
		emit(&gty{kind: "struct", fields: []gfield{{name: "Base", anon: true, t: base}, {name: "B", t: str, tag: `puppet:"name=>'a'"`}}}, "(st (st 5) x61)")
		pbase := &gty{kind: "ptr", elem: &gty{kind: "struct", fields: []gfield{{name: "PA", t: i8}}}}
		emit(&gty{kind: "struct", fields: []gfield{{name: "Base", anon: true, t: pbase}, {name: "B", t: str}}}, "(st (p (st 5)) x61)")
		emit(&gty{kind: "struct", fields: []gfield{{name: "Base", anon: true, t: pbase}, {name: "B", t: str}}}, "(st nil x61)")
	}
	// a struct field that is itself an interface{} (a Runtime value): every scalar type and boundary value, containers, typed nils
	{
		S := &gty{kind: "struct", fields: []gfield{{name: "A", t: &gty{kind: "iface"}}, {name: "B", t: &gty{kind: "string"}}}}
		emit(S, "(st nil x)")
		for _, e := range leafTypes() {
			es := e.sexp().String()
			emit(S, "(st (i (slice "+es+") nil) x)")
			emit(S, "(st (i (ptr "+es+") nil) x61)")
			emit(S, "(st (i (map string "+es+") nil) x61)")
			for _, v := range boundary(e) {
				emit(S, "(st (i "+es+" "+v+") x)")
				emit(S, "(st (i (slice "+es+") (s "+v+")) x)")
				emit(S, "(st (i (ptr "+es+") (p "+v+")) x61)")
				emit(S, "(st (i (map string "+es+") (m (x6b "+v+"))) x61)")
				emit(S, "(st (i (slice iface) (s (i "+es+" "+v+") nil)) x)")
				emit(S, "(st (i (map string iface) (m (x6b (i "+es+" "+v+")))) x)")
			}
		}
		for _, d := range dataTerms(1) {
			emit(S, "(st "+d+" x)")
		}
	}
	// interface{} holding containers through wrap's type switch (implementation only: the Go type that comes back is inferred
	// from the pcore value's type): JSON-like data at the top, in a []interface{} and in a map[string]interface{}
	for _, d := range dataTerms(2) {
		g.Emit("@refl iface " + d)
	}
	for _, d := range dataTerms(1) {
		g.Emit("@refl (slice iface) (s " + d + " (i bool f))")
		g.Emit("@refl (map string iface) (m (x6b " + d + "))")
	}
	// an interface{} holding a struct whose type is registered (implementation only): it wraps to an object and the object
	// reflects back into the interface{} as the struct / the pointer it holds
	g.Emit("@refl (slice iface) (s (i (struct (A (int 8))) (st 5)) nil (i (ptr (struct (A (int 8)))) (p (st -1))))")
	g.Emit("@refl iface (i (struct (A string) (B (slice (uint 8)))) (st x61 (s 1)))")
	g.Emit("@refl iface (i (ptr (struct (A string))) (p (st x61)))")
	g.Emit("@refl (map string iface) (m (x6b (i (struct (A bool)) (st t))))")
	g.Emit("@refl (struct (A iface) (B (struct (X bool)))) (st (i (struct (X bool)) (st t)) (st f))")
	g.Emit("@obj (struct (A iface) (B (struct (X bool)))) (st (i (ptr (struct (X bool))) (p (st t))) (st f))")
	genIfaceStructs(g)
	genDeclaredParents(g)
	genUndefDefaults(g)
	genTaggedEmbedded(g)
	genMappedInIface(g)
	// tags of other kinds beside the puppet tag (they become a TagsAnnotation of the attribute; implementation only)
	g.Emit(`@obj (struct (A (int 8) ` + sx.Str(`json:"a" puppet:"name=>'x'"`).Atom + `) (B string ` + sx.Str(`json:"bb,omitempty" yaml:"b"`).Atom + `)) (st 3 x61)`)
	g.Emit(`@refl (struct (A (ptr string) ` + sx.Str(`lyra:"ignore" puppet:"value=>'d'"`).Atom + `)) (st nil)`)
	g.Emit(`@obj (struct (emb Base (struct (PA bool ` + sx.Str(`json:"pa"`).Atom + `))) (B (float 64) ` + sx.Str(`json:"-"`).Atom + `)) (st (st t) 0)`)
	emit(&gty{kind: "iface"}, "nil")
	emit(&gty{kind: "slice", elem: &gty{kind: "iface"}}, "(s (i (int 0) 1) (i string x61) nil)")
	emit(&gty{kind: "map", key: &gty{kind: "string"}, elem: &gty{kind: "iface"}}, "(m (x61 nil) (x62 (i (int 64) 1)))")
	// 2. random structured types nested to depth 3 (4 in the thorough tier), ~20 values each
	nTypes := 300
	depth := 3
	if g.Thorough() {
		nTypes = 10000
		depth = 4
	}
	for i := 0; i < nTypes; i++ {
		t := randType(g.Rng, 1+g.Rng.Intn(depth), i%5 == 4)
		emitVals(t, 17)
	}
	// 3. structs at the top (tagged names on some fields, nested structs, pointers to structs): implementation-only
	for i := 0; i < nTypes/5; i++ {
		t := &gty{kind: "struct"}
		n := 1 + g.Rng.Intn(4)
		if i%3 == 2 {
			// every third struct has an embedded parent (which may have one itself)
			t.fields = append(t.fields, gfield{name: "Base", anon: true, t: randStruct(g.Rng, g.Rng.Intn(2), "P")})
		}
		for j := 0; j < n; j++ {
			f := gfield{name: string(rune('A' + j)), t: randType(g.Rng, g.Rng.Intn(depth), j == 1)}
			if i%2 == 1 && g.Rng.Intn(2) == 0 {
				// every other struct: fields whose type can carry a declared default
				ls := []*gty{{kind: "int", w: widths[g.Rng.Intn(5)]}, {kind: "uint", w: widths[g.Rng.Intn(5)]}, {kind: "string"}, {kind: "bool"},
					{kind: "float", w: 32 + 32*g.Rng.Intn(2)}}
				f.t = ls[g.Rng.Intn(len(ls))]
				switch g.Rng.Intn(8) {
				case 0:
					f.t = &gty{kind: "slice", elem: f.t}
				case 1:
					f.t = &gty{kind: "map", key: &gty{kind: "string"}, elem: f.t}
				case 2:
					f.t = &gty{kind: "array", n: 1 + g.Rng.Intn(2), elem: f.t}
				case 3:
					f.t = &gty{kind: "slice", elem: &gty{kind: "slice", elem: f.t}}
				}
				if g.Rng.Intn(3) == 0 {
					f.t = &gty{kind: "ptr", elem: f.t}
				}
			}
			parts := []string{}
			if g.Rng.Intn(4) == 0 {
				parts = append(parts, "name=>'f_"+strings.ToLower(f.name)+"'")
			}
			if i%2 == 1 && g.Rng.Intn(2) == 0 {
				if lit, term := tagDefault(g.Rng, f.t); lit != "" {
					parts = append(parts, "value=>"+lit)
					f.dflt = term
				}
			}
			if i%4 == 3 && g.Rng.Intn(3) == 0 {
				if ts := tagTypes(f.t); len(ts) > 0 {
					parts = append(parts, "type=>"+ts[g.Rng.Intn(len(ts))])
				}
			}
			if i%4 == 3 && g.Rng.Intn(4) == 0 {
				parts = append(parts, "kind=>"+tagKinds[g.Rng.Intn(len(tagKinds))])
			}
			if len(parts) > 0 {
				f.tag = "puppet:\"" + strings.Join(parts, ", ") + "\""
			}
			t.fields = append(t.fields, f)
		}
		emitVals(t, 7)
	}
}
