package c18

import (
	"fmt"
	"reflect"
	"sync/atomic"

	"verif/harness/core"
	"verif/harness/sx"

	"github.com/lyraproj/pcore/px"
	"github.com/lyraproj/semver/semver"
)

// Implementation-only op `@embed VARIANT N K`: structs that EMBED other structs (reflect.StructOf cannot build these, so the
// types are compiled in).  An embedded struct in the first position is the parent type; an embedded struct anywhere else is an
// attribute like any other field.
//
//	VARIANT  plain   struct{ Name string; EmbMix }               no parent, one embedded struct that is not first
//	         derived struct{ EmbBase; Tag string; EmbMix }       parent first, another embedded struct later
//	         two     struct{ EmbBase; EmbMix }                   two embedded structs: the first is the parent
//	         deep    struct{ EmbDerivedT; Extra int; EmbMix2 }   a parent that has a parent, another embedded struct
//	N, K     small integers that fill the fields (K = 0: the embedded slice is nil, K > 0: K strings)
//
// Checked: every field of the struct that is not the parent has an attribute (own attributes counted), the wrapped struct
// shows the embedded value, and struct → object → InitHash → px.New (named) → ReflectTo gives back an equal struct.
// Classes: embed-attribute-missing, embed-roundtrip, fault.
type EmbMix struct {
	N int
	L []string
}
type EmbMix2 struct{ M string }
type EmbBase struct{ ID int }
type EmbPlainT struct {
	Name string
	EmbMix
}
type EmbDerivedT struct {
	EmbBase
	Tag string
	EmbMix
}
type EmbTwoT struct {
	EmbBase
	EmbMix
}
type EmbDeepT struct {
	EmbDerivedT
	Extra int
	EmbMix2
}

var embCounter int64

func execEmbed(c px.Context, args []sx.Sexp) core.Result { return execEmbed2(c, args, false) }

// execEmbed2, viaTypeSet: op `@embedts` — the chain of struct types is registered in one call with
// Reflector.TypeSetFromReflect (parents found by ParentType: the embedded struct in the first position, referred to by name
// inside the type set) and px.AddTypes of the type set; everything else as `@embed`
func execEmbed2(c px.Context, args []sx.Sexp, viaTypeSet bool) core.Result {
	if len(args) != 3 || args[0].IsList {
		return core.Result{Out: "bad-op", Pred: "n/a"}
	}
	n, err1 := args[1].AsInt()
	k, err2 := args[2].AsInt()
	if err1 != nil || err2 != nil || k < 0 || k > 4 {
		return core.Result{Out: "bad-op", Pred: "n/a"}
	}
	var l []string
	for i := int64(0); i < k; i++ {
		l = append(l, fmt.Sprintf("s%d", i))
	}
	mix := EmbMix{N: int(n), L: l}
	var v interface{}
	var own int // attributes the struct itself must contribute
	var chain []reflect.Type
	switch args[0].Atom {
	case "plain":
		v, own = EmbPlainT{Name: "p", EmbMix: mix}, 2
		chain = []reflect.Type{reflect.TypeOf(EmbMix{}), reflect.TypeOf(EmbPlainT{})}
	case "derived":
		v, own = EmbDerivedT{EmbBase: EmbBase{ID: int(n) + 1}, Tag: "t", EmbMix: mix}, 2
		chain = []reflect.Type{reflect.TypeOf(EmbMix{}), reflect.TypeOf(EmbBase{}), reflect.TypeOf(EmbDerivedT{})}
	case "two":
		v, own = EmbTwoT{EmbBase: EmbBase{ID: int(n) + 1}, EmbMix: mix}, 1
		chain = []reflect.Type{reflect.TypeOf(EmbMix{}), reflect.TypeOf(EmbBase{}), reflect.TypeOf(EmbTwoT{})}
	case "deep":
		v, own = EmbDeepT{EmbDerivedT: EmbDerivedT{EmbBase: EmbBase{ID: 7}, Tag: "d", EmbMix: mix}, Extra: int(n), EmbMix2: EmbMix2{M: "m"}}, 2
		chain = []reflect.Type{reflect.TypeOf(EmbMix{}), reflect.TypeOf(EmbMix2{}), reflect.TypeOf(EmbBase{}), reflect.TypeOf(EmbDerivedT{}), reflect.TypeOf(EmbDeepT{})}
	default:
		return core.Result{Out: "bad-op", Pred: "n/a"}
	}
	id := atomic.AddInt64(&embCounter, 1)
	out, pred := "ok", "ok"
	fail := func(class, format string, xs ...interface{}) {
		if pred == "ok" {
			pred = "FAIL " + class + " " + oneLine(fmt.Sprintf(format, xs...))
		}
	}
	kind, text := safely(func() {
		px.DoWithContext(c.Fork(), func(fc px.Context) {
			byType := map[reflect.Type]px.ObjectType{}
			if viaTypeSet {
				ptrs := make([]reflect.Type, len(chain))
				for i, rt := range chain {
					ptrs[i] = reflect.PtrTo(rt)
				}
				ts := fc.Reflector().TypeSetFromReflect(fmt.Sprintf("E%d", id), semver.MustParseVersion("1.0.0"), nil, ptrs...)
				px.AddTypes(fc, ts)
				for _, rt := range chain {
					ot, ok := fc.ParseType(fmt.Sprintf("E%d::%s", id, rt.Name())).(px.ObjectType)
					if !ok {
						panic(fmt.Errorf("the type set has no object type for %s", rt.Name()))
					}
					byType[rt] = ot
				}
				chain = nil
			}
			for _, rt := range chain {
				var parent px.Type
				if rt.NumField() > 0 && rt.Field(0).Anonymous {
					parent = byType[rt.Field(0).Type]
				}
				ot := fc.Reflector().TypeFromReflect(fmt.Sprintf("E%d::%s", id, rt.Name()), parent, rt)
				px.AddTypes(fc, ot)
				byType[rt] = ot
			}
			rt := reflect.TypeOf(v)
			ot := byType[rt]
			if wt, ok := px.Wrap(fc, v).PType().(px.ObjectType); !ok || !wt.Equals(ot, nil) {
				fail("embed-roundtrip", "%#v wraps to an instance of %s, not of the type registered for it", v, px.Wrap(fc, v).PType())
			}
			mine := 0
			for _, a := range ot.AttributesInfo().Attributes() {
				if a.Container() == ot {
					mine++
				}
			}
			if mine != own {
				fail("embed-attribute-missing", "the type derived from %s contributes %d attributes, its fields other than the parent are %d", rt.Name(), mine, own)
			}
			wrapped := px.Wrap(fc, v).(px.PuppetObject)
			ih := wrapped.InitHash()
			o2 := px.New(fc, ot, ih)
			back := reflect.New(rt).Elem()
			fc.Reflector().ReflectTo(o2, back)
			if !reflect.DeepEqual(v, back.Interface()) {
				fail("embed-roundtrip", "%#v through init hash %s came back as %#v", v, ih, back.Interface())
			}
		})
	})
	if kind != "" {
		out = kind
		fail("fault", "%s", text)
	}
	return core.Result{Out: out, Pred: pred, NonTrivial: true, Tags: []string{"k:embed", "embed:" + args[0].Atom}}
}

func genEmbed(g *core.G) {
	for _, v := range []string{"plain", "derived", "two", "deep"} {
		for _, n := range []int{0, 4} {
			for _, k := range []int{0, 2} {
				g.Emit(fmt.Sprintf("@embed %s %d %d", v, n, k))
				g.Emit(fmt.Sprintf("@embedts %s %d %d", v, n, k))
			}
		}
	}
}
