package c18

import (
	"fmt"
	"math"
	"reflect"
	"regexp"
	"strconv"
	"strings"
	"time"

	"verif/harness/core"
	"verif/harness/sx"

	"github.com/lyraproj/pcore/px"
	"github.com/lyraproj/pcore/types"
)

// Additions of the mutation-sweep round (notes/C18-mutation-sweep.md): generator shapes and predicates that close the
// survivors / coverage gaps of the operator-mutation sweep.  Everything here is implementation-only (no model side).

// declaredParent: the struct type of the embedded FIRST field (the parent in every reading of the reflector), nil when none
func declaredParent(t *gty) *gty {
	if t != nil && t.kind == "struct" && len(t.fields) > 0 && t.fields[0].anon {
		if ft := t.fields[0].t; ft.kind == "struct" {
			return ft
		} else if ft.kind == "ptr" && ft.elem.kind == "struct" {
			// an embedded POINTER to a struct: appendAttributeValues dereferences it, ToReflectedValue allocates it
			return ft.elem
		}
	}
	return nil
}

// declaredFieldVals: the fields of a struct value that a type declared with parents (@objregp) has attributes for — those of
// the embedded first field (a struct, or a non-nil pointer to one) first, then the own
func declaredFieldVals(t *gty, v reflect.Value) []fieldVal {
	out := []fieldVal{}
	for i, f := range t.fields {
		if i == 0 && declaredParent(t) != nil {
			pv := v.Field(0)
			if pv.Kind() == reflect.Ptr {
				if pv.IsNil() {
					continue
				}
				pv = pv.Elem()
			}
			out = append(out, declaredFieldVals(declaredParent(t), pv)...)
			continue
		}
		out = append(out, fieldVal{f, v.Field(i)})
	}
	return out
}

// hasDeclaredParent: some struct type inside t has an embedded first field that is a struct
func hasDeclaredParent(t *gty) bool {
	if t == nil {
		return false
	}
	if declaredParent(t) != nil {
		return true
	}
	for _, f := range t.fields {
		if hasDeclaredParent(f.t) {
			return true
		}
	}
	return hasDeclaredParent(t.key) || hasDeclaredParent(t.elem)
}

// otherWaysBack: the ways from a value to a Go value of a GIVEN type other than Reflector.ReflectTo must give what ReflectTo
// gave (back): Reflector.Reflect2(value, type) — the entry point Hash.ReflectTo uses for keys and values — and the value's
// own px.Reflected.ReflectTo (the public interface behind the reflector; an interface{} destination reaches the
// `case reflect.Interface` arms of the scalar values there).  "" = they agree; otherwise class + detail.
func otherWaysBack(c px.Context, t *gty, wrapped px.Value, back reflect.Value) string {
	rt := t.rtype()
	// a nil context stands for the current one (px.CurrentContext(), which is c here): the same derived type
	if pt, err := px.WrapReflectedType(c, rt); err == nil {
		var pn px.Type
		if k, text := safely(func() {
			if pn, err = px.WrapReflectedType(nil, rt); err != nil {
				panic(err)
			}
		}); k != "" {
			return "nil-context-differs WrapReflectedType with a nil context faults: " + text
		}
		if !pn.Equals(pt, nil) {
			return "nil-context-differs WrapReflectedType with a nil context gives " + pn.String() + ", with the current one " + pt.String()
		}
	}
	var b2 reflect.Value
	if k, text := safely(func() { b2 = c.Reflector().Reflect2(wrapped, rt) }); k != "" {
		return "reflect2-fault Reflect2 faults where ReflectTo answers: " + text
	}
	if rt.Kind() == reflect.Interface {
		// asked for an interface{}, Reflect2 answers the dynamic value itself (and the invalid Value for undef: the nil interface{})
		x := reflect.New(rt).Elem()
		if b2.IsValid() {
			x.Set(b2)
		}
		b2 = x
	}
	if !b2.IsValid() || b2.Type() != rt {
		return "reflect2-differs Reflect2 did not answer a value of the type asked for (" + rt.String() + ")"
	}
	if !reflect.DeepEqual(b2.Interface(), back.Interface()) {
		return "reflect2-differs Reflect2 gives " + encGo(t, b2) + ", ReflectTo gave " + encGo(t, back)
	}
	if rv, ok := wrapped.(px.Reflected); ok {
		b3 := reflect.New(rt).Elem()
		if k, text := safely(func() { rv.ReflectTo(c, b3) }); k != "" {
			if rt.Kind() == reflect.Interface {
				// only the scalar values and Hash have an arm for an interface{} destination; Array.ReflectTo (reflect.MakeSlice of
				// non-slice type) and Binary.ReflectTo (Elem of invalid type) have none, and the reflector never passes them one
				// (it calls their Reflect).  Not an entry point of the bridge: noted in notes/C18-mutation-sweep.md, not a finding
				switch wrapped.(type) {
				case px.Integer, px.Float, px.StringValue, px.Boolean, *types.Hash:
				default:
					return ""
				}
			}
			return "direct-reflectto-fault Reflected.ReflectTo faults where the reflector answers: " + text
		}
		if !reflect.DeepEqual(b3.Interface(), back.Interface()) {
			return "direct-reflectto-differs Reflected.ReflectTo gives " + encGo(t, b3) + ", the reflector gave " + encGo(t, back)
		}
	}
	return ""
}

// ptrDestBack: an instance constructed by the derived object type converts back into a POINTER to the struct as well (the
// destination of a field / element of type *S): a fresh non-nil pointer to a struct equal to what the struct destination got
func ptrDestBack(c px.Context, t *gty, o px.Value, back reflect.Value) string {
	pb := reflect.New(reflect.PtrTo(t.rtype())).Elem()
	if k, text := safely(func() { c.Reflector().ReflectTo(o, pb) }); k != "" {
		return "obj-ptr-dest-fault ReflectTo into a pointer to the struct: " + text
	}
	if pb.IsNil() {
		return "obj-ptr-dest-differs ReflectTo into a pointer to the struct left it nil"
	}
	if !reflect.DeepEqual(pb.Elem().Interface(), back.Interface()) {
		return "obj-ptr-dest-differs the pointer destination got " + encGo(t, pb.Elem()) + ", the struct destination " + encGo(t, back)
	}
	return ""
}

// ---- @wk: fields of the Go types the bridge knows by name (types/zinit.go wellKnown) ----------------------------------
//
// Implementation-only op `@wk FIELD N`: struct{ FIELD T } for one of the well-known field types — px.Value, px.Integer,
// px.StringValue, px.List, px.OrderedMap, px.Type (the value itself is the field: Reflector.ReflectTo / Reflect2 assign it when
// it is assignable to the destination), time.Duration ↔ Timespan, time.Time ↔ Timestamp, *regexp.Regexp ↔ Regexp — or `all`
// (every field in one struct).  N selects the value (0: the zero value for Duration / Time, the first sample otherwise).
// Only NON-nil values: a nil interface / pointer there is outside the shapes the property lists (and the attribute type
// derived for it is not Optional: the nil-…-undef-rejected family).  Checked: the struct wraps, the derived type accepts it,
// ReflectTo and Reflect2 give back a deeply equal struct, and so does an instance constructed from the init hash (into the
// struct and into a pointer to it).  Classes: wk-fault, wk-type-rejects, wk-roundtrip, wk-new-roundtrip (+ those of otherWaysBack).
type wkAll struct {
	V  px.Value
	I  px.Integer
	S  px.StringValue
	L  px.List
	M  px.OrderedMap
	T  px.Type
	D  time.Duration
	TS time.Time
	R  *regexp.Regexp
}

var wkNames = []string{"V", "I", "S", "L", "M", "T", "D", "TS", "R"}

const wkVariants = 4

func wkSample(name string, n int) interface{} {
	ints := []int64{0, -1, math.MaxInt64, math.MinInt64}
	strs := []string{"", "x", "héllo", "a b"}
	switch name {
	case "V":
		return []px.Value{types.WrapInteger(ints[n]), types.WrapString(strs[n]), types.WrapBoolean(n%2 == 0), types.WrapFloat(float64(n) / 2)}[n]
	case "I":
		return types.WrapInteger(ints[n]).(px.Integer)
	case "S":
		return types.WrapString(strs[n]).(px.StringValue)
	case "L":
		els := []px.Value{}
		for i := 0; i < n; i++ {
			els = append(els, types.WrapInteger(ints[i]))
		}
		return px.List(types.WrapValues(els))
	case "M":
		m := map[string]px.Value{}
		for i := 0; i < n; i++ {
			m[strs[i]] = types.WrapInteger(ints[i])
		}
		return px.OrderedMap(types.WrapStringToValueMap(m))
	case "T":
		return []px.Type{types.DefaultIntegerType(), types.DefaultStringType(), types.NewIntegerType(0, 255), types.NewArrayType(types.DefaultStringType(), nil)}[n]
	case "D":
		return []time.Duration{0, 1, -time.Hour, time.Duration(math.MaxInt64)}[n]
	case "TS":
		return []time.Time{{}, time.Unix(0, 0).UTC(), time.Unix(1569700000, 5).UTC(), time.Unix(-1, 999999999).UTC()}[n]
	case "R":
		return []*regexp.Regexp{regexp.MustCompile(``), regexp.MustCompile(`a+`), regexp.MustCompile(`^[a-z]\d*$`), regexp.MustCompile(`(x|y)z`)}[n]
	}
	return nil
}

func execWk(c px.Context, args []sx.Sexp) core.Result {
	bad := core.Result{Out: "bad-op", Pred: "n/a"}
	if len(args) != 2 || args[0].IsList {
		return bad
	}
	n64, err := args[1].AsInt()
	if err != nil || n64 < 0 || n64 >= wkVariants {
		return bad
	}
	n := int(n64)
	name := args[0].Atom
	all := reflect.TypeOf(wkAll{})
	var rt reflect.Type
	var v reflect.Value
	if name == "all" {
		rt = all
		v = reflect.New(rt).Elem()
		for i, fn := range wkNames {
			v.Field(i).Set(reflect.ValueOf(wkSample(fn, (n+i)%wkVariants)))
		}
	} else {
		f, ok := all.FieldByName(name)
		if !ok {
			return bad
		}
		rt = reflect.StructOf([]reflect.StructField{f})
		v = reflect.New(rt).Elem()
		v.Field(0).Set(reflect.ValueOf(wkSample(name, n)))
	}
	out, pred := "ok", "ok"
	fail := func(class, format string, xs ...interface{}) {
		if pred == "ok" {
			pred = "FAIL " + class + " " + oneLine(fmt.Sprintf(format, xs...))
		}
	}
	kind, text := safely(func() {
		px.DoWithContext(c.Fork(), func(fc px.Context) {
			ot := fc.Reflector().TypeFromReflect("W::"+strings.Title(name), nil, rt)
			px.AddTypes(fc, ot)
			w := px.Wrap(fc, v.Interface())
			pt, err := px.WrapReflectedType(fc, rt)
			if err != nil {
				panic(err)
			}
			if !px.IsInstance(pt, w) {
				fail("wk-type-rejects", "%s rejects %s", pt, w)
			}
			back := reflect.New(rt).Elem()
			fc.Reflector().ReflectTo(w, back)
			if !reflect.DeepEqual(v.Interface(), back.Interface()) {
				fail("wk-roundtrip", "%#v came back as %#v", v.Interface(), back.Interface())
			}
			b2 := fc.Reflector().Reflect2(w, rt)
			if !reflect.DeepEqual(v.Interface(), b2.Interface()) {
				fail("wk-roundtrip", "%#v came back from Reflect2 as %#v", v.Interface(), b2.Interface())
			}
			po, ok := w.(px.PuppetObject)
			if !ok {
				fail("wk-roundtrip", "the struct wraps to a %s, not to an object", w.PType())
				return
			}
			ih := po.InitHash()
			o2 := px.New(fc, ot, ih)
			b3 := reflect.New(rt).Elem()
			fc.Reflector().ReflectTo(o2, b3)
			if !reflect.DeepEqual(v.Interface(), b3.Interface()) {
				fail("wk-new-roundtrip", "%#v through init hash %s came back as %#v", v.Interface(), ih, b3.Interface())
			}
			b4 := reflect.New(reflect.PtrTo(rt)).Elem()
			fc.Reflector().ReflectTo(o2, b4)
			if b4.IsNil() || !reflect.DeepEqual(v.Interface(), b4.Elem().Interface()) {
				fail("wk-new-roundtrip", "%#v through init hash %s came back into a pointer as %#v", v.Interface(), ih, b4.Interface())
			}
			// every attribute value alone: the field's value wraps to an instance of the attribute's type and reflects back
			for i := 0; i < rt.NumField(); i++ {
				fv := px.Wrap(fc, v.Field(i).Interface())
				at, err := px.WrapReflectedType(fc, rt.Field(i).Type)
				if err != nil {
					panic(err)
				}
				if !px.IsInstance(at, fv) {
					fail("wk-type-rejects", "field %s: %s rejects %s", rt.Field(i).Name, at, fv)
				}
				fb := fc.Reflector().Reflect2(fv, rt.Field(i).Type)
				if !reflect.DeepEqual(v.Field(i).Interface(), fb.Interface()) {
					fail("wk-roundtrip", "field %s: %#v came back from Reflect2 as %#v", rt.Field(i).Name, v.Field(i).Interface(), fb.Interface())
				}
			}
		})
	})
	if kind != "" {
		out = kind
		fail("wk-fault", "%s", text)
	}
	return core.Result{Out: out, Pred: pred, NonTrivial: true, Tags: []string{"k:wk", "wk:" + name}}
}

func genWk(g *core.G) {
	for _, name := range append([]string{"all"}, wkNames...) {
		for n := 0; n < wkVariants; n++ {
			g.Emit(fmt.Sprintf("@wk %s %d", name, n))
		}
	}
}

// ---- @objtg: the puppet tags handed to the reflector beside the Go type ------------------------------------------------

// withExternalTags: a copy of the struct type whose own fields (not those of nested struct types) carry no tag in the Go
// type; the tag text stays in the term, so every classifier reads it as before
func withExternalTags(t *gty) *gty {
	c := *t
	c.fields = make([]gfield, len(t.fields))
	for i, f := range t.fields {
		f.ext = true
		c.fields[i] = f
	}
	return &c
}

// externalTags: Go field name → content of its puppet tag for the fields marked ext (nil when there is none); the tag string
// is taken apart by reflect.StructTag, not by pcore's own tag parser
func externalTags(t *gty) map[string]string {
	var m map[string]string
	for _, f := range t.fields {
		if p, ok := reflect.StructTag(f.tag).Lookup("puppet"); ok && f.ext {
			if m == nil {
				m = map[string]string{}
			}
			m[f.name] = p
		}
	}
	return m
}

// ---- @objnorm: tag strings outside the conventional form ----------------------------------------------------------------

// normalTags: the struct type with every field's tag replaced by puppet:"…" holding exactly what reflect.StructTag (Go's own
// reader of the convention) finds under the key puppet — no tag when it finds none
func normalTags(t *gty) *gty {
	if t == nil {
		return nil
	}
	c := *t
	c.key, c.elem = normalTags(t.key), normalTags(t.elem)
	c.fields = make([]gfield, len(t.fields))
	for i, f := range t.fields {
		f.t = normalTags(f.t)
		if p, ok := reflect.StructTag(f.tag).Lookup("puppet"); ok {
			f.tag = "puppet:" + strconv.Quote(p)
		} else {
			f.tag = ""
		}
		c.fields[i] = f
	}
	return &c
}

// oddTags: tag strings that stray from the convention in ways on which pcore's reader (types.ParseTags) and Go's agree —
// blanks before, between and after the pairs; a key without a value, with nothing after the colon, with an unquoted or an
// unterminated value; an empty key; a quote inside a key; an escaped quote inside a value; other keys before and after.
// PUPPET stands for a well-formed puppet tag.  (Keys holding a blank are left out: pcore reads them, Go does not; the
// property does not say which malformed tags are tolerated.)
var oddTags = []string{
	` PUPPET`, `PUPPET `, `   PUPPET   `, `json:"a"  PUPPET`, `json:"a" PUPPET yaml:"b"  `, `PUPPET json`, `PUPPET json:`, `PUPPET json:"a`,
	`puppet`, `puppet:`, `puppet:"`, `:"x" PUPPET`, `json:x PUPPET`, `json: PUPPET`, `a"b:"x" PUPPET`, `json:"a\"b" PUPPET`, `json:"a\\" PUPPET`,
	`json:"" PUPPET`, `PUPPET:`, `json:"a":PUPPET`, "\x7f:\"x\" PUPPET", `j`, `j:`, `:`, `"`, ` `, `json:"a" `, `json:"a" x`, `json:"a" :`,
}

func genOddTags(g *core.G) {
	i8, str := &gty{kind: "int", w: 8}, &gty{kind: "string"}
	puppets := []string{`puppet:"name=>'q'"`, `puppet:"value=>5"`, `puppet:"name=>'q', value=>-3"`}
	for i, ot := range oddTags {
		for j, p := range puppets {
			tag := strings.Replace(ot, "PUPPET", p, -1)
			if j > 0 && tag == ot {
				continue
			}
			// the odd tag on the first field, on the last one, and on both
			for k, S := range []*gty{
				{kind: "struct", fields: []gfield{{name: "A", t: i8, tag: tag}, {name: "B", t: str}}},
				{kind: "struct", fields: []gfield{{name: "A", t: str}, {name: "B", t: i8, tag: tag}}},
				{kind: "struct", fields: []gfield{{name: "A", t: i8, tag: tag}, {name: "B", t: i8, tag: tag}}},
			} {
				if k == 2 && strings.Contains(tag, "name=>") {
					continue // the same name on two attributes
				}
				g.Emit("@objnorm " + S.sexp().String() + " (st " + []string{"0 x61", "x 5", "5 -3"}[k] + ")")
				if (i+j+k)%3 == 0 {
					g.Emit("@refl " + S.sexp().String() + " (st " + []string{"-3 x", "x61 0", "1 2"}[k] + ")")
				}
			}
		}
	}
}

// ---- containers of registered structs inside an interface{} ---------------------------------------------------------

// ifacePtrStructElems: some interface{} that reaches wrap's type switch (not a struct field: that one is kept verbatim in a
// Runtime value) holds a container — slice, array or map, containers of containers too — with a non-nil POINTER to a struct
// among its elements.  Array.Reflect / Hash.ReflectTo infer the Go type of such a container from the pcore type, where the
// element is the struct type (objectType.ReflectType), while every element object holds the pointer.
func ifacePtrStructElems(t *gty, v reflect.Value, inIface, inContainer bool) bool {
	switch t.kind {
	case "iface":
		if v.IsNil() {
			return false
		}
		if dt := gtyOf(v.Elem().Type()); dt != nil {
			// an interface{} element of a container that is itself inside an interface{} is still an element of that container
			return ifacePtrStructElems(dt, v.Elem(), true, inIface && inContainer)
		}
	case "slice", "array":
		for i := 0; i < v.Len(); i++ {
			if ifacePtrStructElems(t.elem, v.Index(i), inIface, inIface) {
				return true
			}
		}
	case "map":
		for _, k := range v.MapKeys() {
			if ifacePtrStructElems(t.elem, v.MapIndex(k), inIface, inIface) {
				return true
			}
		}
	case "ptr":
		if v.IsNil() {
			return false
		}
		if t.elem.kind == "struct" && inIface && inContainer {
			return true
		}
		return ifacePtrStructElems(t.elem, v.Elem(), inIface, inContainer)
	case "struct":
		for i, f := range t.fields {
			if f.t.kind != "iface" && ifacePtrStructElems(f.t, v.Field(i), false, false) {
				return true
			}
		}
	}
	return false
}

// genIfaceStructs: an interface{} (at the top, in a []interface{}, in a map[string]interface{}) holding a slice / array / map
// of a registered struct type — by value (round-trips: the inferred element type is the struct), as interface{} elements that
// all hold the struct (comes back as []S: finding C18-iface-container-type), and by pointer (cannot be reflected back: finding
// C18-iface-ptr-struct-elems-fault); nil pointers and empty containers beside them.  Implementation only.
func genIfaceStructs(g *core.G) {
	for _, e := range []*gty{{kind: "int", w: 8}, {kind: "bool"}, {kind: "string"}} {
		zero, other := genVal(g.Rng, e, 0, 0), boundary(e)[len(boundary(e))-1]
		S := &gty{kind: "struct", fields: []gfield{{name: "A", t: e}}}
		ss, ps := S.sexp().String(), (&gty{kind: "ptr", elem: S}).sexp().String()
		v1, v2 := "(st "+zero+")", "(st "+other+")"
		dyn := []string{
			"(i (slice " + ss + ") (s " + v1 + " " + v2 + "))",
			"(i (array 2 " + ss + ") (a " + v1 + " " + v2 + "))",
			"(i (map string " + ss + ") (m (x61 " + v1 + ") (x62 " + v2 + ")))",
			"(i (slice iface) (s (i " + ss + " " + v1 + ") (i " + ss + " " + v2 + ")))",
			"(i (slice " + ps + ") (s (p " + v1 + ") (p " + v2 + ")))",
			"(i (slice " + ps + ") (s (p " + v1 + ") nil))",
			"(i (slice " + ps + ") (s nil))",
			"(i (slice " + ps + ") (s))",
			"(i (array 1 " + ps + ") (a (p " + v2 + ")))",
			"(i (map string " + ps + ") (m (x61 (p " + v1 + "))))",
			"(i (map string " + ps + ") (m (x61 nil)))",
			"(i (slice (slice " + ps + ")) (s (s (p " + v2 + "))))",
			"(i (slice iface) (s (i " + ps + " (p " + v1 + ")) (i " + ps + " (p " + v2 + "))))",
		}
		for _, d := range dyn {
			g.Emit("@refl iface " + d)
			g.Emit("@refl (slice iface) (s " + d + " nil)")
			g.Emit("@refl (map string iface) (m (x6b " + d + "))")
		}
	}
}

// genDeclaredParents: the registry-mapped path (@objreg / @objregp) on structs whose embedded first field is a POINTER to a
// struct — non-nil (declared as the parent: dereferenced on the way in, allocated on the way back), nil (n/a as a parent, an
// absent attribute otherwise) — for every scalar type and boundary value; a pointer parent that has a struct parent itself;
// such structs inside a slice
func genDeclaredParents(g *core.G) {
	for _, e := range leafTypes() {
		P := &gty{kind: "struct", fields: []gfield{{name: "PA", t: e}}}
		R := &gty{kind: "struct", fields: []gfield{{name: "RA", t: &gty{kind: "bool"}}}}
		P2 := &gty{kind: "struct", fields: []gfield{{name: "Root", anon: true, t: R}, {name: "PA", t: e}}}
		child := func(p *gty) *gty {
			return &gty{kind: "struct", fields: []gfield{{name: "Base", anon: true, t: &gty{kind: "ptr", elem: p}}, {name: "A", t: e}}}
		}
		both := func(t *gty, v string) {
			g.Emit("@objreg " + t.sexp().String() + " " + v)
			g.Emit("@objregp " + t.sexp().String() + " " + v)
		}
		zero := genVal(g.Rng, e, 0, 0)
		both(child(P), "(st nil "+zero+")")
		for _, v := range boundary(e) {
			both(child(P), "(st (p (st "+v+")) "+zero+")")
			both(child(P2), "(st (p (st (st t) "+v+")) "+v+")")
			both(&gty{kind: "slice", elem: child(P)}, "(s (st (p (st "+v+")) "+v+") (st (p (st "+zero+")) "+v+"))")
		}
	}
}

// genUndefDefaults: `value=>undef` beside a DECLARED type that is not Optional, on a field that can be nil — struct{A *e
// "type=>T, value=>undef"; B string} for every scalar type e and every type T the generator declares for e (derived, wider,
// narrower, Any, unfitting), at nil, at a pointer to the zero value and to another value.  ReflectFieldTags makes the
// attribute type Optional[T] ("if a value is declared as being undef, then ensure that type accepts undef"); without that the
// default is no instance of the type and the struct type cannot be derived.  Inside the model's tag grammar: sent to the model.
func genUndefDefaults(g *core.G) {
	for _, e := range leafTypes() {
		zero, other := genVal(g.Rng, e, 0, 0), boundary(e)[len(boundary(e))-1]
		for _, T := range tagTypes(e) {
			for k, tag := range []string{"type=>" + T + ", value=>undef", "value=>undef, type=>" + T, "name=>'n', type=>" + T + ", value=>undef"} {
				S := &gty{kind: "struct", fields: []gfield{{name: "A", t: &gty{kind: "ptr", elem: e}, tag: "puppet:\"" + tag + "\""}, {name: "B", t: &gty{kind: "string"}}}}
				pre := "@"
				if inModel(S) {
					pre = ""
				}
				for _, v := range []string{"(st nil x61)", "(st (p " + zero + ") x)", "(st (p " + other + ") x6162)"}[:3-k] {
					g.Emit(pre + "refl " + S.sexp().String() + " " + v)
					g.Emit(pre + "obj " + S.sexp().String() + " " + v)
				}
			}
		}
	}
}

// declaredInitHashBack: on the registry-mapped path too, the object type constructs — from the instance's own init hash
// (attributeSlice.InitHash: the values that differ from their attribute's default) — an instance that converts back to an
// equal struct.  Only for a struct at the top whose round trip held; skipped when a single Hash argument is ambiguous (the
// first attribute itself accepts the init hash).  "" = holds.
func declaredInitHashBack(c px.Context, t *gty, pt px.Type, w px.Value, gv reflect.Value) string {
	po, isObj := w.(px.PuppetObject)
	ot, isOT := pt.(px.ObjectType)
	if t.kind != "struct" || !isObj || !isOT {
		return ""
	}
	var ih px.OrderedMap
	if k, text := safely(func() { ih = po.InitHash() }); k != "" {
		return "objreg-inithash-fault InitHash: " + text
	}
	if attrs := ot.AttributesInfo().Attributes(); len(attrs) > 0 && px.IsInstance(attrs[0].Type(), ih) {
		return ""
	}
	var o2 px.Value
	if k, text := safely(func() { o2 = px.New(c, ot, ih) }); k != "" {
		return "objreg-inithash-fault New from the init hash " + encVal(ih) + ": " + text
	}
	back := reflect.New(t.rtype()).Elem()
	if k, text := safely(func() { c.Reflector().ReflectTo(o2, back) }); k != "" {
		return "objreg-inithash-fault ReflectTo of the instance made from the init hash: " + text
	}
	if !reflect.DeepEqual(gv.Interface(), back.Interface()) {
		return "objreg-inithash-roundtrip " + encGo(t, gv) + " through the init hash " + encVal(ih) + " came back as " + encGo(t, back)
	}
	return ""
}

// genTaggedEmbedded: an embedded struct that is NOT the first field is an attribute like any other and its puppet tag counts
// (taggedType.initTags skips only `i == 0 && f.Anonymous`): struct{A e; P `name=>'m'`}, the same below an embedded parent, and
// an embedded pointer with `value=>undef` (implementation only) — for every scalar type and boundary value.  Modelled where
// the model's type language has the shape.
func genTaggedEmbedded(g *core.G) {
	for _, e := range leafTypes() {
		P := &gty{kind: "struct", fields: []gfield{{name: "PA", t: e}}}
		Q := &gty{kind: "struct", fields: []gfield{{name: "QA", t: &gty{kind: "bool"}}}}
		one := &gty{kind: "struct", fields: []gfield{{name: "A", t: e}, {name: "Mix", anon: true, t: P, tag: `puppet:"name=>'m'"`}}}
		two := &gty{kind: "struct", fields: []gfield{{name: "Base", anon: true, t: Q}, {name: "A", t: e}, {name: "Mix", anon: true, t: P, tag: `puppet:"name=>'m'"`}}}
		opt := &gty{kind: "struct", fields: []gfield{{name: "A", t: e}, {name: "Mix", anon: true, t: &gty{kind: "ptr", elem: P}, tag: `puppet:"name=>'m', value=>undef"`}}}
		emit := func(t *gty, v string) {
			pre := "@"
			if inModel(t) {
				pre = ""
			}
			g.Emit(pre + "refl " + t.sexp().String() + " " + v)
			g.Emit(pre + "obj " + t.sexp().String() + " " + v)
		}
		zero := genVal(g.Rng, e, 0, 0)
		emit(opt, "(st "+zero+" nil)")
		for _, v := range boundary(e) {
			emit(one, "(st "+zero+" (st "+v+"))")
			emit(two, "(st (st t) "+v+" (st "+v+"))")
			emit(opt, "(st "+v+" (p (st "+v+")))")
		}
	}
}

// declareDynamic: @objreg — the struct types that occur only as DYNAMIC types of interface{} values inside v are declared and
// mapped too (after the static ones): an interface{} holding a mapped struct wraps to an instance of the declared type
// (FromReflectedValue), and reflecting it back into the interface{} goes through attributeSlice.Reflect →
// objectType.ReflectType → ImplementationRegistry.TypeToReflected
func declareDynamic(c px.Context, t *gty, v reflect.Value, seen map[reflect.Type]px.Type, withParent bool) {
	switch t.kind {
	case "iface":
		if !v.IsNil() {
			if dt := gtyOf(v.Elem().Type()); dt != nil {
				declareStructs(c, dt, seen, withParent)
				declareDynamic(c, dt, v.Elem(), seen, withParent)
			}
		}
	case "ptr":
		if !v.IsNil() {
			declareDynamic(c, t.elem, v.Elem(), seen, withParent)
		}
	case "slice", "array":
		for i := 0; i < v.Len(); i++ {
			declareDynamic(c, t.elem, v.Index(i), seen, withParent)
		}
	case "map":
		for _, k := range v.MapKeys() {
			declareDynamic(c, t.elem, v.MapIndex(k), seen, withParent)
		}
	case "struct":
		for i, f := range t.fields {
			declareDynamic(c, f.t, v.Field(i), seen, withParent)
		}
	}
}

// genMappedInIface: the registry-mapped path with the struct behind an interface{} — a POINTER to a mapped struct held by an
// interface{} at the top, in a []interface{} (nil beside it), in a map[string]interface{} and in an interface{} field of a
// mapped struct; every scalar type × boundary value.  (Held BY VALUE the struct comes back as a pointer to it —
// TypeToReflected answers the normalized *S — which diffClass names iface-dynamic-type; not generated, see the notes.)
func genMappedInIface(g *core.G) {
	for _, e := range leafTypes() {
		S := &gty{kind: "struct", fields: []gfield{{name: "A", t: e}}}
		ps := (&gty{kind: "ptr", elem: S}).sexp().String()
		outer := &gty{kind: "struct", fields: []gfield{{name: "X", t: &gty{kind: "iface"}}, {name: "B", t: S}}}
		zero := genVal(g.Rng, e, 0, 0)
		for _, v := range boundary(e) {
			d := "(i " + ps + " (p (st " + v + ")))"
			g.Emit("@objreg iface " + d)
			g.Emit("@objreg (slice iface) (s " + d + " nil " + d + ")")
			g.Emit("@objreg (map string iface) (m (x6b " + d + "))")
			g.Emit("@objreg " + outer.sexp().String() + " (st " + d + " (st " + zero + "))")
		}
	}
}
