// Package c06: the parser is total (property C06).
//
// ops (model + implementation):
//
//	parse <xBYTES> (<xBADRX>*)   types.Parse under a 2 s deadline → value <expr> | parse-error L C | fault | timeout | other
//	                             the list is the regexp.Compile oracle for this text (syn.BadRegexps)
//	resolve <xBYTES> (<xBADRX>*) [((BITS xFTEXT)*)]
//	                             Context.ParseType → type x<its text> | reported <ISSUE_CODE> | parse-error L C | fault | outside
//	                             (`outside`: the expression mentions something the resolver model does not have — decided on
//	                             the parse result by syn.Modelled, the twin of the model's Expr.outsideB); the optional third
//	                             argument is the float-text oracle (syn.FloatOracle)
//
// The direct predicate (on the implementation only) covers both halves of the property: the parse outcome must be
// a value or a reported parse error located inside the input, and — when the value is a type expression —
// Context.ParseType must return a type or raise a reported error.
package c06

import (
	"fmt"
	"math/rand"
	"strings"

	"verif/harness/core"
	"verif/harness/sx"
	"verif/harness/syn"

	"github.com/lyraproj/pcore/px"
	"github.com/lyraproj/pcore/types"
)

func init() {
	core.Register(&core.Prop{
		ID:   "C06",
		Rule: "distinct op lines; non-trivial = the input is not empty and the outcome is not a bare scalar value (a container, a type expression, a call, or an error)",
		Gen:  gen,
		Exec: exec,
	})
}

// parameterized Object types (ResolveWithParams → NewObjectTypeExtension): defined once per context
const objP1 = `type My::P1 = Object[{type_parameters => {a => Integer}, attributes => {a => Integer}}]`
const objP2 = `type My::P2 = Object[{type_parameters => {from => Integer, unit => String}, attributes => {from => Integer, unit => {type => String, value => 'm'}}}]`
const objP3 = `type My::P3 = Object[{type_parameters => {a => Integer, b => String, c => Boolean}, attributes => {a => Integer, b => {type => String, value => 'x'}, c => {type => Boolean, value => true}}}]`

func defineTypes(c px.Context) {
	if _, ok := c.ParseType("My::P1").(*types.TypeReferenceType); !ok {
		return
	}
	px.AddTypes(c, types.Parse(objP1).(px.Type), types.Parse(objP2).(px.Type), types.Parse(objP3).(px.Type))
}

func exec(c px.Context, op string, args []sx.Sexp) core.Result {
	defineTypes(c)
	switch op {
	case "parse":
		if len(args) != 2 {
			break
		}
		b, err := args[0].AsBytes()
		if err != nil {
			break
		}
		return parseOp(c, string(b))
	case "resolve":
		if len(args) != 2 && len(args) != 3 {
			break
		}
		b, err := args[0].AsBytes()
		if err != nil {
			break
		}
		return resolveOp(c, string(b))
	}
	return core.Result{Out: "bad-op", Pred: "FAIL harness-bad-op " + op}
}

func parseOp(c px.Context, text string) core.Result {
	o := syn.Parse(text)
	out := o.Canon()
	tags := []string{"parse:" + o.Kind}
	nt := text != ""
	switch o.Kind {
	case "value":
		enc := syn.Enc(o.Val)
		nt = nt && strings.HasPrefix(enc, "(") && strings.Count(enc, "(") > 1 || strings.HasPrefix(enc, "(t") || strings.HasPrefix(enc, "(c") || strings.HasPrefix(enc, "(n")
		{
			// second half of the property: Context.ParseType on the same text returns a type or raises a reported error
			// (for an expression that is not a type: a reported error)
			_, isType := o.Val.(px.ResolvableType)
			r := syn.Safely(func() px.Value { return c.ParseType(text) })
			tags = append(tags, "resolve:"+r.Kind)
			switch r.Kind {
			case "value":
				if _, ok := r.Val.(px.Type); !ok {
					return fail(out, "resolve-nil", text, "Context.ParseType returned no type and raised no error", tags)
				}
				if !isType {
					return fail(out, "resolve-nontype", text, "Context.ParseType returned a type for an expression that is not a type", tags)
				}
			case "reported", "parse-error":
				tags = append(tags, "resolve-code:"+r.Code)
			case "fault":
				return fail(out, "resolve-fault", text, r.Msg, tags)
			default:
				return fail(out, "resolve-"+r.Kind, text, r.Msg, tags)
			}
		}
	case "parse-error":
		if !syn.InInput(text, o.Line, o.Col) {
			cls := "location-outside"
			if o.Col < 0 {
				cls = "location-negative-column"
			}
			return fail(out, cls, text, fmt.Sprintf("line %d column %d: %s", o.Line, o.Col, o.Msg), tags)
		}
	case "fault":
		return fail(out, "parse-fault", text, o.Msg, tags)
	case "timeout":
		return fail(out, "timeout", text, "types.Parse did not return within the deadline", tags)
	case "skipped":
		return core.Result{Out: out, Pred: "n/a", Tags: []string{"skipped-after-timeouts"}}
	default:
		return fail(out, "parse-"+o.Kind, text, o.Msg, tags)
	}
	return core.Result{Out: out, Pred: "ok", NonTrivial: nt, Tags: tags}
}

// resolveOp: the second half of the property as an observation that the model answers too: the type ParseType returns (by
// its text) or the issue code it reports.
func resolveOp(c px.Context, text string) core.Result {
	o := syn.Parse(text)
	switch o.Kind {
	case "value":
	case "parse-error":
		return core.Result{Out: o.Canon(), Pred: "n/a", Tags: []string{"resolve", "unparsable"}}
	case "skipped":
		return core.Result{Out: "skipped", Pred: "n/a", Tags: []string{"skipped-after-timeouts"}}
	default:
		return fail(o.Canon(), "parse-"+o.Kind, text, o.Msg, []string{"resolve"})
	}
	r := syn.Safely(func() px.Value { return c.ParseType(text) })
	tags := []string{"resolve", "resolve:" + r.Kind}
	modelled := syn.Modelled(o.Val)
	out := "outside"
	switch r.Kind {
	case "value":
		t, ok := r.Val.(px.Type)
		if !ok {
			return fail(out, "resolve-nil", text, "Context.ParseType returned no type and raised no error", tags)
		}
		var s string
		if p := syn.Safely(func() px.Value { s = t.String(); return px.Undef }); p.Kind != "value" {
			if modelled {
				return fail("unprintable", "print-"+p.Kind, text, p.Msg, tags)
			}
			return core.Result{Out: out, Pred: "n/a", Tags: append(tags, "outside", "unprintable")}
		}
		// the type ParseType hands out must be usable: comparing it with itself must not fault (an unresolved TypeSet
		// literal dereferences its nil version fields in Equals)
		if e := syn.Safely(func() px.Value { _ = t.Equals(t, nil); return px.Undef }); e.Kind == "fault" {
			cls := "resolved-type-faults"
			return fail(out, cls, text, "the type ParseType returned faults in Equals: "+e.Msg, tags)
		}
		if modelled {
			out = "type " + sx.Str(s).Atom
		}
		tags = append(tags, "type:"+t.Name())
	case "reported", "parse-error":
		code := r.Code
		if r.Kind == "parse-error" {
			code = "PCORE_PARSE_ERROR"
		}
		if modelled {
			out = "reported " + code
		}
		tags = append(tags, "resolve-code:"+code)
	case "fault":
		return fail("fault", "resolve-fault", text, r.Msg, tags)
	default:
		return fail(r.Kind, "resolve-"+r.Kind, text, r.Msg, tags)
	}
	if !modelled {
		tags = append(tags, "outside")
	}
	return core.Result{Out: out, Pred: "ok", NonTrivial: modelled && strings.ContainsAny(text, "["), Tags: tags}
}

func fail(out, class, text, detail string, tags []string) core.Result {
	r := core.Fail(out, class, syn.Clean(fmt.Sprintf("%q: %s", text, detail)))
	r.Tags = tags
	return r
}

// ---- generator ----------------------------------------------------------------------------------------------

func emit(g *core.G, text string) {
	g.Emit("parse " + sx.Str(text).Atom + " " + syn.OracleSexp(text))
}

// emitR: the text as a parse op and as a resolve op
func emitR(g *core.G, text string) {
	emit(g, text)
	g.Emit("resolve " + sx.Str(text).Atom + " " + syn.OracleSexp(text) + syn.FloatOracle(text))
}

// one representative per token kind (plus the two words the parser treats specially and one bad character)
var tokReps = []string{"Foo", "a", "1", "1.5", "/x/", "'s'", "[", "]", "{", "}", "(", ")", ",", ".", "=>", "=", "type", "Deferred", "\r"}

// further representatives, used for the shorter sequences
var tokMore = []string{"true", "undef", "default", "-1", "0x1F", "1e5", "007", "08", "\"d\"", "#c\n", "A::B", "a::b", "Integer", "Struct", "9223372036854775808", "\x00"}

func seqs(g *core.G, alphabet []string, n int, cur []string) {
	if len(cur) > 0 {
		emit(g, strings.Join(cur, " "))
		if len(cur) > 1 {
			emit(g, strings.Join(cur, ""))
		}
	}
	if len(cur) == n {
		return
	}
	for _, t := range alphabet {
		seqs(g, alphabet, n, append(cur, t))
	}
}

const tsBase0 = "pcore_version => '1.0.0', version => '1.0.0'"

func gen(g *core.G) {
	emit(g, "")
	// (i) exhaustive token sequences
	n := 3
	if g.Thorough() {
		n = 4
	}
	seqs(g, tokReps, n, nil)
	seqs(g, append(append([]string{}, tokReps...), tokMore...), 2, nil)
	if g.Thorough() {
		// length 5 over the 16 token kinds proper, blank-separated only
		seqs5(g, tokReps[:16])
	}

	// (i'') separators in every argument position: every bracket form of the grammar around every sequence of length <= 4
	// over {word, number, `=>`, `,`} (dangling / doubled / leading rockets, stray commas, before each closer), bare and
	// nested inside a list and inside type arguments
	forms := [][2]string{{"[", "]"}, {"(", ")"}, {"{", "}"}, {"Foo[", "]"}, {"Foo(", ")"}, {"Foo{", "}"}, {"Deferred(", ")"}, {"Deferred[", "]"}}
	atoms := []string{"a", "1", "=>", ","}
	var argLists []string
	var recA func(cur []string, n int)
	recA = func(cur []string, n int) {
		argLists = append(argLists, strings.Join(cur, " "))
		if n == 0 {
			return
		}
		for _, a := range atoms {
			recA(append(cur, a), n-1)
		}
	}
	maxArgs := 4
	if g.Thorough() {
		maxArgs = 5
	}
	recA(nil, maxArgs)
	for _, f := range forms {
		for _, al := range argLists {
			t := f[0] + al + f[1]
			emit(g, t)
			if len(al) <= 11 {
				emit(g, "["+t+"]")
				emit(g, "Array["+t+", 1]")
				emit(g, "{k => "+t+"}")
			}
		}
	}

	// (i') resolution: every core type name applied to every argument list of length <= 2 over one representative
	// per kind of argument (the universe in which "resolving returns a type or a reported error" is enumerated),
	// plus sampled lists of length 3 and 4
	for _, tn := range syn.TypeNames {
		emitR(g, tn)
		for _, a := range syn.ArgReps {
			emitR(g, tn+"["+a+"]")
			emit(g, tn+"("+a+")")
			for _, b := range syn.ArgReps {
				emitR(g, tn+"["+a+", "+b+"]")
			}
		}
		for i := 0; i < 150*g.Scale; i++ {
			k := 3 + g.Rng.Intn(2)
			xs := make([]string, k)
			for j := range xs {
				xs[j] = syn.ArgReps[g.Rng.Intn(len(syn.ArgReps))]
			}
			emitR(g, tn+"["+strings.Join(xs, ", ")+"]")
		}
	}

	// (i''') resolution, argument SHAPES: for every parameterized type the array form, the array form followed by further
	// arguments, nested arrays, an array in a later position — with a string, a Boolean, an Integer, a type, `default` and
	// the leaves particular to that type at every position of the flattened and of the un-flattened list (the creators'
	// "one Array argument holds the arguments" idiom re-counts its arguments; a stale count is an index fault)
	for _, pt := range syn.ParamTypeNames {
		leaves := append(append([]string{}, syn.ShapeLeaves...), pt.Extra...)
		for _, al := range syn.ArgShapes(leaves, false) {
			emitR(g, pt.Name+"["+al+"]")
		}
		for _, al := range syn.ArgShapes4(syn.ShapeLeaves, g.Thorough()) {
			emitR(g, pt.Name+"["+al+"]")
		}
		for i := 0; i < 200*g.Scale; i++ { // sampled: deeper nestings and longer lists over all leaves
			emitR(g, pt.Name+"["+randShape(g.Rng, leaves, 2)+"]")
		}
	}
	// Struct: hash forms — every key kind x value kind, one and two entries, the hash inside an array, after / before another argument
	structKeys := []string{"a", "'a'", "''", "Optional[a]", "NotUndef[a]", "String[a]", "Optional['']", "String", "1", "true", "[a]", "undef", "Optional[String]", "Optional[1]"}
	structVals := []string{"String", "Optional[String]", "1", "'a'", "true", "[String]", "undef", "default", "{a => String}", "Foo"}
	for _, k := range structKeys {
		for _, v := range structVals {
			m := k + " => " + v
			for _, t := range []string{"Struct[{" + m + "}]", "Struct[" + m + "]", "Struct[[{" + m + "}]]", "Struct[{" + m + "}, 1]", "Struct[1, {" + m + "}]", "Struct[[{" + m + "}], true]",
				"Struct[{b => String, " + m + "}]", "Struct[{" + m + ", b => String}]", "Struct[{" + m + "}, {" + m + "}]", "Struct[[{" + m + "}, {" + m + "}]]", "Struct[[[{" + m + "}]]]"} {
				emitR(g, t)
			}
		}
	}

	// parameterized Object types (own type_parameters: 1, 2, 3): every argument shape over the leaves their extension
	// constructor distinguishes (positional values, `default`, hashes by name — right and wrong keys —, arrays, too many)
	poLeaves := []string{"1", "'a'", "default", "String", "true", "{a => 1}", "{from => 1}", "{unit => 'km', from => 2}", "{bogus => 1}", "{}", "[1]", "undef"}
	for _, n := range []string{"My::P1", "My::P2", "My::P3"} {
		emitR(g, n)
		for _, al := range syn.ArgShapes(poLeaves, false) {
			emitR(g, n+"["+al+"]")
		}
		for _, w := range []string{"Array[%s[1]]", "Struct[{a => %s[default, 'km']}]", "Type[%s[{a => 1}]]", "Optional[%s['x', 'y', 'z', 'w']]"} {
			emitR(g, strings.Replace(w, "%s", n, -1))
		}
	}

	// TypeSet literals resolved as TYPES (not definitions): hash forms with and without the mandatory entries, types of every
	// kind as members, nested inside other types
	tsMembers := []string{"", "types => {A => Integer}", "types => {A => Object[{}]}", "types => {A => Object[{attributes => {a => Integer}}]}", "types => {A => {attributes => {a => Integer}}}",
		"types => {A => Array[B], B => String}", "types => {a => Integer}", "types => 1", "types => {}", "references => {Ref => {name => 'X::Y', version_range => '1.x'}}", "name => 'T'",
		"name => 'T', types => {A => Object[{}]}", "name_authority => 'http://x'", "pcore_uri => 'http://x'", "annotations => {}", "bogus => 1"}
	for _, m := range tsMembers {
		for _, base := range []string{tsBase0, "pcore_version => '1.0.0'", "version => '1.0.0'", ""} {
			body := base
			if m != "" {
				if body != "" {
					body += ", "
				}
				body += m
			}
			for _, t := range []string{"TypeSet[{" + body + "}]", "Typeset[{" + body + "}]", "Array[TypeSet[{" + body + "}]]", "Struct[{a => TypeSet[{" + body + "}]}]", "TypeSet[[{" + body + "}]]",
				"TypeSet[{" + body + "}, 1]", "TypeSet[" + body + "]"} {
				if !strings.Contains(t, "[]") {
					emitR(g, t)
				}
			}
		}
	}

	// (i-def) definitions: the init hashes of Object and TypeSet types with entries of every kind under every key (right and
	// wrong), in each form a definition can take: bare, as the right side of `type X = ...`, with `[{...}]` and with `{...}`,
	// and with a parent type in place of `Object`
	objKeys := []string{"name", "parent", "type_parameters", "attributes", "constants", "functions", "equality", "equality_include_type",
		"checks", "annotations", "serialization", "bogus"}
	tsKeys := []string{"pcore_uri", "pcore_version", "name_authority", "name", "version", "types", "references", "annotations", "bogus"}
	entryVals := []string{"1", "'x'", "x", "true", "undef", "default", "Integer", "Foo", "[]", "[1]", "['a']", "[a, b]", "{}", "{a => 1}", "{a => Integer}",
		"{a => {type => Integer}}", "{a => {type => 1}}", "{a => {type => Integer, value => 'x'}}", "{a => {type => Integer, kind => bogus}}",
		"{'a' => 'b'}", "{1 => 2}", "{A => 1}", "{A => Integer}", "{A => Object[{}]}", "{A => {attributes => {x => 1}}}", "/r/", "1.5", "'1.0.0'",
		"'http://x'", "Object[{}]", "{Ref => {name => 'A::B', version_range => '1.x'}}", "{Ref => {name => 1}}", "{Ref => 1}"}
	defForms := func(kind, body string) []string {
		fs := []string{kind + "[{" + body + "}]", "type X = " + kind + "[{" + body + "}]", "type X = " + kind + "{" + body + "}", "type A::B = " + kind + "[{" + body + "}]",
			"[" + kind + "[{" + body + "}]]"}
		if kind == "Object" {
			fs = append(fs, "type X = Integer{"+body+"}", "type X = Foo{"+body+"}", "type X = { "+body+" }", "Object["+body+"]")
		}
		return fs
	}
	tsBase := "pcore_version => '1.0.0', version => '1.0.0'"
	for _, v := range entryVals {
		for _, k := range objKeys {
			for _, t := range defForms("Object", k+" => "+v) {
				emit(g, t)
			}
		}
		for _, k := range tsKeys {
			for _, t := range defForms("TypeSet", k+" => "+v) {
				emit(g, t)
			}
			for _, t := range defForms("TypeSet", tsBase+", "+k+" => "+v) {
				emit(g, t)
			}
		}
	}
	// keys of every kind in a definition's init hash: `Object[{…}]` looks its parent up in the hash while parsing, which
	// computes the hash key of every key — an unresolved type name or a call (also inside an array / a hash) is not one
	defKeys := []string{"a", "'a'", "1", "1.5", "true", "undef", "default", "/x/", "[a]", "{a => 1}", "A", "A::B", "A[1]", "[A]", "[a, [B]]", "{a => B}", "{B => a}", "Foo(1)", "[Foo(1)]",
		"Deferred(x)", "Integer", "Optional[a]"}
	for _, k := range defKeys {
		for _, kind := range []string{"Object", "TypeSet"} {
			for _, t := range defForms(kind, k+" => 1") {
				emit(g, t)
			}
			for _, t := range defForms(kind, "a => 1, "+k+" => {b => "+k+"}") {
				emit(g, t)
			}
		}
	}
	for i := 0; i < 300*g.Scale; i++ { // two and three entries at once
		kind, keys, base := "Object", objKeys, ""
		if g.Rng.Intn(3) == 0 {
			kind, keys, base = "TypeSet", tsKeys, tsBase+", "
		}
		var es []string
		for j := 2 + g.Rng.Intn(2); j > 0; j-- {
			es = append(es, keys[g.Rng.Intn(len(keys))]+" => "+entryVals[g.Rng.Intn(len(entryVals))])
		}
		fs := defForms(kind, base+strings.Join(es, ", "))
		emit(g, fs[g.Rng.Intn(len(fs))])
	}

	// (ii) every truncation, single-byte deletion and a few insertions of valid expressions
	nx := 200
	if g.Thorough() {
		nx = 300
	}
	ins := []byte{'[', ']', '{', ')', ',', '\'', '"', '/', '\\', '=', '>', ':', '.', 'e', 'x', '0', '-', ' ', '\n', 0, 0x80, 0xC3, '#', 'A'}
	exprs := append([]string{}, syn.SeedExprs...)
	for len(exprs) < nx {
		if g.Rng.Intn(3) == 0 {
			exprs = append(exprs, syn.GenValueText(g.Rng, 3))
		} else {
			exprs = append(exprs, syn.GenTypeText(g.Rng, 3))
		}
	}
	for _, e := range exprs {
		emitR(g, e)
		for i := 0; i < len(e); i++ {
			emit(g, e[:i])
			emit(g, e[:i]+e[i+1:])
		}
		k := 2
		if len(e) < 30 {
			k = 4
		}
		for i := 0; i <= len(e); i++ {
			for j := 0; j < k; j++ {
				emit(g, e[:i]+string(ins[g.Rng.Intn(len(ins))])+e[i:])
			}
			emit(g, e[:i]+" => "+e[i:])
		}
	}

	// (ii') resolution of random type expressions from the grammar of all core constructors (mostly valid, some refused by
	// the creators, some outside the resolver model) and of the valid-by-construction fragment: type text / issue code
	for i := 0; i < 4000*g.Scale; i++ {
		t := syn.GenTypeText(g.Rng, 1+g.Rng.Intn(3))
		g.Emit("resolve " + sx.Str(t).Atom + " " + syn.OracleSexp(t) + syn.FloatOracle(t))
		if i%2 == 0 {
			t = syn.GenFragType(g.Rng, 1+g.Rng.Intn(3))
			g.Emit("resolve " + sx.Str(t).Atom + " " + syn.OracleSexp(t) + syn.FloatOracle(t))
		}
	}

	// (iii) random byte strings
	nr := 40000 * g.Scale
	for i := 0; i < nr; i++ {
		emit(g, randBytes(g.Rng))
	}

	// (iv) Object init hashes whose VALIDATION branches are all visited (after the random streams: draws nothing before them)
	objectInits(g)
}

// ---- Object init hashes: every validation branch of objectType.InitFromHash ------------------------------------
//
// The members an `equality` / `serialization` entry can name: an attribute (required, with a value, derived,
// given_or_derived), a constant, a function — each declared here, in the parent, or in the parent's parent — an unknown
// name, a name twice; members that override with and without `override`, a final member, a member of the other kind, a
// constant that is also an attribute; `equality_include_type`, `checks` and `annotations` of right and wrong shape.
// Each text must end in a type or a REPORTED issue (predicates resolve-fault of the parse op, resolved-type-faults of
// the resolve op).

const oiParent = `Object[{attributes => {pa => Integer, pv => {type => String, value => 'v'}, pfin => {type => Integer, final => true}}, ` +
	`constants => {pc => 1}, functions => {pf => Callable[[], Integer]}, equality => [pa]}]`

var oiParents = []string{"", "parent => " + oiParent, "parent => Object[{parent => " + oiParent + "}]", "parent => Object[{}]", "parent => My::P2", "parent => 'My::P2'", "parent => Integer", "parent => X", "parent => 'X'", "parent => Object[{parent => X}]", "parent => 'Integer['"}

var oiAttributes = []string{"", "attributes => {a => Integer}",
	"attributes => {a => Integer, b => {type => String, value => 'x'}, d => {type => Integer, kind => derived}, g => {type => Integer, kind => given_or_derived}}",
	"attributes => {a => 'Integer', o => Optional[String]}",
	"attributes => {pa => Integer}", "attributes => {pa => {type => Integer, override => true}}", "attributes => {pa => {type => String, override => true}}",
	"attributes => {pfin => {type => Integer, override => true}}", "attributes => {pf => {type => Integer, override => true}}", "attributes => {pc => {type => Integer, override => true}}",
	"attributes => {nope => {type => Integer, override => true}}", "attributes => {a => {type => Integer, kind => constant}}", "attributes => {a => {type => Integer, kind => constant, value => 1}}",
	"attributes => {a => {type => Integer, value => 'x'}}", "attributes => {a => {type => Integer, kind => derived, value => 1}}", "attributes => {a => {type => Integer, final => true, kind => constant, value => 1}}",
	"attributes => {a => {type => Integer, final => false, kind => constant, value => 1}}", "attributes => {a => 'Integer['}", "attributes => {a => 'Nope'}", "attributes => {a => {type => Integer, annotations => 1}}"}

var oiConstants = []string{"", "constants => {c => 1}", "constants => {a => 1}", "constants => {pa => 1}", "constants => {pc => 2}", "constants => {pf => 1}", "constants => {pfin => 1}", "constants => {c => Integer}"}

var oiFunctions = []string{"", "functions => {f => Callable[[], Integer]}", "functions => {f => 'Callable'}", "functions => {f => {type => Callable[[], Integer]}}", "functions => {a => Callable}",
	"functions => {c => Callable}", "functions => {pf => Callable[[], Integer]}", "functions => {pf => {type => Callable[[], Integer], override => true}}", "functions => {pf => {type => Callable[[], String], override => true}}",
	"functions => {pa => {type => Callable, override => true}}", "functions => {nope => {type => Callable, override => true}}", "functions => {f => {type => Callable, final => true}}", "functions => {f => Integer}", "functions => {f => 'Callable['}"}

// the names an equality / serialization list can hold
var oiNames = []string{"a", "b", "d", "g", "o", "c", "f", "pa", "pv", "pfin", "pc", "pf", "zz", "'a'", "1", "Integer"}

var oiTails = []string{"equality_include_type => false", "equality_include_type => true", "equality_include_type => 1", "checks => 1", "checks => {}", "checks => 'x'", "annotations => {}", "annotations => 1",
	"annotations => {Foo => {}}", "annotations => {My::P1 => {a => 1}}", "annotations => {Integer => {}}", "name => 'N'", "name => 1", "type_parameters => {a => Integer}", "type_parameters => {pa => Integer}",
	"type_parameters => {from => Integer}", "type_parameters => {from => {type => Integer, override => true}}", "type_parameters => {a => 'Integer['}", "type_parameters => {a => 1}", "type_parameters => {a => {type => 1}}"}

func oiLists(key string) []string {
	var r []string
	for _, n := range oiNames {
		r = append(r, key+" => ["+n+"]", key+" => [a, "+n+"]", key+" => ["+n+", a]", key+" => [b, "+n+"]")
		if key == "equality" {
			r = append(r, key+" => "+n)
		}
	}
	return append(r, key+" => []", key+" => [a, b, g, a]", key+" => [pa, pv, a, b]", key+" => [pv, pa]", key+" => [[a]]", key+" => {a => 1}", key+" => 1", key+" => undef")
}

func oiJoin(es ...string) string {
	var r []string
	for _, e := range es {
		if e != "" {
			r = append(r, e)
		}
	}
	return strings.Join(r, ", ")
}

func oiEmit(g *core.G, body string, all bool) {
	emitR(g, "Object[{"+body+"}]")
	if all {
		emit(g, "type X = Object{"+body+"}")
		emit(g, "type X = {"+body+"}")
		emitR(g, "Array[Object[{"+body+"}]]")
	}
}

func objectInits(g *core.G) {
	// the member structure alone: every parent x attributes x constants x functions
	for _, p := range oiParents {
		for _, a := range oiAttributes {
			for _, c := range oiConstants {
				for _, f := range oiFunctions {
					oiEmit(g, oiJoin(p, a, c, f), false)
				}
			}
		}
	}
	// equality / serialization lists over the structures that declare every kind of member, here and above
	eqs, sers := oiLists("equality"), oiLists("serialization")
	for _, p := range oiParents[:4] {
		for _, a := range oiAttributes[:4] {
			for _, cf := range []string{"", "constants => {c => 1}", "functions => {f => Callable[[], Integer]}", "constants => {c => 1}, functions => {f => Callable[[], Integer]}"} {
				base := oiJoin(p, a, cf)
				for _, e := range eqs {
					oiEmit(g, oiJoin(base, e), true)
				}
				for _, e := range sers {
					oiEmit(g, oiJoin(base, e), true)
				}
				for _, tl := range oiTails {
					oiEmit(g, oiJoin(base, tl), true)
					oiEmit(g, oiJoin(base, "equality => [a]", tl), false)
				}
			}
		}
	}
	// random combinations of everything, in random entry order
	for i := 0; i < 1500*g.Scale; i++ {
		es := []string{oiParents[g.Rng.Intn(len(oiParents))], oiAttributes[g.Rng.Intn(len(oiAttributes))], oiConstants[g.Rng.Intn(len(oiConstants))], oiFunctions[g.Rng.Intn(len(oiFunctions))]}
		if g.Rng.Intn(3) > 0 {
			es = append(es, eqs[g.Rng.Intn(len(eqs))])
		}
		if g.Rng.Intn(3) > 0 {
			es = append(es, sers[g.Rng.Intn(len(sers))])
		}
		if g.Rng.Intn(2) == 0 {
			es = append(es, oiTails[g.Rng.Intn(len(oiTails))])
		}
		g.Rng.Shuffle(len(es), func(i, j int) { es[i], es[j] = es[j], es[i] })
		oiEmit(g, oiJoin(es...), g.Rng.Intn(4) == 0)
	}
}

// randShape draws an argument list with nested arrays over the leaves
func randShape(r *rand.Rand, leaves []string, depth int) string {
	n := 1 + r.Intn(4)
	xs := make([]string, n)
	for i := range xs {
		if depth > 0 && r.Intn(3) == 0 {
			xs[i] = "[" + randShape(r, leaves, depth-1) + "]"
		} else {
			xs[i] = leaves[r.Intn(len(leaves))]
		}
	}
	return strings.Join(xs, ", ")
}

func seqs5(g *core.G, alphabet []string) {
	idx := make([]int, 5)
	for {
		parts := make([]string, 5)
		for i, k := range idx {
			parts[i] = alphabet[k]
		}
		emit(g, strings.Join(parts, " "))
		i := 4
		for ; i >= 0; i-- {
			idx[i]++
			if idx[i] < len(alphabet) {
				break
			}
			idx[i] = 0
		}
		if i < 0 {
			return
		}
	}
}

var syntaxBytes = []byte("[]{}(),.=>'\"/\\#:_-+eExX0123456789abAB \n\t$u")

var fragments = []string{"Integer", "String", "Struct", "Tuple", "Deferred", "type", "true", "undef", "default", "=>", "::", "0x", "1e", "1.", "\\u{", "\\'", "\\\\", "\xc3\xa9", "\xef\xbf\xbd", "\xf0\x9f\x98\x80", "\xc3", "\x80", "\xed\xa0\x80", "\xc0\xaf", "\x00", "\r"}

func randBytes(r *rand.Rand) string {
	n := 1 + r.Intn(20)
	var sb strings.Builder
	mode := r.Intn(4)
	for sb.Len() < n {
		switch {
		case mode == 0:
			sb.WriteByte(byte(r.Intn(256)))
		case mode == 1 || r.Intn(3) > 0:
			sb.WriteByte(syntaxBytes[r.Intn(len(syntaxBytes))])
		default:
			sb.WriteString(fragments[r.Intn(len(fragments))])
		}
	}
	return sb.String()
}
