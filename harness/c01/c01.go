// Package c01: assignability is sound (property C01).
//
// ops (model + implementation, syntax in harness/lat/doc.go):
//
//	sound A B V    <asg A B> <inst B V> <inst A V>     the predicate: asg ∧ inst B V ⇒ inst A V
//	asg A B        t|f
//	inst T V       t|f
//
// '@' lines (implementation only): the malformed stream (terms no constructor accepts) and the second-tier
// tests `t2-sound` on Callable / Runtime / Iterator / Timestamp / SemVer / URI / recursive aliases.
package c01

import (
	"verif/harness/core"
	"verif/harness/lat"
	"verif/harness/sx"

	"github.com/lyraproj/pcore/px"
)

func init() {
	core.Register(&core.Prop{
		ID: "C01",
		Rule: "distinct op lines; a `sound` line is non-trivial when asg A B and inst B V both answer true (the hypotheses of the " +
			"implication hold); an `asg`/`inst` line when a type argument is not a nullary type",
		Gen:  gen,
		Exec: exec,
	})
}

func nullary(t lat.Ty) bool { return lat.Nullary(t) }

// unsoundClass names the failing rule as far as the terms tell: the two exclusions of the property first, then the
// Iterable rules, then the outermost constructors.
func unsoundClass(a, b lat.Ty, v lat.Val) string {
	defCall := func(t lat.Ty) bool { return t.K == "call" && len(t.Ts) == 0 }
	switch {
	case a.K == "type" && b.K == "type" && lat.Contains(b, defCall) && lat.ContainsK(a, "call") && !lat.Contains(a, defCall):
		return "unsound-type-callable-top" // transitivity of Callable through the default Callable (C03-trans-callable-top), one level up
	case lat.ContainsK(a, "struct") && lat.ContainsK(b, "hash"):
		return "unsound-sfh" // the by-specification rule Struct ⊒ Hash (exempt)
	case lat.ContainsK(a, "iter") && lat.ContainsK(b, "bin"):
		return "unsound-iterable-binary"
	case lat.ContainsK(a, "iter") && lat.ValContains(v, func(x lat.Val) bool { return x.K == "a" || x.K == "h" || x.K == "s" }):
		return "unsound-iterable-elem" // Iterable's instance rule goes through the inferred element type
	}
	return "unsound-" + lat.Head(a) + "-" + lat.Head(b)
}

// slotTy: the type a positional type (Array / Tuple) declares for position i; ok = false when it declares none.
func slotTy(t lat.Ty, i int) (lat.Ty, bool) {
	switch t.K {
	case "arr":
		return t.Ts[0], true
	case "tup":
		if len(t.Ts) == 0 {
			return lat.Ty{}, false
		}
		if i >= len(t.Ts) {
			i = len(t.Ts) - 1
		}
		return t.Ts[i], true
	}
	return lat.Ty{}, false
}

// subTriples lists the (A', B', V') the soundness of (A, B, V) is made of when A and B have the same shape: positions of
// Array / Tuple against the elements of an array value, key and value types of two Hash types against the entries, the content of
// two Sensitive types, the members of a Variant receiver, the content of Optional / NotUndef on either side.
func subTriples(a, b lat.Ty, v lat.Val) [][3]interface{} {
	var out [][3]interface{}
	add := func(x, y lat.Ty, w lat.Val) { out = append(out, [3]interface{}{x, y, w}) }
	switch a.K {
	case "var":
		for _, m := range a.Ts {
			add(m, b, v)
		}
	case "opt", "nu", "alias":
		add(a.Ts[0], b, v)
	}
	switch b.K {
	case "var":
		for _, m := range b.Ts {
			add(a, m, v)
		}
	case "opt", "nu", "alias":
		add(a, b.Ts[0], v)
	}
	if v.K == "a" {
		for i, e := range v.Vs {
			x, ok1 := slotTy(a, i)
			y, ok2 := slotTy(b, i)
			if ok1 && ok2 {
				add(x, y, e)
			}
		}
	}
	if v.K == "h" && a.K == "hash" && b.K == "hash" {
		for _, e := range v.Es {
			add(a.Ts[0], b.Ts[0], e.K)
			add(a.Ts[1], b.Ts[1], e.V)
		}
	}
	if v.K == "sv" && a.K == "sens" && b.K == "sens" {
		add(a.Ts[0], b.Ts[0], v.Vs[0])
	}
	return out
}

// soundCulprit descends from a failing (A, B, V) to a smallest failing sub-triple, evaluated on the implementation, so that an
// unsound rule gets one class wherever it is nested (e.g. Type[X] ⊒ Type[Y] ∋ u below Array ⊒ Tuple is still `type-type`).
func soundCulprit(env *lat.Env, a, b lat.Ty, v lat.Val) (lat.Ty, lat.Ty, lat.Val) {
	fails := func(x, y lat.Ty, w lat.Val) bool {
		tx, e1 := env.BuildCtor(x)
		ty, e2 := env.BuildCtor(y)
		vw, e3 := env.BuildVal(w)
		if e1 != nil || e2 != nil || e3 != nil {
			return false
		}
		bad := false
		lat.Safely(func() { bad = px.IsAssignable(tx, ty) && px.IsInstance(ty, vw) && !px.IsInstance(tx, vw) })
		return bad
	}
	for depth := 0; depth < 32; depth++ {
		found := false
		for _, t := range subTriples(a, b, v) {
			x, y, w := t[0].(lat.Ty), t[1].(lat.Ty), t[2].(lat.Val)
			if fails(x, y, w) {
				a, b, v, found = x, y, w, true
				break
			}
		}
		if !found {
			break
		}
	}
	return a, b, v
}

func exec(c px.Context, op string, args []sx.Sexp) core.Result {
	if res, ok := lat.ExecTier2(c, op, args); ok {
		return res
	}
	switch op {
	case "sound", "asg", "inst":
	default:
		return core.Result{Out: "bad-op", Pred: "FAIL harness-bad-op " + op}
	}
	r := lat.Exec(c, op, args)
	if res, ok := r.Generic(); ok {
		return res
	}
	if r.Status == "fault" {
		return r.Fault("panic")
	}
	switch op {
	case "sound":
		a, b, v := r.A[0].Ty, r.A[1].Ty, r.V[0]
		asg, instB, instA := r.B[0], r.B[1], r.B[2]
		nt := asg && instB
		if lat.UnitUnsafe(a) || lat.UnitUnsafe(b) ||
			lat.ValContains(v, func(x lat.Val) bool { return x.K == "t" && x.T != nil && lat.UnitUnsafe(*x.T) }) {
			// the property excludes Unit (two-way assignable by definition) - also inside a type VALUE held by v, where it meets
			// Type[..] (an instance of Type[B] is a type B accepts: C01_sound_type_receiver asks the same of Val.TyOK)
			return r.Result("n/a", nt)
		}
		if asg && instB && !instA {
			ca, cb, cv := soundCulprit(r.Env, a, b, v)
			return r.Result("FAIL "+unsoundClass(ca, cb, cv)+" B is assignable to A, V is an instance of B but not of A", true)
		}
		return r.Result("ok", nt)
	case "asg":
		return r.Result("ok", !(nullary(r.A[0].Ty) && nullary(r.A[1].Ty)))
	default: // inst
		return r.Result("ok", !nullary(r.A[0].Ty))
	}
}

func gen(g *core.G) {
	lg := &lat.Gen{R: g.Rng, Call: true}
	u1, u2 := lat.Universe(1), lat.Universe(2)
	vals := lat.ValUniverse()
	pick := func(ts []lat.Ty) lat.Ty { return ts[g.Rng.Intn(len(ts))] }

	// ---- (1) the exhaustive small universe -------------------------------------------------------------------
	// asg: thorough enumerates U1×U1; quick takes every A of U1 against a sample of U1
	if g.Thorough() {
		for _, a := range u1 {
			for _, b := range u1 {
				g.Emit("asg " + a.String() + " " + b.String())
			}
		}
	} else {
		for _, a := range u1 {
			for i := 0; i < 14; i++ {
				g.Emit("asg " + a.String() + " " + pick(u1).String())
			}
		}
	}
	// inst: every type of U1 against a sample of the value universe (thorough: all of it)
	for _, t := range u1 {
		for i, v := range vals {
			if g.Thorough() || g.Rng.Intn(len(vals)) < 8 || i == 0 {
				g.Emit("inst " + t.String() + " " + v.String())
			}
		}
	}
	// sound: every B of U2 with a witness of B, against candidates A from the universe
	for _, b := range u2 {
		w, ok := lg.Witness(b)
		if !ok {
			w = vals[g.Rng.Intn(len(vals))]
		}
		for i := 0; i < 2*g.Scale; i++ {
			g.Emit("sound " + pick(u1).String() + " " + b.String() + " " + w.String())
		}
		g.Emit("sound " + pick(u2).String() + " " + b.String() + " " + w.String())
	}

	// sound, the positional rules exhaustively: every pair of Tuple / Array types whose declared types are shorter than,
	// equal to or longer than the maximal sizes involved, against the arrays that tell them apart
	pos := lat.Positional(g.Thorough())
	for _, a := range pos {
		for _, b := range pos {
			for _, v := range lat.PositionalVals() {
				g.Emit("sound " + a.String() + " " + b.String() + " " + v.String())
			}
		}
	}

	// the case family (ci-Enums next to strings / Enums / Patterns that differ in case only): every pair against every spelling of the words
	for _, a := range lat.CaseFamily() {
		for _, b := range lat.CaseFamily() {
			for _, w := range lat.CaseFamilyStrings() {
				if g.Thorough() || g.Rng.Intn(3) == 0 {
					g.Emit("sound " + a.String() + " " + b.String() + " " + lat.VS(w).String())
				}
			}
		}
	}
	// the Callable types (no value of the value language is a lambda): acceptance of a sample of the pairs
	for _, a := range lat.CallableUniverse() {
		for _, b := range lat.CallableUniverse() {
			if g.Thorough() || g.Rng.Intn(6) == 0 {
				g.Emit("asg " + a.String() + " " + b.String())
			}
		}
	}
	// the Runtime types (no value of the value language is an instance of one): acceptance of every pair, and soundness against a few
	// values that are instances of neither
	for _, a := range lat.RuntimeUniverse() {
		for _, b := range lat.RuntimeUniverse() {
			g.Emit("asg " + a.String() + " " + b.String())
			if g.Rng.Intn(6) == 0 {
				g.Emit("sound " + a.String() + " " + b.String() + " " + vals[g.Rng.Intn(len(vals))].String())
			}
		}
	}

	// ---- (2) structured random cases: B related to A, V generated from B --------------------------------------
	for i := 0; i < 9000*g.Scale; i++ {
		lg.Alias = i%5 == 0
		lg.NoUnit = i%10 != 0
		a := lg.Ty(1 + g.Rng.Intn(4))
		var b lat.Ty
		switch k := g.Rng.Intn(20); {
		case k < 9:
			b = lg.Narrow(a)
		case k < 12:
			b = lg.Narrow(lg.Narrow(a))
		case k < 15: // the other way round: A a widening of B
			b = a
			a = lg.Widen(b)
		case k < 16:
			b = a // a separately built copy
		case k < 18:
			b = pick(u2)
		default:
			b = lg.Ty(1 + g.Rng.Intn(3))
		}
		w, ok := lg.Witness(b)
		if !ok {
			w = lg.Val(2)
		}
		g.Emit("sound " + a.String() + " " + b.String() + " " + w.String())
		if i%2 == 0 {
			g.Emit("sound " + a.String() + " " + b.String() + " " + lg.MutateVal(w).String())
		}
		if i%4 == 0 { // a witness of A against B: mostly instA true, instB sometimes
			if wa, ok := lg.Witness(a); ok {
				g.Emit("sound " + a.String() + " " + b.String() + " " + wa.String())
			}
		}
		if i%6 == 0 { // the other way round: B should not accept the wider A
			g.Emit("sound " + b.String() + " " + a.String() + " " + w.String())
		}
		if i%6 == 3 {
			if wa, ok := lg.Witness(a); ok {
				g.Emit("sound " + b.String() + " " + a.String() + " " + wa.String())
			}
		}
	}

	// ---- (2a) chains built on purpose (lat/chains.go): through the built-in aliases, Struct ⊒ Struct, Iterable; each link with a witness
	// of its right-hand type and a mutation of it.  Type[..] around a link turns its transitivity into a soundness question.
	lg.Alias, lg.NoUnit = false, true
	chains := append(append(lg.AliasChains(700*g.Scale), lg.StructChains(500*g.Scale)...), lg.IterChains(500*g.Scale)...)
	for i, tr := range chains {
		for _, ab := range [][2]lat.Ty{{tr.A, tr.B}, {tr.B, tr.C}, {tr.A, tr.C}} {
			w, ok := lg.Witness(ab[1])
			if !ok {
				w = lg.Val(2)
			}
			g.Emit("sound " + ab[0].String() + " " + ab[1].String() + " " + w.String())
			if i%3 == 0 {
				g.Emit("sound " + ab[0].String() + " " + ab[1].String() + " " + lg.MutateVal(w).String())
			}
		}
		// X ⊒ Y and the type value u with Y ⊒ u: Type[X] ⊒ Type[Y] ∋ u  (soundness for Type[..] IS transitivity)
		g.Emit("sound " + lat.TypeOf(tr.A).String() + " " + lat.TypeOf(tr.B).String() + " " + lat.VT(tr.C).String())
		if i%2 == 0 {
			g.Emit("sound " + lat.Arr(lat.TypeOf(tr.A), 0, 3).String() + " " + lat.Tup([]lat.Ty{lat.TypeOf(tr.B)}).String() + " " +
				lat.VA(lat.VT(tr.C)).String())
		}
	}

	// ---- (2') the recursion guard of aliases: one alias object meeting the same right-hand part twice -----------
	for _, gc := range lg.GuardCases(400 * g.Scale) {
		g.Emit("sound " + gc.A.String() + " " + gc.B.String() + " " + gc.V.String())
		g.Emit("sound " + gc.A.String() + " " + gc.B.String() + " " + lg.MutateVal(gc.V).String())
	}

	// ---- (2'') types given as TEXT in every parameter form of the creators: soundness of what the texts denote --------------
	spells := lg.Spellings(px.CurrentContext(), 300*g.Scale)
	for i, sc := range spells {
		ta := lat.Txt(sc.Text).String()
		b := lg.Narrow(sc.Ty)
		w, ok := lg.Witness(b)
		if !ok {
			w = lg.Val(2)
		}
		g.Emit("sound " + ta + " " + b.String() + " " + w.String())
		g.Emit("sound " + ta + " " + b.String() + " " + lg.MutateVal(w).String())
		o := spells[(i*7+3)%len(spells)]
		if wo, ok := lg.Witness(o.Ty); ok {
			g.Emit("sound " + ta + " " + lat.Txt(o.Text).String() + " " + wo.String())
		}
	}

	// ---- (3) malformed / odd stream (implementation only: no constructor accepts these terms) ---------------
	odd := []string{
		"(int 2 1)", "(flt (1 0) (0 0))", "(tspan 5 1)", "(strsz 3 1)", "(strsz -1 2)", "(coll 2 1)", "(arr any 5 2)", "(arr any -1 2)",
		"(hash str any 2 1)", "(tup (str) (2 1))", "(var str)", "(var (var))", "(struct (x f str))", "(struct (x61 f str) (x61 t any))",
		"(obj 3)", "(obj 1 3)", "(obj 2 1)", "(strsz 0 9223372036854775807)", "(enum t x41)", "(enum t)", "(pat x28)", "(rx x5b)",
		"(alias (int 2 1))", "(opt (var (int 1 2)))", "(arr (alias (strsz 2 1)) 0 1)",
	}
	for i := 0; i < 300; i++ {
		x := odd[i%len(odd)]
		t := lg.Ty(1).String()
		switch i % 3 {
		case 0:
			g.Emit("@asg " + x + " " + t)
		case 1:
			g.Emit("@asg " + t + " " + x)
		default:
			g.Emit("@sound " + t + " " + x + " " + lg.Val(1).String())
		}
	}
	lat.GenTier2(g.Emit, g.Rng, "C01")
}
